"""BOUNDED stand-in (never counted as proved) for the end-to-end claim of C05: real YAML text -> real PyYAML with the real
COBalDLoader / yaml_constructor / PipelineTranslator -> objects, compared with the same pipeline built in Python with >>.
Exhaustive over pipeline lengths 1..4 x every assignment of the syntactic forms (!Tag mapping / !Tag sequence / bare !Tag /
legacy __type__) x a small grid of argument values (scalars, nested list, nested mapping) x eager / lazy tags;
plus every position of a failing constructor."""
import itertools
import os
import tempfile

LOG = []


def _mk_classes():
    from cobald.interfaces import Pool, Controller, PoolDecorator

    class DemoPool(Pool):
        supply = demand = 0.0
        utilisation = allocation = 1.0

        def __init__(self, *args, **kwargs):
            LOG.append(("DemoPool", args, tuple(sorted(kwargs.items()))))
            self.cargs = (args, dict(kwargs))
            if kwargs.get("fail") or (args and args[0] == "fail"):
                raise ValueError("constructor failure")

    class DemoDeco(PoolDecorator):
        def __init__(self, target, *args, **kwargs):
            LOG.append(("DemoDeco", id(target), args, tuple(sorted(kwargs.items()))))
            super().__init__(target)
            self.cargs = (args, dict(kwargs))
            if kwargs.get("fail") or (args and args[0] == "fail"):
                raise ValueError("constructor failure")

    class DemoCtrl(Controller):
        def __init__(self, target, *args, **kwargs):
            LOG.append(("DemoCtrl", id(target), args, tuple(sorted(kwargs.items()))))
            super().__init__(target)
            self.cargs = (args, dict(kwargs))
            if kwargs.get("fail") or (args and args[0] == "fail"):
                raise ValueError("constructor failure")

    return DemoPool, DemoDeco, DemoCtrl


ARG_SETS = [
    {},                                         # no arguments
    {"a": 1, "b": "two"},
    {"a": [1, [2, 3]], "b": {"k": [4, {"z": 5}]}},   # nested containers (lazily filled by PyYAML unless eager)
]


def _yaml_value(v, indent):
    import yaml

    text = yaml.safe_dump(v, default_flow_style=True).strip()
    if text.endswith("\n..."):
        text = text[:-4].strip()
    return text


def _element_yaml(cls_name, form, args):
    """-> yaml text lines of one pipeline element"""
    tag = "!Demo%s" % cls_name
    if form == "legacy":
        lines = ["- __type__: %s.%s" % (__name__, "DEMO_" + cls_name)]
        for k, v in args.items():
            lines.append("  %s: %s" % (k, _yaml_value(v, 2)))
        return lines
    if form == "bare" or not args:
        if form == "mapping" and not args:
            return ["- %s {}" % tag]
        if form == "sequence" and not args:
            return ["- %s []" % tag]
        return ["- %s" % tag]
    if form == "mapping":
        return ["- %s" % tag] + ["  %s: %s" % (k, _yaml_value(v, 2)) for k, v in args.items()]
    return ["- %s" % tag] + ["  - %s" % _yaml_value(v, 2) for v in args.values()]


def _expected_call(form, args):
    if form == "sequence" and args:
        return tuple(args.values()), {}
    if form == "bare":
        return (), {}
    return (), dict(args)


def run(E, tier):
    import sys
    import yaml

    from cobald.daemon.core.config import COBalDLoader, PipelineTranslator, load_pipeline
    from cobald.daemon.config.yaml import yaml_constructor, load_configuration
    from cobald.daemon.config.mapping import SectionPlugin
    from cobald.daemon.plugins import PluginRequirements

    DemoPool, DemoDeco, DemoCtrl = _mk_classes()
    mod = sys.modules[__name__]
    mod.DEMO_Pool, mod.DEMO_Deco, mod.DEMO_Ctrl = DemoPool, DemoDeco, DemoCtrl
    # for legacy __type__ elements the factory receives target= as keyword
    classes = {"Pool": DemoPool, "Deco": DemoDeco, "Ctrl": DemoCtrl}
    evals = nfail = 0
    failures = []

    def fail(rec):
        nonlocal nfail
        nfail += 1
        if len(failures) < 5:
            failures.append(rec)

    maxn = 3 if tier == "quick" else 4
    forms = ("mapping", "sequence", "bare", "legacy")
    tmpdir = tempfile.mkdtemp(prefix="c05_")
    path = os.path.join(tmpdir, "cfg.yaml")
    plugin = SectionPlugin("pipeline", load_pipeline, PluginRequirements(required=True))
    try:
        for eager in (False, True):
            class Loader(COBalDLoader):
                pass
            for name, cls in classes.items():
                Loader.add_constructor("!Demo" + name, yaml_constructor(cls.s, eager=eager))
            for n in range(1, maxn + 1):
                chain = ["Ctrl"] + ["Deco"] * (n - 2) + ["Pool"] if n > 1 else ["Pool"]
                for fs in itertools.product(forms, repeat=n):
                    for argi in range(len(ARG_SETS)):
                        for fail_at in [None] + list(range(n)):
                            argsets = []
                            for i in range(n):
                                a = dict(ARG_SETS[(argi + i) % len(ARG_SETS)])
                                if fail_at == i:
                                    a = dict(a, fail=True) if fs[i] in ("mapping", "legacy") else ({"a": "fail"} if fs[i] == "sequence" else None)
                                    if a is None:
                                        break
                                argsets.append(a)
                            else:
                                lines = ["pipeline:"]
                                for i in range(n):
                                    lines += ["  " + l for l in _element_yaml(chain[i], fs[i], argsets[i])]
                                text = "\n".join(lines) + "\n"
                                with open(path, "w") as fh:
                                    fh.write(text)
                                del LOG[:]
                                evals += 1
                                try:
                                    out = load_configuration(path, loader=Loader, plugins=(plugin,))
                                    result = ("ok", out[plugin])
                                except Exception as ex:  # noqa
                                    result = ("error", ex)
                                label = {"yaml": text, "eager": eager}
                                if fail_at is not None:
                                    if result[0] != "error":
                                        fail(dict(label, what="a failing constructor at position %d did not surface as an exception" % fail_at))
                                    continue
                                if result[0] != "ok":
                                    fail(dict(label, what="loading raised %r" % (result[1],)))
                                    continue
                                objs = result[1]
                                problems = []
                                if not isinstance(objs, list) or len(objs) != n:
                                    problems.append("expected %d objects, got %r" % (n, objs))
                                else:
                                    for i, o in enumerate(objs):
                                        if type(o) is not classes[chain[i]]:
                                            problems.append("element %d is %r" % (i, type(o)))
                                            continue
                                        if i < n - 1 and getattr(o, "target", None) is not objs[i + 1]:
                                            problems.append("element %d does not target element %d" % (i, i + 1))
                                        eargs, ekw = _expected_call(fs[i], argsets[i])
                                        gargs, gkw = o.cargs
                                        if tuple(gargs) != tuple(eargs) or gkw != ekw:
                                            problems.append("element %d constructed with %r %r, configured %r %r" % (i, gargs, gkw, eargs, ekw))
                                    names = [e[0] for e in LOG]
                                    if names != ["Demo" + c for c in reversed(chain)]:
                                        problems.append("construction order %r" % names)
                                if problems:
                                    fail(dict(label, what="; ".join(problems)[:500]))
    finally:
        try:
            os.remove(path)
            os.rmdir(tmpdir)
        except OSError:
            pass
    return [{"function": "cobald.daemon.core.config:load_pipeline (real YAML through PyYAML, end to end)", "tool": "exhaustive native enumeration of YAML documents against the configured chain",
             "bound": "pipeline lengths 1..%d x all assignments of the 4 syntactic forms x %d argument sets (scalars, nested list/mapping) x lazy/eager tags x a failing constructor at every position" % (maxn, len(ARG_SETS)),
             "evaluations": evals, "failures": failures, "n_failures": nfail}]


if __name__ == "__main__":
    import json
    import sys

    sys.modules[__name__.replace("__main__", "bounded.c05_yaml")] = sys.modules["__main__"]
    print(json.dumps(run(None, sys.argv[1] if len(sys.argv) > 1 else "quick"), indent=1, default=str)[:3000])
