"""BOUNDED stand-in (never counted as proved) for cobald.daemon.core.config.load_section_plugins:
for every small set of plugins with before/after constraints (including constraints naming a plugin that is not
installed) the real function is run with a patched entry-point lookup and its result is checked against the
property: every installed plugin exactly once, every constraint between installed plugins respected, no exception
unless the constraints are cyclic."""
import itertools


def _run(names, cons, style="plain"):
    import cobald.daemon.core.config as cc
    from cobald.daemon.plugins import constraints

    class EP:
        def __init__(self, name, obj):
            self.name, self._obj, self.extras = name, obj, None

        def load(self):
            return self._obj

    eps = []
    for n in names:
        before, after = cons[n]

        def digest(section, _n=n):
            return _n

        if style == "wrapped":
            # a digest that is itself a decorated function (functools.wraps), with the constraints declared on the OUTER function
            import functools

            inner = digest

            @functools.wraps(inner)
            def digest(section, _inner=inner):
                return _inner(section)
        elif style == "callable-object":
            class Digest:
                def __init__(self, n):
                    self.n = n

                def __call__(self, section):
                    return self.n
            digest = Digest(n)
        if before or after:
            digest = constraints(before=before, after=after)(digest)
        eps.append(EP(n, digest))
    saved = cc.get_entrypoints
    cc.get_entrypoints = lambda group: list(eps)
    declared = {ep.name: (frozenset(getattr(ep._obj, "__requirements__").before), frozenset(getattr(ep._obj, "__requirements__").after)) for ep in eps if hasattr(ep._obj, "__requirements__")}
    try:
        res = cc.load_section_plugins("x")
    finally:
        cc.get_entrypoints = saved
    # frame: loading must not rewrite the constraints the plugins declare (they are shared with every later load)
    for ep in eps:
        if ep.name in declared:
            r = getattr(ep._obj, "__requirements__")
            if (frozenset(r.before), frozenset(r.after)) != declared[ep.name]:
                raise AssertionError("load_section_plugins modified the declared constraints of plugin %r: %r -> (%r, %r)" % (ep.name, declared[ep.name], set(r.before), set(r.after)))
    return res


def _cyclic(names, cons):
    edges = set()
    for n in names:
        before, after = cons[n]
        for b in before:
            if b in names:
                edges.add((n, b))  # n before b
        for a in after:
            if a in names:
                edges.add((a, n))
    # cycle detection
    color = {}

    def dfs(u):
        color[u] = 1
        for (x, y) in edges:
            if x == u:
                if color.get(y) == 1 or (color.get(y) is None and dfs(y)):
                    return True
        color[u] = 2
        return False

    return any(color.get(n) is None and dfs(n) for n in names), edges


def run(E, tier):
    maxn = 3 if tier == "quick" else 4
    evals = fails = 0
    failures = []
    pool = ["a", "b", "c", "d"][:maxn]
    for n in range(0, maxn + 1):
        names = pool[:n]
        targets = names + ["ghost"]
        options = [()] + [(t,) for t in targets]
        if tier != "quick":
            options += [tuple(p) for p in itertools.combinations(targets, 2)] if n <= 3 else []
        per_plugin = [(b, a) for b in options for a in options]
        for combo in itertools.product(per_plugin, repeat=n):
            cons = {names[i]: ([x for x in combo[i][0] if x != names[i]], [x for x in combo[i][1] if x != names[i]]) for i in range(n)}
            evals += 1
            cyc, edges = _cyclic(names, cons)
            style = ("plain", "wrapped", "callable-object")[evals % 3]      # the way the digest is written must not matter
            try:
                res = _run(names, cons, style)
            except ValueError as ex:  # toposort.CircularDependencyError
                if not cyc:
                    fails += 1
                    failures.append({"plugins": cons, "what": "raised %s without a cycle" % type(ex).__name__})
                continue
            except Exception as ex:  # noqa
                fails += 1
                failures.append({"plugins": cons, "what": "raised %s: %s" % (type(ex).__name__, ex)})
                continue
            order = [p.section for p in res]
            ok = sorted(order) == sorted(names) and all(order.index(x) < order.index(y) for (x, y) in edges)
            if cyc or not ok:
                fails += 1
                failures.append({"plugins": cons, "what": "order %s violates %s" % (order, sorted(edges)) if not cyc else "cyclic constraints accepted"})
    return [{"function": "cobald.daemon.core.config:load_section_plugins", "tool": "exhaustive native enumeration with a patched entry-point lookup",
             "bound": "all sets of <= %d plugins, each with at most %d before- and after-constraint(s) over the other plugins and one absent name; digests written as plain functions, functools.wraps-decorated functions and callable objects in rotation" % (maxn, 1 if tier == "quick" else 2),
             "evaluations": evals, "failures": failures[:5], "n_failures": fails}]
