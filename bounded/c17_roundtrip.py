"""BOUNDED stand-in (never counted as proved) for the whole-line claim of C17: the text produced by the REAL
LineProtocolFormatter / JsonFormatter for a real logging.LogRecord is decoded by an independent reference parser of the
InfluxDB line protocol (written from the protocol's rules, shares no code with cobald) / by json.loads and compared with
the record.  Exhaustive over the stated bound; runs natively on /repo's current tree.

Oracle decisions (DESIGN.md section 5, C17; fixed before looking at results): unsuffixed integers are read back as numbers
of equal value, so field kinds compared are {string, bool, number}; a trailing backslash in a name / key / tag value and
line breaks are outside the statement (the protocol cannot express them); record times are whole seconds (so that the
IEEE product with 1e9 is exact - the real-number idealisation of the proved part is not exercised here)."""
import itertools
import json
import logging

ALPHABET = ["a", ",", "=", " ", '"', "'", "\\", "é"]


# ------------------------------------------------------------------------------------------ reference parser
class ParseError(Exception):
    pass


def _read(text, pos, stops, escapable):
    """read up to an unescaped character of `stops`; a backslash escapes only the characters of `escapable`"""
    out = []
    n = len(text)
    while pos < n:
        ch = text[pos]
        if ch == "\\" and pos + 1 < n and text[pos + 1] in escapable:
            out.append(text[pos + 1])
            pos += 2
            continue
        if ch in stops:
            break
        out.append(ch)
        pos += 1
    return "".join(out), pos


def _read_field_value(text, pos):
    n = len(text)
    if pos < n and text[pos] == '"':
        pos += 1
        out = []
        while True:
            if pos >= n:
                raise ParseError("unterminated string field")
            ch = text[pos]
            if ch == "\\" and pos + 1 < n and text[pos + 1] in ('"', "\\"):
                out.append(text[pos + 1])
                pos += 2
                continue
            if ch == '"':
                return "".join(out), pos + 1
            if ch == "\n":
                raise ParseError("line break inside a string field")
            out.append(ch)
            pos += 1
    tok, pos = _read(text, pos, ", \n", "")
    if tok in ("t", "T", "true", "True", "TRUE"):
        return True, pos
    if tok in ("f", "F", "false", "False", "FALSE"):
        return False, pos
    try:
        if tok.endswith("i") or tok.endswith("u"):
            return int(tok[:-1]), pos
        return float(tok), pos
    except ValueError:
        raise ParseError("bad field value %r" % tok)


def parse_line(text):
    """-> (measurement, tags, fields, timestamp or None); raises ParseError unless text is exactly one well-formed line"""
    if not text.endswith("\n") or "\n" in text[:-1]:
        raise ParseError("not a single newline-terminated line")
    pos = 0
    name, pos = _read(text, pos, ", \n", ", ")
    if not name:
        raise ParseError("empty measurement")
    tags = {}
    while text[pos] == ",":
        key, pos = _read(text, pos + 1, "=, \n", ",= ")
        if text[pos] != "=" or not key:
            raise ParseError("tag without '=' at %d" % pos)
        val, pos = _read(text, pos + 1, ", \n=", ",= ")
        if text[pos] == "=":
            raise ParseError("bare '=' in a tag value at %d" % pos)
        if not val:
            raise ParseError("empty tag value")
        if key in tags:
            raise ParseError("duplicate tag key %r" % key)
        tags[key] = val
    if text[pos] != " ":
        raise ParseError("expected the field set at %d" % pos)
    fields = {}
    while True:
        key, pos = _read(text, pos + 1, "=, \n", ",= ")
        if text[pos] != "=" or not key:
            raise ParseError("field without '=' at %d" % pos)
        val, pos = _read_field_value(text, pos + 1)
        if key in fields:
            raise ParseError("duplicate field key %r" % key)
        fields[key] = val
        if text[pos] != ",":
            break
    ts = None
    if text[pos] == " ":
        tok, pos = _read(text, pos + 1, "\n", "")
        try:
            ts = int(tok)
        except ValueError:
            raise ParseError("bad timestamp %r" % tok)
    if text[pos:] != "\n":
        raise ParseError("trailing text %r" % text[pos:])
    return name, tags, fields, ts


# ------------------------------------------------------------------------------------------ enumeration
def strings(maxlen):
    for n in range(1, maxlen + 1):
        for tup in itertools.product(ALPHABET, repeat=n):
            yield "".join(tup)


def _expressible(s):
    return not s.endswith("\\")


def _record(name, args, created):
    rec = logging.LogRecord("monitor", logging.INFO, "path", 1, name, (args,) if args else ({},), None)
    rec.created = created
    return rec


def _same_value(a, b):
    if isinstance(a, bool) or isinstance(b, bool):
        return isinstance(a, bool) and isinstance(b, bool) and a == b
    if isinstance(a, str) or isinstance(b, str):
        return isinstance(a, str) and isinstance(b, str) and a == b
    return a == b


def _check_line(fmt, name, args, created, whitelist, defaults, resolution, fail, label):
    import cobald.monitor.format_json as fj

    try:
        text = fmt.format(_record(name, args, created))
    except Exception as ex:  # noqa
        fail({"case": label, "name": name, "data": repr(args), "what": "format raised %s: %s" % (type(ex).__name__, ex)})
        return
    exp_tags = {k: str(v) for k, v in defaults.items()}
    exp_tags.update({k: str(v) for k, v in args.items() if k in whitelist})
    exp_fields = {k: v for k, v in args.items() if k not in whitelist and k not in fj.RECORD_ATTRIBUTES}
    exp_ts = None if resolution is None else int(created // resolution * resolution) * 10 ** 9
    try:
        got = parse_line(text)
    except ParseError as ex:
        fail({"case": label, "name": name, "data": repr(args), "line": text, "what": "reference parser rejects the line: %s" % ex})
        return
    gname, gtags, gfields, gts = got
    ok = gname == name and gtags == exp_tags and set(gfields) == set(exp_fields) and all(_same_value(gfields[k], exp_fields[k]) for k in exp_fields) and gts == exp_ts
    if not ok:
        fail({"case": label, "name": name, "data": repr(args), "line": text,
              "what": "decoded %r, expected %r" % ((gname, gtags, gfields, gts), (name, exp_tags, exp_fields, exp_ts))})


NUMBERS = [0, 1, -7, 298, 10 ** 12, 0.45, -2.5, 1e20, 1.5e-7, True, False]


def run_line(tier):
    from cobald.monitor.format_line import LineProtocolFormatter

    maxlen = 3 if tier == "quick" else 5
    evals = [0]
    failures = []
    nfail = [0]

    def fail(rec):
        nfail[0] += 1
        if len(failures) < 5:
            failures.append(rec)

    def check(fmt, *a):
        evals[0] += 1
        _check_line(fmt, *a)

    plain = LineProtocolFormatter(tags={"t"}, resolution=10)
    # (1) every string of the bound in every position, one position at a time
    for s in strings(maxlen):
        ok_key = _expressible(s)
        if ok_key:
            check(plain, s, {"t": "v", "f": 1}, 1700000017, {"t"}, {}, 10, fail, "measurement")
            check(LineProtocolFormatter(tags={s}, resolution=10), "m", {s: "v", "f": 1}, 1700000017, {s}, {}, 10, fail, "tag key")
            check(plain, "m", {"t": s, "f": 1}, 1700000017, {"t"}, {}, 10, fail, "tag value")
            check(plain, "m", {"t": "v", s: 1}, 1700000017, {"t"}, {}, 10, fail, "field key")
        check(plain, "m", {"t": "v", "f": s}, 1700000017, {"t"}, {}, 10, fail, "string field value")
    # (2) adjacent pairs (a key next to its value, name next to the first tag, two fields)
    short = [s for s in strings(2)]
    for a, b in itertools.product(short, repeat=2):
        if _expressible(a) and _expressible(b):
            check(LineProtocolFormatter(tags={a}, resolution=None), b, {a: b, "f": 1}, 1700000017, {a}, {}, None, fail, "name+tag pair")
        if _expressible(a):
            check(plain, "m", {a: b, "z": "q" + b}, 1700000017, {"t"}, {}, 10, fail, "field pair")
    # (3) numbers, bools, whitelist/default configurations over 3 keys, resolutions and times
    keys = ("a", "b", "c")
    configs = [(None, set(), {})]
    for n in range(0, 4):
        for ks in itertools.combinations(keys, n):
            configs.append((set(ks), set(ks), {}))
            for dv in (49, "d v", 8.5, True):
                if ks:
                    d = {k: dv for k in ks}
                    configs.append((d, set(ks), d))
    for tags_arg, wl, defaults in configs:
        for res in (None, 1, 10, 60):
            fmt = LineProtocolFormatter(tags=tags_arg, resolution=res)
            for n in range(1, 4):
                for ks in itertools.combinations(keys + ("d",), n):
                    for val in NUMBERS + ["s t"]:
                        args = {k: val for k in ks}
                        exp_fields = [k for k in ks if k not in wl]
                        if not exp_fields:
                            continue  # a line without fields is not a line of the protocol; outside the statement
                        for created in (0, 59, 1700000017, 1700000020.75):
                            check(fmt, "m e", args, created, wl, defaults, res, fail, "configuration %r resolution %r" % (tags_arg, res))
    return {"function": "cobald.monitor.format_line:LineProtocolFormatter.format (whole line, against a reference parser)", "tool": "exhaustive native enumeration + independent line-protocol parser",
            "bound": "every string of length <= %d over %r in each position (measurement, tag key, tag value, field key, string field) one at a time; all pairs of strings of length <= 2 in adjacent positions; "
                     "%d number/bool samples x all whitelist/default configurations over 3 keys x resolutions (None, 1, 10, 60) x 4 whole-second record times" % (maxlen, "".join(ALPHABET), len(NUMBERS)),
            "evaluations": evals[0], "failures": failures, "n_failures": nfail[0]}


def run_json(tier):
    from cobald.monitor.format_json import JsonFormatter

    evals = nfail = 0
    failures = []
    payload_values = [1, 0.5, True, None, "s'\"\\ é", [1, "x"], {"k": [1, 2]}]
    keys = ("a", "b", "time", "message")
    for dn in range(0, 3):
        for dks in itertools.combinations(keys, dn):
            for dv in payload_values[:4]:
                defaults = {k: dv for k in dks}
                for datefmt in (None, "", "%Y"):
                    fmt = JsonFormatter(defaults or None, datefmt)
                    for an in range(0, 3):
                        for aks in itertools.combinations(keys, an):
                            for av in payload_values:
                                args = {k: av for k in aks}
                                rec = _record("m e", args, 1700000017)
                                evals += 1
                                try:
                                    text = fmt.format(rec)
                                    got = json.loads(text)
                                except Exception as ex:  # noqa
                                    nfail += 1
                                    failures.append({"defaults": defaults, "data": repr(args), "what": "%s: %s" % (type(ex).__name__, ex)})
                                    continue
                                exp = dict(defaults)
                                if datefmt is None or datefmt:
                                    exp["time"] = fmt.formatTime(rec, datefmt)
                                exp["message"] = "m e"
                                exp.update(args)
                                if got != exp or "\n" in text or not isinstance(got, dict):
                                    nfail += 1
                                    failures.append({"defaults": defaults, "data": repr(args), "datefmt": datefmt, "text": text, "what": "decoded %r, expected %r" % (got, exp)})
    return {"function": "cobald.monitor.format_json:JsonFormatter.format (whole text, against json.loads)", "tool": "exhaustive native enumeration + json.loads",
            "bound": "defaults and record data over <= 2 of the keys %r each, %d JSON value samples, datefmt in (None, '', '%%Y')" % (keys, len(payload_values)),
            "evaluations": evals, "failures": failures[:5], "n_failures": nfail}


def run(E, tier):
    return [run_line(tier), run_json(tier)]


if __name__ == "__main__":
    import sys

    for rep in run(None, sys.argv[1] if len(sys.argv) > 1 else "quick"):
        print(json.dumps(rep, indent=1, default=str)[:3000])
