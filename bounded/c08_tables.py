"""BOUNDED stand-ins (never counted as proved) for the two table constructors of C08:
RangeSelector._compile_lookup and DemandSwitch.__init__ establish the representation invariants that the
proved functions (get_rule, DemandSwitch.regulate) take as preconditions.  The predicates evaluated here are
the sidecar's own `lookup_inv` / `ascending` (same text as in the proofs), on exhaustively enumerated tables."""
import itertools

import z3

from pyvc.concrete import HeapBuilder, holds
from pyvc.contracts import Spec
from pyvc.engine import Ctx
import contracts.c08_controllers as K

GRID = [-1, 0, 0.5, 1, 2.5, 3]


def check_compile_lookup(E, max_rules):
    from cobald.controller.stepwise import RangeSelector

    evals = fails = 0
    failures = []
    base = lambda pool, interval: None
    for n in range(0, max_rules + 1):
        for ths in itertools.product(GRID, repeat=n):
            rules = [(t, (lambda pool, interval, t=t: t)) for t in ths]
            evals += 1
            try:
                lookup = RangeSelector._compile_lookup(base, tuple(rules))
            except ValueError:
                ok = len(set(ths) | ({0} if False else set())) < len(ths) or (0 in ths)
                # a duplicate threshold - or a threshold equal to the implicit lower bound 0 - is rejected
                if not ok:
                    fails += 1
                    failures.append({"thresholds": ths, "what": "ValueError without duplicate"})
                continue
            except TypeError:
                # equal thresholds make sorted() compare the rule callables
                if len(set(ths)) == len(ths):
                    fails += 1
                    failures.append({"thresholds": ths, "what": "TypeError without duplicate"})
                continue
            except Exception as ex:  # noqa  (the function under test may do anything on a changed tree: that is a failure, not a crash of the harness)
                fails += 1
                failures.append({"thresholds": ths, "what": "raised %s: %s" % (type(ex).__name__, ex)})
                continue
            try:
                ctx = Ctx(E, [], "bounded")
                hb = HeapBuilder(ctx)
                t = hb.term(lookup)
                heap = hb.heap()
                spec = Spec(ctx, heap, heap)
                view = spec.view_term(t, K.Selector.fields["_lookup"], heap)
                inv = K.lookup_inv(spec, view)
                # and the rules sit on their own thresholds: entry j >= 1 with lower bound t maps to the rule declared for t
                right_rules = all(
                    (lookup[k] is base) if j == 0 else (k[0] == lookup[k](None, None)) for j, k in enumerate(lookup)
                )
            except Exception as ex:  # noqa  (the result is not even a table of ((low, high), rule) entries)
                fails += 1
                failures.append({"thresholds": ths, "what": "result %r is not a lookup table (%s: %s)" % (lookup, type(ex).__name__, ex)})
                continue
            r = holds(inv)
            if r is not True or not right_rules:
                fails += 1
                failures.append({"thresholds": ths, "what": "lookup_inv=%s rules=%s" % (r, right_rules)})
    return {"function": "cobald.controller.stepwise:RangeSelector._compile_lookup", "tool": "exhaustive native enumeration, sidecar predicate lookup_inv evaluated by z3 on the concrete result",
            "bound": "all tables of <= %d rules with thresholds from %s in every order" % (max_rules, GRID), "evaluations": evals, "failures": failures[:5], "n_failures": fails}


def check_switch_init(E, max_pairs):
    from cobald.controller.switch import DemandSwitch
    from cobald.interfaces import Controller
    from cobald.utility import InvariantError

    class Stub(Controller):
        def __init__(self, target=None):
            self.target = target

        def regulate(self, interval):
            pass

    class P:
        supply = demand = utilisation = allocation = 0.0

    evals = fails = 0
    failures = []
    for n in range(0, max_pairs + 1):
        for ths in itertools.product(GRID, repeat=n):
            evals += 1
            pool = P()
            default = Stub()
            slaves = []
            ctls = [Stub() for _ in ths]
            for t, c in zip(ths, ctls):
                slaves += [t, c]
            try:
                sw = DemandSwitch.__new__(DemandSwitch)
                DemandSwitch.__init__(sw, pool, default, *slaves)
            except TypeError:
                if len(set(ths)) == len(ths):
                    fails += 1
                    failures.append({"thresholds": ths, "what": "TypeError without duplicate thresholds"})
                continue
            except Exception as ex:  # noqa
                fails += 1
                failures.append({"thresholds": ths, "what": "raised %s: %s" % (type(ex).__name__, ex)})
                continue
            try:
                ctx = Ctx(E, [], "bounded")
                hb = HeapBuilder(ctx)
                t = hb.term(sw._slaves)
                heap = hb.heap()
                spec = Spec(ctx, heap, heap)
                view = spec.view_term(t, K.Switch.fields["_slaves"], heap)
                r = holds(K.ascending(spec, view))
                targets = default.target is pool and all(c.target is pool for c in ctls) and sw.target is pool
                pairs = sorted(zip(ths, range(n)))
                same = [x for x, _ in sw._slaves] == [x for x, _ in pairs] and all(sw._slaves[i][1] is ctls[pairs[i][1]] for i in range(n))
            except Exception as ex:  # noqa
                fails += 1
                failures.append({"thresholds": ths, "what": "the switch is not in a state that can be judged (%s: %s)" % (type(ex).__name__, ex)})
                continue
            if r is not True or not targets or not same:
                fails += 1
                failures.append({"thresholds": ths, "what": "ascending=%s targets=%s pairs=%s" % (r, targets, same)})
    # rejected shapes
    for bad in ([1], [Stub(), 1], ["x", Stub()]):
        evals += 1
        try:
            sw = DemandSwitch.__new__(DemandSwitch)
            DemandSwitch.__init__(sw, P(), Stub(), *bad)
            fails += 1
            failures.append({"slaves": repr(bad), "what": "accepted"})
        except (InvariantError, TypeError):
            pass
        except Exception as ex:  # noqa
            fails += 1
            failures.append({"slaves": repr(bad), "what": "raised %s instead of rejecting: %s" % (type(ex).__name__, ex)})
    evals += 1
    try:
        sw = DemandSwitch.__new__(DemandSwitch)
        DemandSwitch.__init__(sw, P(), Stub(), 1, Stub(target=P()))
        fails += 1
        failures.append({"what": "foreign-target slave accepted"})
    except InvariantError:
        pass
    except Exception as ex:  # noqa
        fails += 1
        failures.append({"what": "foreign-target slave: raised %s instead of InvariantError: %s" % (type(ex).__name__, ex)})
    return {"function": "cobald.controller.switch:DemandSwitch.__init__", "tool": "exhaustive native enumeration, sidecar predicate `ascending` evaluated by z3 on the concrete result",
            "bound": "all slave tables of <= %d pairs with thresholds from %s in every order, plus 4 rejected shapes" % (max_pairs, GRID), "evaluations": evals, "failures": failures[:5], "n_failures": fails}


def run(E, tier):
    # tables of <= 3 entries are PROVED (contracts/c08_controllers.py, one contract per size); this stand-in is for the sizes beyond
    n = 4 if tier == "quick" else 5
    return [check_compile_lookup(E, n), check_switch_init(E, 4)]
