"""BOUNDED complement (never counted as proved) for C15: the proved contracts of FactoryPool are additionally EVALUATED on concrete
runs of the real functions - random small pools (0..4 active, 0..2 released children, a factory handing out new children) - with the
set sums written out over the concrete children.  It exercises the same clauses natively (a contract that is too strong, or a
defect the VCs leave undecided, shows up here with the concrete state)."""
import time


def run(E, tier):
    from pyvc import replay as R

    budget = 1.5 if tier == "quick" else 20.0
    reports = []
    evals = nfail = 0
    failures = []
    per = {}
    for key, con in E.contracts.items():
        if "FactoryPool" not in key or con.skip_body or not con.ns.get("gen_args"):
            continue
        fi = E.repo.get(con.body_key or con.key)
        r = R.native_search(E, con, fi, seed=int(time.time()) % 1000 if tier != "quick" else 7, budget_s=budget, max_samples=100000)
        evals += r.get("accepted", 0)
        per[key.split(":")[-1]] = r.get("accepted", 0)
        if r.get("found"):
            nfail += 1
            failures.append({"function": key, "violated": r["violated_clauses"], "input": r["input"], "observed": r["observed"]})
    return [{"function": "cobald.composite.factory:FactoryPool (contracts evaluated on concrete runs)", "tool": "native random search over small pools, clauses evaluated with explicit set sums",
             "bound": "random pools of <= 4 active and <= 2 released children, demands in {0, 0.5, 1, 2, 5}, targets around the active demand; %.1f s per function; per function: %s" % (budget, per),
             "evaluations": evals, "failures": failures[:5], "n_failures": nfail}]
