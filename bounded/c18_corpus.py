"""PROBE of the assumed PyYAML contract behind C18 (never counted as proved): documents using python/* tags or unregistered
!tags - at top level, inside the pipeline, nested in a registered tag's arguments, lazily or eagerly evaluated - are loaded
through the REAL cobald.daemon.core.config.load(); each must be rejected and no canary may fire."""
import os
import sys
import tempfile

CANARY = []


def fire(*a, **k):
    CANARY.append((a, k))
    return 1


TAGS = [
    "!!python/object/apply:bounded.c18_corpus.fire [1]",
    "!!python/object/new:bounded.c18_corpus.fire [1]",
    "!!python/object:bounded.c18_corpus.Victim {}",
    "!!python/name:bounded.c18_corpus.fire",
    "!!python/module:bounded.c18_victim_module",
    "!!python/object/apply:os.getcwd []",
    "!!python/object/apply:subprocess.check_output [[echo, x]]",
    "!!python/tuple [1, 2]",
    "!!python/bytes aGk=",
    "!not_a_registered_plugin {a: 1}",
    "!not_a_registered_plugin",
]


class Victim:
    def __init__(self, *a, **k):
        CANARY.append("Victim")

    def __setstate__(self, s):
        CANARY.append("Victim.__setstate__")


def documents():
    for t in TAGS:
        yield "top", "pipeline:\n  - !__yaml_tag_test []\nextra: %s\n" % t
        yield "pipeline", "pipeline:\n  - %s\n" % t
        yield "nested-eager", "pipeline:\n  - !__yaml_tag_test\n    payload: %s\n" % t
        yield "nested-list", "pipeline:\n  - !__yaml_tag_test [1, %s]\n" % t
        yield "type-arg", "pipeline:\n  - __type__: cobald.daemon.plugins.__yaml_tag_test\n    arg: %s\n" % t


def merge_key_documents():
    """KNOWN FINDING C18-merge-key-value-tag-is-ignored: PyYAML's SafeConstructor.flatten_mapping merges the value of a `<<` key by
    node KIND and never dispatches its tag, so a python/* or unregistered tag on a mapping that is the value (or an item of the
    sequence value) of a merge key is accepted; nothing is instantiated.  These documents are probed separately: they must stay
    harmless (no canary), and they are reported as the known finding as long as they are accepted."""
    for t in ("!!python/object/apply:bounded.c18_corpus.fire", "!!python/object:bounded.c18_corpus.Victim", "!!python/name:bounded.c18_corpus.fire", "!not_a_registered_plugin"):
        yield "merge-value", "pipeline:\n  - !__yaml_tag_test []\nextra: {<<: %s {x: 1}, y: 2}\n" % t
        yield "merge-sequence-item", "pipeline:\n  - !__yaml_tag_test []\nextra: {<<: [%s {x: 1}, {y: 2}]}\n" % t
        yield "merge-in-plugin-arguments", "pipeline:\n  - !__yaml_tag_test\n    <<: %s {payload: 1}\n" % t


def run(E, tier):
    from cobald.daemon.core.config import load

    evals = fails = 0
    failures = []
    known = []
    marker_mod = "bounded.c18_victim_module"
    for pos, doc in list(documents()) + [("KNOWN:" + p, d) for p, d in merge_key_documents()]:
        evals += 1
        del CANARY[:]
        sys.modules.pop(marker_mod, None)
        with tempfile.NamedTemporaryFile("w", suffix=".yaml", delete=False) as fh:
            fh.write(doc)
            path = fh.name
        try:
            try:
                with load(path):
                    pass
                outcome = "accepted"
            except Exception as ex:  # noqa
                outcome = type(ex).__name__
        finally:
            os.unlink(path)
        if pos.startswith("KNOWN:") and outcome == "accepted" and not CANARY and marker_mod not in sys.modules:
            known.append({"position": pos[6:], "document": doc})        # accepted but harmless: the recorded finding, not a new violation
            continue
        if outcome == "accepted" or CANARY or marker_mod in sys.modules:
            fails += 1
            failures.append({"position": pos, "document": doc, "outcome": outcome, "canary": repr(CANARY)[:100]})
    return [{"known_finding": {"id": "C18-merge-key-value-tag-is-ignored", "hits": len(known), "example": known[0] if known else None},             "function": "cobald.daemon.core.config:load (probe of the assumed PyYAML safe-loader contract)", "tool": "corpus of python/* and unregistered-tag documents through the real load(), canaries",
             "bound": "%d documents (%d tags x 5 positions)" % (evals, len(TAGS)), "evaluations": evals, "failures": failures[:5], "n_failures": fails}]
