"""BOUNDED stand-in (never counted as proved) for C19: the proved part is the inductive step per node shape of width <= 3;
this enumerates / samples whole trees (width up to 5, depth up to 4) and runs the REAL Translator against an independent
recursive evaluator written from the property statement: same value, same factory-call log (order, arguments), and for a
failing factory the exact path of keys and indices in ConfigurationError.where."""
import itertools
import random

LOG = []


class Boom(Exception):
    pass


def factory_a(*args, **kwargs):
    LOG.append(("a", args, tuple(sorted(kwargs.items(), key=lambda kv: kv[0]))))
    return ("A", args, tuple(sorted(kwargs.items(), key=lambda kv: kv[0])))


def factory_fail(*args, **kwargs):
    LOG.append(("fail", args, tuple(sorted(kwargs.items(), key=lambda kv: kv[0]))))
    raise Boom("boom")


class Holder:
    @staticmethod
    def nested(*args, **kwargs):
        LOG.append(("nested", args, tuple(sorted(kwargs.items(), key=lambda kv: kv[0]))))
        return ("N", args, tuple(sorted(kwargs.items(), key=lambda kv: kv[0])))


ME = __name__
GOOD = [ME + ".factory_a", ME + ".Holder.nested"]
BAD = [(ME + ".factory_fail", "raises"), (ME + ".no_such_thing", "missing-attribute"), ("no_such_root_module_xyz.f", "missing-root")]


# ---- independent evaluator (the statement) -----------------------------------------------------------------------------
class Failed(Exception):
    def __init__(self, where):
        self.where = where


def _resolve(name):
    import importlib
    import sys

    try:
        return importlib.import_module(name)
    except ImportError:
        pass
    parts = name.split(".")
    for cut in range(len(parts) - 1, 0, -1):
        modname = ".".join(parts[:cut])
        if modname in sys.modules:
            obj = sys.modules[modname]
            for comp in parts[cut:]:
                obj = getattr(obj, comp)
            return obj
    raise ImportError(name)


def reference(tree, where, log):
    if isinstance(tree, dict):
        out = {}
        for k, v in tree.items():
            out[k] = reference(v, "%s.%s" % (where, k), log)
        if "__type__" in out:
            kw = dict(out)
            name = kw.pop("__type__")
            args = kw.pop("__args__", [])
            try:
                f = _resolve(name)
                if any(not isinstance(k, str) for k in kw):
                    raise TypeError("keywords must be strings")       # Python's call protocol: such an item cannot be a keyword argument
                key = {"factory_a": "a", "factory_fail": "fail", "nested": "nested"}[f.__name__]
                log.append((key, tuple(args), tuple(sorted(kw.items(), key=lambda kv: kv[0]))))
                if key == "fail":
                    raise Boom("boom")
                return ({"a": "A", "nested": "N"}[key], tuple(args), tuple(sorted(kw.items(), key=lambda kv: kv[0])))
            except Failed:
                raise
            except Exception:
                raise Failed(where)
        return out
    if isinstance(tree, list):
        res = [None] * len(tree)
        for i in range(len(tree) - 1, -1, -1):
            res[i] = reference(tree[i], "%s[%s]" % (where, i), log)
        return res
    return tree


# ---- trees --------------------------------------------------------------------------------------------------------------
def gen_tree(rng, depth, bad_budget):
    """random tree; bad_budget: mutable [n] - at most that many failing factories are placed"""
    r = rng.random()
    if depth == 0 or r < 0.25:
        return rng.choice([1, 2.5, "s", True, None, "x.y", ""])
    if r < 0.55:
        return [gen_tree(rng, depth - 1, bad_budget) for _ in range(rng.randint(0, 5))]
    keys = rng.sample(["a", "b", "c", "d", "e", 80, True], rng.randint(0, 5))      # YAML mapping keys need not be strings
    d = {}
    typed = rng.random() < 0.6
    items = [(k, gen_tree(rng, depth - 1, bad_budget)) for k in keys]
    if typed:
        if bad_budget[0] > 0 and rng.random() < 0.3:
            bad_budget[0] -= 1
            name = rng.choice(BAD)[0]
        else:
            name = rng.choice(GOOD)
        items.insert(rng.randint(0, len(items)), ("__type__", name))
        if rng.random() < 0.5:
            items.insert(rng.randint(0, len(items)), ("__args__", [gen_tree(rng, depth - 1, bad_budget) for _ in range(rng.randint(0, 3))]))
    for k, v in items:
        d[k] = v
    return d


def small_trees():
    """exhaustive: all trees of depth <= 2 over a tiny vocabulary (lists of length <= 2, mappings over keys {a} with/without __type__/__args__)"""
    leaves = [1, "s"]

    def level(sub):
        out = list(leaves)
        for n in range(0, 3):
            for combo in itertools.product(sub, repeat=n):
                out.append(list(combo))
        for name in (None, GOOD[0], BAD[0][0], BAD[1][0]):
            for a in [None] + sub:
                for args in (None, [], [sub[0]], [sub[-1], sub[0]]):
                    d = {}
                    if a is not None:
                        d["a"] = a
                    if name is not None:
                        d["__type__"] = name
                    if args is not None:
                        d["__args__"] = args
                    out.append(d)
        return out

    l1 = level(leaves)
    l1s = l1[:: max(1, len(l1) // 12)]
    return level(l1s)


def _compare(tree, where):
    import copy
    from cobald.daemon.config.mapping import Translator, ConfigurationError

    ref_log = []
    try:
        ref = ("value", reference(copy.deepcopy(tree), where, ref_log))
    except Failed as f:
        ref = ("error", f.where)
    del LOG[:]
    snapshot = copy.deepcopy(tree)
    try:
        got = ("value", Translator().translate_hierarchy(tree, where=where))
    except ConfigurationError as e:
        got = ("error", e.where)
    except Exception as e:  # noqa
        got = ("crash", "%s: %s" % (type(e).__name__, e))
    problems = []
    if got != ref:
        problems.append("result %r, expected %r" % (got, ref))
    if LOG != ref_log:
        problems.append("factory calls %r, expected %r" % (LOG[:6], ref_log[:6]))
    if tree != snapshot:
        problems.append("the input structure was modified")
    return problems


def run(E, tier):
    evals = nfail = 0
    failures = []
    for tree in small_trees():
        evals += 1
        p = _compare(tree, "cfg")
        if p:
            nfail += 1
            if len(failures) < 5:
                failures.append({"tree": repr(tree)[:300], "what": "; ".join(p)[:400]})
    rng = random.Random(20240519)
    n_random = 3000 if tier == "quick" else 60000
    for _ in range(n_random):
        tree = gen_tree(rng, rng.randint(1, 4), [rng.randint(0, 2)])
        evals += 1
        p = _compare(tree, rng.choice(["", "root", "a.b[1]"]))
        if p:
            nfail += 1
            if len(failures) < 5:
                failures.append({"tree": repr(tree)[:300], "what": "; ".join(p)[:400]})
    return [{"function": "cobald.daemon.config.mapping:Translator.translate_hierarchy (whole trees)", "tool": "native enumeration + random sampling against an independent recursive evaluator",
             "bound": "exhaustive: trees of depth <= 2 over a tiny vocabulary (%d trees); random (fixed seed): %d trees of depth <= 4, width <= 5, <= 2 failing factories each "
                      "(raising factory, missing attribute, missing root module)" % (len(small_trees()), n_random),
             "evaluations": evals, "failures": failures, "n_failures": nfail}]


if __name__ == "__main__":
    import json
    import sys

    sys.modules[ME] = sys.modules["__main__"]
    print(json.dumps(run(None, sys.argv[1] if len(sys.argv) > 1 else "quick"), indent=1, default=str)[:3000])
