import threading, time, trio, asyncio, sys
from cobald.daemon.runners.service import ServiceRunner
state = {"cancelled": False, "cleaned": False}
async def trio_payload():
    try:
        await trio.sleep_forever()
    except trio.Cancelled:
        state["cancelled"] = True
        raise
    finally:
        with trio.CancelScope(shield=True):
            await trio.sleep(1.0)
            state["cleaned"] = True
def thread_payload():
    time.sleep(0.5)
    raise EXC("boom")
EXC = {"SystemExit": SystemExit, "ValueError": ValueError, "KeyboardInterrupt": KeyboardInterrupt}[sys.argv[1]]
runner = ServiceRunner(accept_delay=0.1)
runner.adopt(trio_payload, flavour=trio)
runner.adopt(thread_payload, flavour=threading)
t0 = time.time()
try:
    runner.accept()
    out = "returned"
except BaseException as e:
    out = "raised %s: %r" % (type(e).__name__, e)
print(sys.argv[1], "->", out, "after %.2fs" % (time.time() - t0), "state at return:", dict(state))
time.sleep(1.5)
print("   state 1.5 s later:", state)
