#!/bin/sh
# run every claimed check of one tier on the current /repo tree, one summary line each:  tools/run_all.sh [quick|thorough]
HERE="$(cd "$(dirname "$0")/.." && pwd)"
TIER="${1:-quick}"
rc=0
for id in $(python3 -c "import json;print(' '.join(c['property_id'] for c in json.load(open('$HERE/MANIFEST.json'))['checks']))"); do
  out="$("$HERE/check" "$id" --tier "$TIER" 2>&1)"; code=$?
  echo "$out" | grep -E "^(SUMMARY|VIOLATION|KNOWN-FINDING|ENGINE-ERROR|UNDECIDED)" | cut -c1-300
  [ $code -ne 0 ] && { echo "EXIT $id $code"; rc=1; }
done
exit $rc
