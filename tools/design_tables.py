#!/usr/bin/env python3
"""print the two generated tables of DESIGN.md section 11 from evidence/*.json and seeded/*/meta.json"""
import glob, json, os

V = os.path.dirname(os.path.dirname(os.path.abspath(__file__)))
man = json.load(open(os.path.join(V, "MANIFEST.json")))
print("| id | level | functions under contract | obligations (discharged) | back ends | bounded stand-in (evaluations) | known findings |")
print("|---|---|---|---|---|---|---|")
for chk in sorted(man["checks"], key=lambda c: c["property_id"]):
    pid = chk["property_id"]
    ev = json.load(open(os.path.join(V, "evidence", pid + ".json")))
    cov = ev["coverage"]
    b = "; ".join("%s: %s" % (x["function"].split(":")[-1][:40], x["evaluations"]) for x in cov.get("bounded") or []) or "-"
    print("| %s | %s | %d | %d (%d) | %s | %s | %d |" % (pid, ev["level"], len(cov["functions_under_contract"]), cov["obligations"], cov["discharged"],
                                                  ", ".join("%s %s" % (k, v) for k, v in sorted(cov["by_backend"].items())), b, cov["known_findings"]))
print()
print("| seeded change | touches | needs to manifest | confirmed (tests pass, demo fails) | check result | caught by |")
print("|---|---|---|---|---|---|")
for d in sorted(glob.glob(os.path.join(V, "seeded", "*"))):
    mp = os.path.join(d, "meta.json")
    if not os.path.exists(mp):
        continue
    m = json.load(open(mp))
    name = m["name"]
    patch = open(os.path.join(d, "patch.diff")).read()
    files = sorted({l.split(" b/")[-1].replace("src/cobald/", "") for l in patch.splitlines() if l.startswith("diff --git")})
    need = (m.get("needs_to_manifest") or "").strip().splitlines()
    need = " ".join(need[:2])[:160].replace("|", "/")
    res = []
    caught = []
    for p, v in m["checks"].items():
        res.append("%s: exit %d" % (p, v["exit"]))
        for l in v["lines"]:
            if l.startswith("VIOLATION"):
                r = l.split("replay=")[-1].split("/")[-1].replace(".json", "").replace(" no-failing-input-found", "")
                caught.append(r[:90])
    verdict = "**caught**" if m["detected"] else ("undecided" if any(v["exit"] == 2 for v in m["checks"].values()) else "engine error" if any(v["exit"] == 3 for v in m["checks"].values()) else "**missed**")
    print("| %s | %s | %s | %s | %s (%s) | %s |" % (name, ", ".join(files), need, "yes" if m["confirmed"] else "NO", verdict, "; ".join(res), "<br>".join(sorted(set(caught))[:3]) or "-"))
