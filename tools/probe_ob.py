#!/usr/bin/env python3
"""debug aid: find out which assumptions an undecided obligation needs (greedy removal of quantified assumptions)"""
import sys, time
sys.path.insert(0, "/verif")
import z3
from pyvc.runner import load_engine
from pyvc.verify import explore, FunctionResult
from pyvc.engine import has_quantifier
mods, key, sub = sys.argv[1].split(","), sys.argv[2], sys.argv[3]
path = sys.argv[4] if len(sys.argv) > 4 else None
E = load_engine(mods)
con = E.contracts[key]
fi = E.repo.get(con.key)
res = FunctionResult(con.key)
obs = explore(E, con, fi, res)
def chk(pc, goal, tmo):
    s = z3.Solver(); s.set("timeout", tmo); s.add(*pc); s.add(z3.Not(goal)); t = time.time(); r = s.check(); return str(r), time.time() - t
for ob in obs:
    if sub in ob.name and (path is None or ob.path == path):
        print("==", ob.full_name, "pc", len(ob.pc))
        qs = [i for i, f in enumerate(ob.pc) if has_quantifier(f)]
        print("quantified entries:", qs)
        r, t = chk(ob.pc, ob.goal, 15000); print("full:", r, "%.1fs" % t)
        base = [f for i, f in enumerate(ob.pc) if i not in qs]
        r, t = chk(base, ob.goal, 5000); print("no quantified assumptions:", r, "%.1fs" % t)
        keep = list(qs)
        # greedy: try to drop each quantified assumption
        cur = list(qs)
        r, t = chk(base + [ob.pc[i] for i in cur], ob.goal, 8000)
        if r != "unsat":
            # try small subsets
            import itertools
            found = False
            for k in (1, 2, 3):
                for comb in itertools.combinations(qs, k):
                    r, t = chk(base + [ob.pc[i] for i in comb], ob.goal, 3000)
                    if r == "unsat":
                        print("UNSAT with quantified", comb, "%.1fs" % t); found = True
                        for i in comb: print("   [%d]" % i, ob.pc[i].sexpr().replace("\n", " ")[:500])
                        break
                if found: break
            if not found: print("no subset of <=3 quantified assumptions proves it")
        print("GOAL:", ob.goal.sexpr().replace("\n", " ")[:1500])
        for i in qs: print("   Q[%d]" % i, ob.pc[i].sexpr().replace("\n", " ")[:300])
        break
