#!/usr/bin/env python3
"""Re-run the recorded checks against every kept seed IN PARALLEL without touching /repo: each worker has its own copy of /verif and its own
scratch worktree of /repo (VERIF_REPO_SRC makes the verification conditions AND the native replays use that tree); results are merged into
seeded/<id>/meta.json at the end.   usage: recheck_parallel.py [workers=5] [prefix ...]"""
import glob, json, os, shutil, subprocess, sys, time
from concurrent.futures import ThreadPoolExecutor

nw = int(sys.argv[1]) if len(sys.argv) > 1 and sys.argv[1].isdigit() else 5
want = [a for a in sys.argv[1:] if not a.isdigit()]
seeds = []
for d in sorted(glob.glob("/verif/refactorings/*/")):
    name = os.path.basename(d.rstrip("/"))
    if want and not any(name.startswith(w) for w in want):
        continue
    if os.path.exists(d + "meta.json") and os.path.exists(d + "patch.diff"):
        seeds.append(name)
work = []
for i in range(nw):
    v, w = "/tmp/rp_verif_%d" % i, "/tmp/rp_wt_%d" % i
    subprocess.run(["git", "-C", "/repo", "worktree", "remove", "--force", w], capture_output=True)
    subprocess.run(["git", "-C", "/repo", "worktree", "add", "-q", "--detach", w, "HEAD"], check=True)
    subprocess.run(["rsync", "-a", "--delete", "--exclude", ".git", "--exclude", "replays", "--exclude", "seeded", "--exclude", "refactorings", "/verif/", v + "/"], check=True)
    work.append((v, w))
queue = list(seeds)
results = {}


def worker(i):
    v, w = work[i]
    env = dict(os.environ, VERIF_REPO_SRC=w + "/src")
    while queue:
        try:
            name = queue.pop(0)
        except IndexError:
            return
        meta = json.load(open("/verif/refactorings/%s/meta.json" % name))
        props = list(meta.get("checks", {}).keys())
        subprocess.run(["git", "-C", w, "checkout", "-q", "--", "."], check=True)
        r = subprocess.run(["git", "-C", w, "apply", "/verif/refactorings/%s/patch.diff" % name], capture_output=True, text=True)
        out = {}
        if r.returncode != 0:
            out = {p: {"exit": -1, "lines": ["patch does not apply: " + r.stderr[:200]], "seconds": 0} for p in props}
        else:
            for p in props:
                t = time.time()
                try:
                    c = subprocess.run(["./check", p, "--tier", "quick"], cwd=v, env=env, capture_output=True, text=True, timeout=3600)
                    lines = [l for l in c.stdout.splitlines() if l.startswith(("VIOLATION", "UNDECIDED", "ENGINE", "SUMMARY", "KNOWN"))]
                    out[p] = {"exit": c.returncode, "lines": [l.replace(v, "/verif")[:300] for l in lines][:12], "seconds": round(time.time() - t, 1)}
                except subprocess.TimeoutExpired:
                    out[p] = {"exit": 2, "lines": ["check timed out after 3600 s"], "seconds": 3600}
        subprocess.run(["git", "-C", w, "checkout", "-q", "--", "."], check=True)
        results[name] = out
        fa = any(x["exit"] in (1, 3) for x in out.values())
        print(name, "false_alarm=%s" % fa, {p: x["exit"] for p, x in out.items()}, flush=True)


with ThreadPoolExecutor(nw) as ex:
    list(ex.map(worker, range(nw)))
for name, out in results.items():
    mp = "/verif/refactorings/%s/meta.json" % name
    meta = json.load(open(mp))
    meta["checks"] = out
    meta["false_alarm"] = any(x["exit"] in (1, 3) for x in out.values())
    meta["undecided"] = any(x["exit"] == 2 for x in out.values())
    meta["last_recheck"] = "tools/recheck_parallel.py: the change applied to a scratch worktree of /repo HEAD, ./check <prop> --tier quick with VERIF_REPO_SRC pointing at it (verification conditions and native replays from that tree)"
    json.dump(meta, open(mp, "w"), indent=1)
for v, w in work:
    subprocess.run(["git", "-C", "/repo", "worktree", "remove", "--force", w], capture_output=True)
    shutil.rmtree(v, ignore_errors=True)
print("done", len(results))
