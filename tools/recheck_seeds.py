#!/usr/bin/env python3
"""Re-run the recorded checks against every kept seed (patch applied to /repo, check, revert) and refresh meta.json's `checks` / `detected`.
usage: recheck_seeds.py [PROP-prefix ...]      (no argument: all seeds).  Nothing else may use /repo while this runs."""
import glob, json, os, subprocess, sys, time

want = sys.argv[1:]
rows = []
assert subprocess.run(["git", "-C", "/repo", "status", "--porcelain"], capture_output=True, text=True).stdout.strip() == "", "/repo is not clean"
for d in sorted(glob.glob("/verif/seeded/*/")):
    name = os.path.basename(d.rstrip("/"))
    if want and not any(name.startswith(w) for w in want):
        continue
    mp = os.path.join(d, "meta.json")
    if not os.path.exists(mp):
        continue
    meta = json.load(open(mp))
    props = list(meta.get("checks", {}).keys()) or [meta["property"]]
    before = meta.get("detected")
    subprocess.run(["git", "-C", "/repo", "apply", os.path.join(d, "patch.diff")], check=True)
    try:
        meta["checks"] = {}
        for p in props:
            t = time.time()
            r = subprocess.run(["./check", p, "--tier", "quick"], cwd="/verif", capture_output=True, text=True, timeout=3600)
            lines = [l for l in r.stdout.splitlines() if l.startswith(("VIOLATION", "UNDECIDED", "ENGINE", "SUMMARY", "KNOWN"))]
            meta["checks"][p] = {"exit": r.returncode, "lines": [l[:300] for l in lines][:12], "seconds": round(time.time() - t, 1)}
    finally:
        subprocess.run(["git", "-C", "/repo", "checkout", "--", "."], check=True)
    meta["detected"] = any(v["exit"] == 1 for v in meta["checks"].values())
    json.dump(meta, open(mp, "w"), indent=1)
    exits = {p: v["exit"] for p, v in meta["checks"].items()}
    print(name, "detected=%s" % meta["detected"], exits, "" if before == meta["detected"] else "   <-- CHANGED (was %s)" % before, flush=True)
