#!/usr/bin/env python3
"""Confirm a seeded change (tests pass, demo fails with it and passes without) in a scratch worktree, then run the
property's check against /repo with the change applied and record what the check reported.
usage: eval_seed.py <PROP> <seed-source-dir> <seed-name> [extra props to run]"""
import json, os, shutil, subprocess, sys, time

prop, src, name = sys.argv[1], sys.argv[2], sys.argv[3]
extra = sys.argv[4:]
dest = "/verif/seeded/%s" % name
os.makedirs(dest, exist_ok=True)
for f in ("patch.diff", "demo.py", "notes.txt"):
    if os.path.exists(os.path.join(src, f)) and os.path.abspath(src) != os.path.abspath(dest):
        shutil.copy(os.path.join(src, f), os.path.join(dest, f))
wt = "/tmp/evalwt_%s" % name
subprocess.run(["git", "-C", "/repo", "worktree", "remove", "--force", wt], capture_output=True)
subprocess.run(["git", "-C", "/repo", "worktree", "add", "-q", wt, "HEAD"], check=True)
env = dict(os.environ, PYTHONPATH=wt + "/src")
def run(cmd, cwd=wt, timeout=600):
    # (a background job of a non-interactive shell inherits SIGINT ignored; cobald's own tests raise SIGINT and would wait for ever)
    import signal
    p = subprocess.run(cmd, cwd=cwd, env=env, capture_output=True, text=True, timeout=timeout, preexec_fn=lambda: signal.signal(signal.SIGINT, signal.default_int_handler))
    return p.returncode, (p.stdout + p.stderr)
meta = {"property": prop, "name": name}
try:
    rc, out = run(["/venv/bin/python", os.path.join(dest, "demo.py")])
    meta["demo_without_change"] = {"exit": rc, "tail": out.strip()[-300:]}
    rc, out = run(["git", "apply", os.path.join(dest, "patch.diff")])
    meta["patch_applies"] = rc == 0
    rc, out = run(["/venv/bin/python", "-m", "pytest", "-q", "-p", "no:cacheprovider", "--timeout=900", "cobald_tests"])
    meta["tests_with_change"] = out.strip().splitlines()[-1] if out.strip() else ""
    rc, out = run(["/venv/bin/python", os.path.join(dest, "demo.py")])
    meta["demo_with_change"] = {"exit": rc, "tail": out.strip()[-600:]}
finally:
    subprocess.run(["git", "-C", "/repo", "worktree", "remove", "--force", wt], capture_output=True)
meta["confirmed"] = bool(meta.get("patch_applies") and "85 passed" in meta.get("tests_with_change", "") and meta["demo_with_change"]["exit"] != 0 and meta["demo_without_change"]["exit"] == 0)
# now against /repo with the real checks
subprocess.run(["git", "-C", "/repo", "apply", os.path.join(dest, "patch.diff")], check=True)
try:
    meta["checks"] = {}
    for p in [prop] + extra:
        t = time.time()
        r = subprocess.run(["./check", p, "--tier", "quick"], cwd="/verif", capture_output=True, text=True, timeout=1800)
        lines = [l for l in r.stdout.splitlines() if l.startswith(("VIOLATION", "UNDECIDED", "ENGINE", "SUMMARY", "KNOWN"))]
        meta["checks"][p] = {"exit": r.returncode, "lines": [l[:300] for l in lines][:12], "seconds": round(time.time() - t, 1)}
finally:
    subprocess.run(["git", "-C", "/repo", "checkout", "--", "."], check=True)
meta["detected"] = any(v["exit"] == 1 for v in meta["checks"].values())
meta["what_ran"] = "tools/eval_seed.py: scratch worktree (tests, demo with/without), then ./check <prop> --tier quick against /repo with patch applied, then git checkout -- ."
if os.path.exists(os.path.join(dest, "notes.txt")):
    meta["needs_to_manifest"] = open(os.path.join(dest, "notes.txt")).read()[:1200]
json.dump(meta, open(os.path.join(dest, "meta.json"), "w"), indent=1)
print(name, "confirmed=%s" % meta["confirmed"], "detected=%s" % meta["detected"], {p: v["exit"] for p, v in meta["checks"].items()})
for p, v in meta["checks"].items():
    for l in v["lines"]:
        print("   ", l[:220])
