#!/usr/bin/env python3
"""Run the checks against a BEHAVIOUR-PRESERVING change (a harmless refactoring): apply it to /repo, run the listed properties' quick checks,
revert.  Exit 0 everywhere is the expected result; 1 or 3 is a false alarm of the machinery; 2 (undecided) is recorded as such.
usage: eval_refactoring.py <source-dir> <name> <PROP> [PROP ...]"""
import json, os, shutil, subprocess, sys, time

src, name, props = sys.argv[1], sys.argv[2], sys.argv[3:]
dest = "/verif/refactorings/%s" % name
os.makedirs(dest, exist_ok=True)
for f in ("patch.diff", "notes.txt"):
    if os.path.exists(os.path.join(src, f)) and os.path.abspath(src) != os.path.abspath(dest):
        shutil.copy(os.path.join(src, f), os.path.join(dest, f))
assert subprocess.run(["git", "-C", "/repo", "status", "--porcelain"], capture_output=True, text=True).stdout.strip() == "", "/repo is not clean"
meta = {"name": name, "kind": "behaviour-preserving change (tests: 85 passed, argued equivalent in notes.txt)", "checks": {}}
subprocess.run(["git", "-C", "/repo", "apply", os.path.join(dest, "patch.diff")], check=True)
try:
    for p in props:
        t = time.time()
        r = subprocess.run(["./check", p, "--tier", "quick"], cwd="/verif", capture_output=True, text=True, timeout=3600)
        lines = [l for l in r.stdout.splitlines() if l.startswith(("VIOLATION", "UNDECIDED", "ENGINE", "SUMMARY"))]
        meta["checks"][p] = {"exit": r.returncode, "lines": [l[:300] for l in lines][:6], "seconds": round(time.time() - t, 1)}
finally:
    subprocess.run(["git", "-C", "/repo", "checkout", "--", "."], check=True)
exits = [v["exit"] for v in meta["checks"].values()]
meta["false_alarm"] = any(e in (1, 3) for e in exits)
meta["undecided"] = any(e == 2 for e in exits)
json.dump(meta, open(os.path.join(dest, "meta.json"), "w"), indent=1)
print(name, "false_alarm=%s undecided=%s" % (meta["false_alarm"], meta["undecided"]), {p: v["exit"] for p, v in meta["checks"].items()}, flush=True)
for p, v in meta["checks"].items():
    if v["exit"] != 0:
        for l in v["lines"]:
            print("   ", l[:240])
