#!/usr/bin/env python3
"""Mechanical mutation campaign: how strong are the contracts?

For every function that the evidence of a property lists under contract, single-point mutants of the REAL source are generated from its
AST (comparison / arithmetic / boolean operator replaced, constant changed, condition negated, a call or assignment statement dropped,
a returned value replaced by None).  A mutant counts only if cobald's own 85 tests still pass with it (the brief's notion of a realistic
change); then the quick checks of the properties that have the function under contract run against it (scratch worktree, VERIF_REPO_SRC).
Outcome per mutant: killed-by-tests (not counted) / reported (exit 1) / undecided (exit 2 or 3) / SURVIVED (exit 0 everywhere).
Survivors are written with their diff for triage: an equivalent mutant, or a clause that is too weak.

usage: mutation_campaign.py [workers=5] [per_function=6] [seed=1] [PROP ...]        (nothing here touches /repo)"""
import ast, copy, glob, json, os, random, shutil, signal, subprocess, sys, time
from concurrent.futures import ThreadPoolExecutor

args = sys.argv[1:]
nums = [int(a) for a in args if a.isdigit()]
props_wanted = [a for a in args if not a.isdigit()]
NW = nums[0] if len(nums) > 0 else 5
PER_FN = nums[1] if len(nums) > 1 else 6
SEED = nums[2] if len(nums) > 2 else 1
OUT = "/verif/mutation"
os.makedirs(OUT, exist_ok=True)

# ---- which functions, for which properties -------------------------------------------------------------------------------------------
fn_props = {}       # (relative file, first line, last line, qualname) -> set of properties
for f in sorted(glob.glob("/verif/evidence/C*.json")):
    e = json.load(open(f))
    pid = e["property_id"]
    if props_wanted and pid not in props_wanted:
        continue
    for fn in e["coverage"]["functions_under_contract"]:
        if not fn.get("file") or not fn.get("lines") or not fn["file"].startswith("/repo/"):
            continue
        key = (fn["file"][len("/repo/"):], fn["lines"][0], fn["lines"][1], fn["function"].split("#")[0])
        fn_props.setdefault(key, set()).add(pid)

if os.environ.get("MUTATION_UNCOVERED"):
    # the complement: functions of the files a property is anchored in that are NOT under any contract (what do the checks say there?)
    covered = {(k[0], k[3].split(":")[-1]) for k in fn_props}
    fn_props = {}
    for line in open("/verif/properties.jsonl"):
        d = json.loads(line)
        if props_wanted and d["id"] not in props_wanted:
            continue
        if not os.path.exists("/verif/evidence/%s.json" % d["id"]):
            continue
        for rel in d["anchors"]["files"]:
            if not os.path.exists("/repo/" + rel):
                continue
            tree = ast.parse(open("/repo/" + rel).read())
            mod = rel[len("src/"):-3].replace("/", ".")
            mod = mod[:-9] if mod.endswith(".__init__") else mod

            def walk(node, prefix):
                for n in node.body:
                    if isinstance(n, (ast.FunctionDef, ast.AsyncFunctionDef)):
                        q = prefix + n.name
                        names = {q, q + ".getter", q + ".setter"}
                        if not any((rel, x) in covered for x in names) and not any(k[0] == rel and k[1].startswith(q + ".") for k in covered):
                            fn_props.setdefault((rel, n.decorator_list[0].lineno if n.decorator_list else n.lineno, n.end_lineno, mod + ":" + q), set()).add(d["id"])
                    elif isinstance(n, ast.ClassDef):
                        walk(n, prefix + n.name + ".")
            walk(tree, "")

CMP = {ast.Lt: ast.LtE, ast.LtE: ast.Lt, ast.Gt: ast.GtE, ast.GtE: ast.Gt, ast.Eq: ast.NotEq, ast.NotEq: ast.Eq, ast.Is: ast.IsNot, ast.IsNot: ast.Is, ast.In: ast.NotIn, ast.NotIn: ast.In}
BIN = {ast.Add: ast.Sub, ast.Sub: ast.Add, ast.Mult: ast.Div, ast.Div: ast.Mult, ast.FloorDiv: ast.Div, ast.Mod: ast.FloorDiv}


def sites(fn_node):
    """(description, mutate(copy_of_function) -> None) for every single-point mutation of the function"""
    out = []
    nodes = list(ast.walk(fn_node))
    for idx, n in enumerate(nodes):
        if isinstance(n, ast.Compare) and len(n.ops) == 1 and type(n.ops[0]) in CMP:
            out.append(("compare %s -> %s" % (type(n.ops[0]).__name__, CMP[type(n.ops[0])].__name__), idx, "cmp"))
        elif isinstance(n, ast.BinOp) and type(n.op) in BIN:
            out.append(("arith %s -> %s" % (type(n.op).__name__, BIN[type(n.op)].__name__), idx, "bin"))
        elif isinstance(n, ast.BoolOp):
            out.append(("bool %s -> %s" % (type(n.op).__name__, "Or" if isinstance(n.op, ast.And) else "And"), idx, "bool"))
        elif isinstance(n, ast.UnaryOp) and isinstance(n.op, ast.Not):
            out.append(("drop not", idx, "not"))
        elif isinstance(n, ast.Constant) and isinstance(n.value, bool):
            out.append(("constant %r -> %r" % (n.value, not n.value), idx, "const"))
        elif isinstance(n, ast.Constant) and isinstance(n.value, (int, float)) and not isinstance(n.value, bool):
            out.append(("constant %r -> %r" % (n.value, n.value + 1), idx, "const"))
        elif isinstance(n, (ast.If, ast.While)) and not (isinstance(n.test, ast.Constant)):
            out.append(("negate condition of %s" % type(n).__name__.lower(), idx, "negate"))
        elif isinstance(n, ast.Expr) and isinstance(n.value, (ast.Call, ast.Await)) and n is not fn_node.body[0]:
            out.append(("drop statement `%s`" % ast.unparse(n)[:50], idx, "drop"))
        elif isinstance(n, (ast.Assign, ast.AugAssign)) and any(isinstance(t, ast.Attribute) for t in (n.targets if isinstance(n, ast.Assign) else [n.target])):
            out.append(("drop attribute assignment `%s`" % ast.unparse(n)[:50], idx, "drop"))
        elif isinstance(n, ast.Return) and n.value is not None and not (isinstance(n.value, ast.Constant) and n.value.value is None):
            out.append(("return None instead of `%s`" % ast.unparse(n.value)[:40], idx, "retnone"))
        if isinstance(n, ast.Compare) and len(n.ops) == 1 and isinstance(n.ops[0], (ast.IsNot, ast.Is)) and isinstance(n.comparators[0], ast.Constant) and n.comparators[0].value is None:
            out.append(("truthiness instead of `%s`" % ast.unparse(n)[:40], idx, "truthy"))
        if isinstance(n, ast.Call) and len(n.args) >= 2 and not any(isinstance(a, ast.Starred) for a in n.args[:2]):
            out.append(("swap the first two arguments of `%s`" % ast.unparse(n)[:40], idx, "swapargs"))
        if isinstance(n, ast.Call) and isinstance(n.func, ast.Name) and n.func.id in ("sorted", "reversed") and len(n.args) == 1 and not n.keywords:
            out.append(("drop %s()" % n.func.id, idx, "unwrap"))
        if isinstance(n, ast.ExceptHandler) and n.type is not None and ast.unparse(n.type) not in ("Exception", "BaseException"):
            out.append(("widen `except %s` to `except Exception`" % ast.unparse(n.type)[:40], idx, "widen"))
        if isinstance(n, ast.Raise) and n.cause is not None:
            out.append(("drop `from ...` of a raise", idx, "nocause"))
    if os.environ.get("MUTATION_KINDS"):
        out = [x for x in out if x[2] in os.environ["MUTATION_KINDS"].split(",")]
    return out


def apply_site(fn_node, idx, kind):
    f2 = copy.deepcopy(fn_node)
    n = list(ast.walk(f2))[idx]
    if kind == "cmp":
        n.ops = [CMP[type(n.ops[0])]()]
    elif kind == "bin":
        n.op = BIN[type(n.op)]()
    elif kind == "bool":
        n.op = ast.Or() if isinstance(n.op, ast.And) else ast.And()
    elif kind == "not":
        n.op = ast.UAdd() if False else n.op
        # replace `not x` by `x`: rewrite in the parent
        for p in ast.walk(f2):
            for field, val in ast.iter_fields(p):
                if val is n:
                    setattr(p, field, n.operand)
                elif isinstance(val, list) and n in val:
                    val[val.index(n)] = n.operand
    elif kind == "const":
        n.value = (not n.value) if isinstance(n.value, bool) else n.value + 1
    elif kind == "negate":
        n.test = ast.UnaryOp(op=ast.Not(), operand=n.test)
    elif kind == "drop":
        for p in ast.walk(f2):
            for field, val in ast.iter_fields(p):
                if isinstance(val, list) and n in val:
                    val[val.index(n)] = ast.Pass()
    elif kind == "retnone":
        n.value = ast.Constant(value=None)
    elif kind == "truthy":
        repl = n.left if isinstance(n.ops[0], ast.IsNot) else ast.UnaryOp(op=ast.Not(), operand=n.left)
        for p in ast.walk(f2):
            for field, val in ast.iter_fields(p):
                if val is n:
                    setattr(p, field, repl)
                elif isinstance(val, list) and n in val:
                    val[val.index(n)] = repl
    elif kind == "swapargs":
        n.args[0], n.args[1] = n.args[1], n.args[0]
    elif kind == "unwrap":
        for p in ast.walk(f2):
            for field, val in ast.iter_fields(p):
                if val is n:
                    setattr(p, field, n.args[0])
                elif isinstance(val, list) and n in val:
                    val[val.index(n)] = n.args[0]
    elif kind == "widen":
        n.type = ast.Name(id="Exception", ctx=ast.Load())
    elif kind == "nocause":
        n.cause = None
    ast.fix_missing_locations(f2)
    return f2


DONE = set()
for _f in glob.glob(os.path.join(OUT, "campaign_seed*.json")):
    for _m in json.load(open(_f)).get("mutants", []):
        DONE.add((_m["file"], _m["function"], _m["site"], _m["kind"]))


def mutants():
    rng = random.Random(SEED)
    out = []
    for (rel, lo, hi, qual), pids in sorted(fn_props.items()):
        src = open("/repo/" + rel).read()
        tree = ast.parse(src)
        target = None
        for n in ast.walk(tree):
            if isinstance(n, (ast.FunctionDef, ast.AsyncFunctionDef)) and n.lineno <= hi and n.end_lineno == hi and (n.lineno == lo or (n.decorator_list and n.decorator_list[0].lineno <= lo <= n.lineno) or lo <= n.lineno):
                if target is None or n.lineno > target.lineno:
                    target = n if n.end_lineno == hi and n.lineno >= lo - 5 else target
        if target is None:
            continue
        ss = sites(target)
        rng.shuffle(ss)
        ss = [x for x in ss if (rel, qual, x[1], x[2]) not in DONE]          # not again what an earlier campaign already tried
        for desc, idx, kind in ss[:PER_FN]:
            out.append({"file": rel, "function": qual, "span": [target.decorator_list[0].lineno if target.decorator_list else target.lineno, target.end_lineno],
                        "col": target.col_offset, "what": desc, "site": idx, "kind": kind, "props": sorted(pids)})
    return out


def render(m):
    src = open("/repo/" + m["file"]).read()
    tree = ast.parse(src)
    target = None
    for n in ast.walk(tree):
        if isinstance(n, (ast.FunctionDef, ast.AsyncFunctionDef)) and n.end_lineno == m["span"][1] and (n.decorator_list[0].lineno if n.decorator_list else n.lineno) == m["span"][0]:
            target = n
    f2 = apply_site(target, m["site"], m["kind"])
    text = ast.unparse(f2)
    ind = " " * m["col"]
    new = "\n".join((ind + l if l else l) for l in text.splitlines()) + "\n"
    lines = src.splitlines(keepends=True)
    return "".join(lines[: m["span"][0] - 1]) + new + "".join(lines[m["span"][1]:])


RERUN = os.environ.get("MUTATION_RERUN")       # path of an earlier campaign file: re-run the checks on the mutants that survived the tests there
if RERUN:
    prev = json.load(open(RERUN))
    ms = [m for m in prev["mutants"] if m.get("outcome") in ("reported", "undecided", "SURVIVED")]
    killed = [m for m in prev["mutants"] if m.get("outcome") not in ("reported", "undecided", "SURVIVED")]
    print("re-running the checks on %d mutants that pass the tests (%d others as before)" % (len(ms), len(killed)), flush=True)
else:
    ms = mutants()
    killed = []
    print("functions under contract: %d, mutants drawn: %d" % (len(fn_props), len(ms)), flush=True)
work = []
for i in range(NW):
    v, w = "/tmp/mc_verif_%d" % i, "/tmp/mc_wt_%d" % i
    subprocess.run(["git", "-C", "/repo", "worktree", "remove", "--force", w], capture_output=True)
    subprocess.run(["git", "-C", "/repo", "worktree", "add", "-q", "--detach", w, "HEAD"], check=True)
    subprocess.run(["rsync", "-a", "--delete", "--exclude", ".git", "--exclude", "replays", "--exclude", "seeded", "--exclude", "refactorings", "--exclude", "mutation", "/verif/", v + "/"], check=True)
    work.append((v, w))
queue = list(enumerate(ms))
results = []


def worker(i):
    v, w = work[i]
    env = dict(os.environ, VERIF_REPO_SRC=w + "/src", PYTHONPATH=w + "/src")
    while queue:
        try:
            k, m = queue.pop(0)
        except IndexError:
            return
        subprocess.run(["git", "-C", w, "checkout", "-q", "--", "."], check=True)
        rec = dict(m, id=m.get("id", k))
        if RERUN:
            a = subprocess.run(["git", "-C", w, "apply"], input=m["diff"], capture_output=True, text=True)
            if a.returncode != 0:
                rec["outcome"] = "not-generated: stored diff does not apply"
                results.append(rec)
                continue
        else:
            try:
                new = render(m)
                compile(new, m["file"], "exec")
            except Exception as ex:  # noqa
                rec["outcome"] = "not-generated: %s" % ex
                results.append(rec)
                continue
            if new == open("/repo/" + m["file"]).read():
                rec["outcome"] = "no-change"
                results.append(rec)
                continue
            open(os.path.join(w, m["file"]), "w").write(new)
            rec["diff"] = subprocess.run(["git", "-C", w, "diff"], capture_output=True, text=True).stdout
        try:
            if RERUN:
                raise KeyError("skip the tests: they passed in the earlier run")
            t = subprocess.run(["/venv/bin/python", "-m", "pytest", "-q", "-x", "-p", "no:cacheprovider", "--timeout=120", "cobald_tests"], cwd=w, env=env, capture_output=True, text=True,
                               timeout=400, preexec_fn=lambda: signal.signal(signal.SIGINT, signal.default_int_handler))
            tests_ok = "85 passed" in (t.stdout or "")
        except subprocess.TimeoutExpired:
            tests_ok = False
        except KeyError:
            tests_ok = True
        if not tests_ok:
            rec["outcome"] = "killed-by-tests"
        else:
            rec["checks"] = {}
            for p in m["props"]:
                try:
                    c = subprocess.run(["./check", p, "--tier", "quick"], cwd=v, env=env, capture_output=True, text=True, timeout=1800)
                    lines = [l for l in c.stdout.splitlines() if l.startswith(("VIOLATION", "UNDECIDED", "ENGINE"))]
                    rec["checks"][p] = {"exit": c.returncode, "first": [l.replace(v, "/verif")[:240] for l in lines[:2]]}
                except subprocess.TimeoutExpired:
                    rec["checks"][p] = {"exit": 2, "first": ["timeout"]}
            ex = [x["exit"] for x in rec["checks"].values()]
            rec["outcome"] = "reported" if 1 in ex else ("undecided" if any(e in (2, 3) for e in ex) else "SURVIVED")
        subprocess.run(["git", "-C", w, "checkout", "-q", "--", "."], check=True)
        results.append(rec)
        print("%4d %-14s %-22s %-60s %s" % (rec["id"], rec["outcome"], ",".join(m["props"]), (m["function"].split(":")[-1] + ": " + m["what"])[:60], {p: x["exit"] for p, x in rec.get("checks", {}).items()}), flush=True)


with ThreadPoolExecutor(NW) as ex:
    list(ex.map(worker, range(NW)))
for v, w in work:
    subprocess.run(["git", "-C", "/repo", "worktree", "remove", "--force", w], capture_output=True)
    shutil.rmtree(v, ignore_errors=True)
results.extend(killed)
summary = {}
for r in results:
    summary[r["outcome"].split(":")[0]] = summary.get(r["outcome"].split(":")[0], 0) + 1
json.dump({"seed": SEED, "per_function": PER_FN, "summary": summary, "mutants": sorted(results, key=lambda r: r["id"])}, open(os.path.join(OUT, "campaign_seed%d.json" % SEED), "w"), indent=1)
print("SUMMARY", summary)
