"""C06 - Standardiser keeps the forwarded demand within its limits (DESIGN.md section 5, C06)."""
from .common import *

MOD = "cobald.decorator.standardiser"
Pool = pool(demand=NumX)

Std = TObj(MOD + ":Standardiser", target=Pool, minimum=NumX, maximum=NumX, granularity=NumFin,
           surplus=NumX, backlog=NumX, _demand=NumX)


def valid(c, s):
    """exactly what Standardiser.__init__ enforces (proved as its postcondition)"""
    return c.And(s.minimum <= s.maximum, s.surplus > 0, s.backlog > 0, s.granularity > 0)


def lo(s):
    return s.target.supply - s.backlog


def hi(s):
    return s.target.supply + s.surplus


def in_limits(s, x):
    return z3.And(s.minimum <= x, x <= s.maximum)


def in_window_or_forced(c, s, x):
    """x within [supply-backlog, supply+surplus] unless minimum/maximum force otherwise"""
    return c.Or(c.And(lo(s) <= x, x <= hi(s)),
                c.And(x == s.minimum, s.minimum > hi(s)),
                c.And(x == s.maximum, s.maximum < lo(s)))


@contract(MOD + ":_clamp", props=["C06"])
class clamp:
    params = dict(low=NumX, value=NumX, high=NumX)
    result = NumX

    def ensures(c, low, value, high, result):
        return {
            "below": c.Implies(value < low, result.same(low)),
            "above": c.Implies(c.And(c.Not(value < low), value > high), result.same(high)),
            "inside": c.Implies(c.And(c.Not(value < low), c.Not(value > high)), result.same(value)),
        }


@contract(MOD + ":_floor", props=["C06"])
class floor:
    params = dict(n=NumFin, base=NumFin)
    result = NumFin

    def requires(c, n, base):
        return base > 0

    def ensures(c, n, base, result):
        k = z3.Int("k_floor")
        return {
            "multiple": z3.Exists([k], result.r == z3.ToReal(k) * base.r),
            "greatest": c.And(result <= n, n < result + base),
            "kind": c.Implies(c.And(n.isint, base.isint), result.isint),
        }


def clampf(low, v, high):
    """spec function: the mathematical clamp, in extended reals"""
    return N(z3.If(v < low, low.t, z3.If(v > high, high.t, v.t)))


def limited(s, v):
    """spec function: v limited by the supply window, then by minimum/maximum (the documented priority order)"""
    return clampf(s.minimum, clampf(lo(s), v, hi(s)), s.maximum)


def near(a, b, g):
    """a and b are less than g apart (two equal infinities are 0 apart)"""
    return z3.Or(a == b, abs(a - b) < g)


@contract(MOD + ":Standardiser._clamp_demand", props=["C06"])
class clamp_demand:
    params = dict(self=Std, value=NumFin)
    result = NumX

    def requires(c, self, value):
        return valid(c, self)

    def ensures(c, self, value, result):
        return {
            "equals-limited-value": result == limited(self, value),
            "within-min-max": in_limits(self, result),
            "window-unless-forced": in_window_or_forced(c, self, result),
            "identity-when-no-limit-interferes": c.Implies(
                c.And(in_limits(self, value), lo(self) <= value, value <= hi(self)), result == value),
        }


@contract(MOD + ":Standardiser.demand.setter", props=["C06"])
class demand_setter:
    params = dict(self=Std, value=NumFin)
    has_events = True
    # known finding (known_findings.json): region in which the clause is known to fail on the pinned tree
    known = {
        "target-is-floored-value-when-no-limit-interferes": (
            "C06-granularity-one-not-floored",
            lambda c, self, value: z3.And(self.granularity == 1, z3.Not(z3.IsInt(value.r))),
        )
    }

    def requires(c, self, value):
        return valid(c, self)

    def writes(c, self, value):
        return [(self, "_demand"), (self.target, "demand")]

    def ensures(c, self, value):
        s = c.old(self)
        t_new = self.target.demand
        d_new = self._demand
        g = s.granularity
        fl_k = z3.Int("k_fl")
        # value rounded down to a multiple of the granularity: the multiple m = k*g with m <= value < m + g
        fl = N(z3.ToReal(fl_k) * g.r)
        is_floor = c.And(fl <= value, value < fl + g)
        inside = lambda x: c.And(in_limits(s, x), lo(s) <= x, x <= hi(s))
        return {
            "target-within-min-max": in_limits(s, t_new),
            "reported-within-min-max": in_limits(s, d_new),
            "target-in-window-unless-forced": in_window_or_forced(c, s, t_new),
            "reported-in-window-unless-forced": in_window_or_forced(c, s, d_new),
            "target-is-floored-value-when-no-limit-interferes": z3.Exists(
                [fl_k], c.And(is_floor, c.Implies(inside(fl), t_new == fl))),
            "reported-is-value-when-no-limit-interferes": c.Implies(inside(value), d_new == value),
            "reported-less-than-a-granule-from-target": near(d_new, t_new, g),
            "one-store-of-target-demand": c.events_are(c.event("store", self.target, "demand", t_new)),
            "supply-untouched": c.unchanged(self.target, "supply", "utilisation", "allocation"),
        }


@contract(MOD + ":Standardiser.demand.getter", props=["C06"])
class demand_getter:
    params = dict(self=Std)
    result = NumX

    def requires(c, self):
        return valid(c, self)

    def writes(c, self):
        return [(self, "_demand")]

    def ensures(c, self, result):
        s = c.old(self)
        return {
            "returns-recorded-or-target": c.Or(result.same(s._demand), result.same(s.target.demand)),
            "less-than-a-granule-from-target": c.Implies(c.And(s._demand.finite, s.target.demand.finite),
                                                         abs(result - s.target.demand) < s.granularity),
            "keeps-recorded-when-close": c.Implies(abs(s._demand - s.target.demand) < s.granularity, result.same(s._demand)),
            "records-what-it-returns": self._demand.same(result),
        }


@contract(MOD + ":Standardiser.__init__", props=["C06"])
class init:
    params = dict(self=TObj(MOD + ":Standardiser", target=Pool, minimum=NumX, maximum=NumX, granularity=NumFin,
                            surplus=NumX, backlog=NumX, _demand=NumX),
                  target=Pool, minimum=NumX, maximum=NumX, granularity=NumFin, backlog=NumX, surplus=NumX)
    new_object = "self"

    def writes(c, self, target, minimum, maximum, granularity, backlog, surplus):
        return [(self, f) for f in ("target", "_demand", "minimum", "maximum", "granularity", "surplus", "backlog")]

    def ensures(c, self, target, minimum, maximum, granularity, backlog, surplus):
        return {
            "accepted-parameters-are-valid": valid(c, self),
            "fields": c.And(self.target == target, self.minimum.same(minimum), self.maximum.same(maximum),
                            self.granularity.same(granularity), self.surplus.same(surplus), self.backlog.same(backlog),
                            self._demand.same(c.old(target).demand)),
        }

    raises = {
        "ValueError": lambda c, self, target, minimum, maximum, granularity, backlog, surplus, exc:
            c.Not(c.And(minimum <= maximum, surplus > 0, backlog > 0, granularity > 0)),
    }
