"""Shapes shared by the sidecars."""
from pyvc.types import *
from pyvc.contracts import contract, Contract, Loop, N
import z3

# numbers
NumFin = TNum()                       # finite int | float
NumX = TNum(inf=True)                 # int | float | +-inf  (no nan)
NumXN = TNum(inf=True, nan=True)
NumInt = TNum(only="int")
NumNonNeg = TNum(lo=0)


def pool(name="Pool", **over):
    """A well-behaved pool: reading supply/demand/utilisation/allocation is pure, writing demand stores it
    faithfully (one `store` event) and changes nothing else.  This is the interface hypothesis of the properties."""
    f = dict(supply=NumFin, demand=NumFin, utilisation=NumFin, allocation=NumFin)
    f.update(over)
    t = TAbs(name, fields=f)
    t.isa = ["cobald.interfaces._pool:Pool"]
    return t


# ---- logging.Logger as an abstract collaborator -------------------------------------------------------
from pyvc import ext_libs as _X
import pyvc.z as _Z


@contract("abstract:logging.Logger.quiet", kind="abstract", skip_body=True)
class _quiet_log:
    """_logger.info/debug/warning/exception/error: total, effect-free, non-raising (DESIGN.md 2.2: dropped by the extraction)"""
    params = {"self": None, "*args": None}


@contract("abstract:logging.Logger.log", kind="abstract", skip_body=True)
class _log_call:
    """Logger.log(level, msg, mapping): one `log` event carrying a record of the mapping.
    requires (assumed contract of %-formatting): every field the template names is a key of the mapping"""
    params = {"self": None, "level": None, "msg": TStr(), "mapping": None}

    def requires(c, self, level, msg, mapping):
        from pyvc.contracts import DictView as _DV

        if not isinstance(mapping, _DV):
            # side condition of the assumed logging contract: a record keeps its ARGUMENT OBJECT and handlers may format it later, so what the
            # record "carries" are the values only if the arguments are a plain dict built at the call (a snapshot), not a live view
            return {"the-record-arguments-are-a-dict-built-at-the-call-not-a-live-view": False}
        return {"the-record-arguments-are-a-dict-built-at-the-call-not-a-live-view": True,
                "template-fields-are-keys-of-the-record": _X.names_within(_Z.Val.s(msg.t), list(mapping.keys()))}

    def emits(c, ctx, self, level, msg, mapping):
        rec = ctx.alloc(None, TRef())
        for k, v in (mapping.items() if hasattr(mapping, "items") and callable(getattr(mapping, "items")) else []):
            ctx.store_raw(ctx.ref_id(rec), "rec:" + k, v.t if hasattr(v, "t") else ctx.to_val(v).t)
        ctx.ghost["last_record_keys"] = list(mapping.keys()) if callable(getattr(mapping, "keys", None)) else []
        ctx.emit("log", self, level, msg, rec)


@contract("abstract:logging.Logger.isEnabledFor", kind="abstract", skip_body=True)
class _is_enabled_for:
    """Logger.isEnabledFor(level): some boolean the configuration of logging decides (assumed: effect-free)"""
    params = {"self": None, "level": None}
    result = TBool()


PyLogger = TAbs("PyLogger", fields=dict(name=TStr()),
                methods=dict(info=_quiet_log, debug=_quiet_log, warning=_quiet_log, error=_quiet_log, exception=_quiet_log, log=_log_call, isEnabledFor=_is_enabled_for),
                events=False)


def install_shared(E):
    E.shared_types["PyLogger"] = PyLogger
    try:
        from . import runtime_lib

        runtime_lib.install_runtime_types(E)
        runtime_lib.install_runtime_types2(E)
    except ImportError:
        pass
    import sys

    for name, mod in list(sys.modules.items()):
        if name.startswith("contracts.") and mod is not None and name != "contracts.common" and hasattr(mod, "install"):
            mod.install(E)
