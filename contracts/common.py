"""Shapes shared by the sidecars."""
from pyvc.types import *
from pyvc.contracts import contract, Contract, Loop, N
import z3

# numbers
NumFin = TNum()                       # finite int | float
NumX = TNum(inf=True)                 # int | float | +-inf  (no nan)
NumXN = TNum(inf=True, nan=True)
NumInt = TNum(only="int")
NumNonNeg = TNum(lo=0)


def pool(name="Pool", **over):
    """A well-behaved pool: reading supply/demand/utilisation/allocation is pure, writing demand stores it
    faithfully (one `store` event) and changes nothing else.  This is the interface hypothesis of the properties."""
    f = dict(supply=NumFin, demand=NumFin, utilisation=NumFin, allocation=NumFin)
    f.update(over)
    t = TAbs(name, fields=f)
    t.isa = ["cobald.interfaces._pool:Pool"]
    return t
