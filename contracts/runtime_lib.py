"""Abstract collaborators of the runtime: payloads, locks, events, asyncio futures/loops/tasks, trio channels.
Every contract here is an ASSUMED library contract or an interface hypothesis (DESIGN.md 3.3); each is listed in
the evidence of the properties that use it."""
from .common import *
from pyvc.contracts import Contract
from pyvc.engine import Event, fresh
import pyvc.z as Z

_n = [0]


def amethod(name, params, doc="", **ns):
    ns = dict(ns)
    ns["params"] = params
    ns["__doc__"] = doc
    ns["kind"] = "abstract"
    ns["skip_body"] = True
    _n[0] += 1
    return Contract("abstract:%s#%d" % (name, _n[0]), ns)


BOOL = TBool()
ANYT = TAny()


def flag(view, name):
    """ghost boolean field of an abstract object"""
    return Z.Val.b(getattr(view, name).t)


# ---- a payload / arbitrary callable: any outcome ------------------------------------------------------
def payload_contract(kind="payload", is_async=False, arity=0):
    """an arbitrary callable: one `call` event, then it returns ANY value (`returned` event) or raises ANY
    BaseException (`raised` event).  Interface hypothesis: it touches none of the runtime's own state."""
    params = {"self": None}
    for k in range(arity):
        params["a%d" % k] = ANYT
    params["**kw"] = None

    def emits(c, ctx, self, **a):
        args = [a.get("a%d" % k) for k in range(2)]
        kw = a.get("kw") or {}
        ctx.emit(kind, self, args[0] if len(args) > 0 else None, args[1] if len(args) > 1 else None, kw.get("k"))

    def emits_after(c, ctx, outcome, value, self, **a):
        ctx.emit("returned" if outcome == "return" else "raised", self, value)

    return amethod(kind, params, doc="arbitrary callable with arbitrary outcome", result=ANYT, emits=emits, emits_after=emits_after,
                   raises={"BaseException": lambda c, exc, **k: True}, is_async=is_async, has_events=True)


def payload_type(kind="payload", is_async=False, arity=0):
    con = payload_contract(kind, is_async, arity)
    t = TFn(con)
    con.params["self"] = t
    return t


# ---- threading.Lock ---------------------------------------------------------------------------------------
Lock = TAbs("threading.Lock", fields=dict(held=BOOL), events=False)
Lock.methods["acquire"] = amethod(
    "Lock.acquire", {"self": Lock, "blocking": BOOL},
    doc="acquire(blocking=False): atomically returns True iff the lock was free, and then holds it; never blocks",
    result=BOOL,
    requires=lambda c, self, blocking: {"non-blocking": c.Not(Z.Val.b(blocking.t)) if hasattr(blocking, "t") else (blocking is False)},
    writes=lambda c, self, blocking: [(self, "held")],
    ensures=lambda c, self, blocking, result: c.And(Z.Val.b(result.t) == c.Not(flag(c.old(self), "held")), flag(self, "held")),
    emits=lambda c, ctx, self, blocking: ctx.emit("acquire", self),
    has_events=True,
)
Lock.methods["release"] = amethod(
    "Lock.release", {"self": Lock},
    doc="release(): requires the lock to be held; afterwards it is free",
    requires=lambda c, self: {"lock-is-held": flag(self, "held")},
    writes=lambda c, self: [(self, "held")],
    ensures=lambda c, self: c.Not(flag(self, "held")),
    emits=lambda c, ctx, self: ctx.emit("release", self),
    has_events=True,
)

# ---- threading.Event ---------------------------------------------------------------------------------------
TEvent = TAbs("threading.Event", fields=dict(isset=BOOL), events=False)
TEvent.methods["set"] = amethod("Event.set", {"self": TEvent}, writes=lambda c, self: [(self, "isset")], ensures=lambda c, self: flag(self, "isset"),
                                emits=lambda c, ctx, self: ctx.emit("event.set", self), has_events=True)
TEvent.methods["clear"] = amethod("Event.clear", {"self": TEvent}, writes=lambda c, self: [(self, "isset")], ensures=lambda c, self: c.Not(flag(self, "isset")),
                                  emits=lambda c, ctx, self: ctx.emit("event.clear", self), has_events=True)
TEvent.methods["is_set"] = amethod("Event.is_set", {"self": TEvent}, result=BOOL, ensures=lambda c, self, result: Z.Val.b(result.t) == flag(self, "isset"))
def _wait_ensures(c, self, timeout, result):
    unbounded = Z.is_none(timeout.t) if hasattr(timeout, "t") else z3.BoolVal(timeout is None)
    return c.And(Z.Val.b(result.t) == flag(self, "isset"), c.Implies(unbounded, flag(self, "isset")))


TEvent.methods["wait"] = amethod("Event.wait", {"self": TEvent, "timeout": ANYT},
                                 doc="wait(timeout=None): returns True once the event is set (by whichever thread); with a timeout it may give up and return False, the event still unset",
                                 writes=lambda c, self, timeout=None: [(self, "isset")], result=BOOL, ensures=_wait_ensures,
                                 emits=lambda c, ctx, self, timeout=None: ctx.emit("event.wait", self), has_events=True)

# ---- asyncio.Future -----------------------------------------------------------------------------------------
Future = TAbs("asyncio.Future", fields=dict(is_done=BOOL, stored_exc=ANYT, stored_res=ANYT), events=False)


def _not_stop_iteration(c, e):
    # CPython 3.12 futures.py: `if type(exception) is StopIteration: raise TypeError` - the exact class, not subclasses
    return c.Not(e.cls_is("StopIteration"))


Future.methods["done"] = amethod("Future.done", {"self": Future}, result=BOOL, ensures=lambda c, self, result: Z.Val.b(result.t) == flag(self, "is_done"))
Future.methods["set_exception"] = amethod(
    "Future.set_exception", {"self": Future, "exception": TExc()},
    doc="set_exception(e): requires the future not to be done (else InvalidStateError) and type(e) is not StopIteration (else TypeError)",
    requires=lambda c, self, exception: {"future-not-done": c.Not(flag(self, "is_done")), "exception-is-not-a-StopIteration": _not_stop_iteration(c, exception)},
    writes=lambda c, self, exception: [(self, "is_done"), (self, "stored_exc")],
    ensures=lambda c, self, exception: c.And(flag(self, "is_done"), self.stored_exc == exception),
    emits=lambda c, ctx, self, exception: ctx.emit("set_exception", self, exception), has_events=True)
Future.methods["set_result"] = amethod(
    "Future.set_result", {"self": Future, "value": ANYT},
    requires=lambda c, self, value: {"future-not-done": c.Not(flag(self, "is_done"))},
    writes=lambda c, self, value: [(self, "is_done"), (self, "stored_res"), (self, "stored_exc")],
    ensures=lambda c, self, value: c.And(flag(self, "is_done"), self.stored_res == value, self.stored_exc == None),
    emits=lambda c, ctx, self, value: ctx.emit("set_result", self, value), has_events=True)
Future.methods["__await__"] = amethod(
    "Future.__await__", {"self": Future},
    doc="await fut: returns the result, or raises the stored exception object itself; an await may also be cancelled (CancelledError)",
    result=ANYT, writes=lambda c, self: [(self, "is_done"), (self, "stored_exc"), (self, "stored_res")],
    ensures=lambda c, self, result: c.And(flag(self, "is_done"), self.stored_exc == None, result == self.stored_res),
    raises={"BaseException": lambda c, self, exc: c.Or(c.And(flag(self, "is_done"), self.stored_exc == exc), exc.isa("asyncio.CancelledError"))},
    emits=lambda c, ctx, self: ctx.emit("await", self), has_events=True)

# ---- asyncio loop -----------------------------------------------------------------------------------------
ALoop = TAbs("asyncio.Loop", fields={}, events=False)
ALoop.methods["call_soon_threadsafe"] = amethod(
    "loop.call_soon_threadsafe", {"self": ALoop, "callback": ANYT, "*args": None},
    doc="call_soon_threadsafe(cb, *a): cb(*a) runs exactly once, later, on the loop thread; does not raise while the loop is open",
    emits=lambda c, ctx, self, callback, args: ctx.emit("call_soon_threadsafe", self, callback, args[0] if args else None), has_events=True)


# ---- replays use REAL asyncio futures, so that the library's own preconditions fire natively -----------------
class LoggedFuture:
    """a REAL asyncio future behind a logging proxy: the library's own preconditions fire natively, calls are logged"""

    def __init__(self, fut):
        self._f = fut

    def done(self):
        return self._f.done()

    def set_exception(self, e):
        from pyvc import replay as R

        R.LOG.append(("set_exception", self, e))
        return self._f.set_exception(e)

    def set_result(self, v):
        from pyvc import replay as R

        R.LOG.append(("set_result", self, v))
        return self._f.set_result(v)

    def __repr__(self):
        return "Logged" + repr(self._f)


def _real_future(vals):
    import asyncio

    loop = asyncio.new_event_loop()
    f = loop.create_future()
    if vals.get("is_done"):
        if isinstance(vals.get("stored_exc"), BaseException):
            f.set_exception(vals["stored_exc"])
        else:
            f.set_result(vals.get("stored_res"))
    lf = LoggedFuture(f)
    lf._verif_loop = loop
    return lf


def _observe_future(lf):
    f = lf._f
    done = f.done()
    exc = f.exception() if done and not f.cancelled() else None
    return {"is_done": done, "stored_exc": exc, "stored_res": (f.result() if done and exc is None and not f.cancelled() else None)}


Future.real = _real_future
Future.observe = _observe_future


# ---- trio memory channel (send side) and asyncio loop task creation ------------------------------------------------
Chan = TAbs("trio.SendChannel", fields=dict(closed=BOOL, clone_of=ANYT), events=False)      # clone_of: None for a channel's first handle


def _channel_of(ctx, handle):
    """the channel a send handle stands for: a clone sends into the channel it was cloned from (one level: clones of clones are not modelled)"""
    from pyvc.values import SV

    t = handle.t
    co = z3.Select(ctx.field_array("clone_of"), Z.Val.id(t))
    return SV(z3.If(Z.is_none(co), t, co), ANYT)



def _chan_send(kind, is_async):
    return amethod(
        "channel." + kind, {"self": Chan, "item": ANYT},
        doc="unbounded memory channel: send never blocks; delivers the item once; raises ClosedResourceError on a closed send channel / BrokenResourceError on a closed receiver",
        requires=None,
        ensures=lambda c, self, item: c.Not(flag(self, "closed")),
        raises={"trio.ClosedResourceError": lambda c, self, item, exc: flag(self, "closed"), "trio.BrokenResourceError": lambda c, self, item, exc: True},
        emits_after=lambda c, ctx, outcome, value, self, item: ctx.emit("chan.send" if outcome == "return" else "chan.send-failed", _channel_of(ctx, self), item),
        has_events=True, is_async=is_async, exact_raises=True)


Chan.methods["send"] = _chan_send("send", True)
Chan.methods["send_nowait"] = _chan_send("send_nowait", False)
Chan.methods["aclose"] = amethod("channel.aclose", {"self": Chan}, writes=lambda c, self: [(self, "closed")], ensures=lambda c, self: flag(self, "closed"),
                                 raises={"trio.Cancelled": lambda c, self, exc: True}, exact_raises=True,
                                 emits=lambda c, ctx, self: ctx.emit("chan.aclose", self), has_events=True, is_async=True)


# the closing argument (C02) rests on the assumed contract "closing the send side ends the receive loop"; trio ends the receive side only once
# EVERY clone of the send side is closed, so a function that clones it must close its clone again (recorded here, demanded by the contracts
# of the functions that send: TrioRunner.register_payload)
def _clone_after(c, ctx, outcome, value, self):
    if outcome == "return":
        ctx.ghost.setdefault("send_clones", []).append(value)


Chan.methods["clone"] = amethod("channel.clone", {"self": Chan},
                                doc="SendChannel.clone() (assumed): a NEW open handle on the same channel; the receive side ends only when all handles are closed",
                                requires=lambda c, self: {"clones-are-made-of-the-first-handle-only": Z.is_none(self.clone_of.t)},
                                result=Chan, fresh_result=True,
                                ensures=lambda c, self, result: c.And(result.clone_of.t == self.t, c.Not(flag(result, "closed"))),
                                emits_after=_clone_after)
Chan.methods["__aenter__"] = amethod("channel.__aenter__", {"self": Chan}, result=Chan, ensures=lambda c, self, result: result.t == self.t, is_async=True)
Chan.methods["__aexit__"] = amethod("channel.__aexit__", {"self": Chan, "et": ANYT, "ev": ANYT, "tb": ANYT}, writes=lambda c, self, **k: [(self, "closed")],
                                    ensures=lambda c, self, **k: flag(self, "closed"), is_async=True)
Chan.methods["close"] = amethod("channel.close", {"self": Chan}, writes=lambda c, self: [(self, "closed")], ensures=lambda c, self: flag(self, "closed"))


def every_clone_made_here_is_closed(c):
    """postcondition for a function that sends: no handle it cloned is left open (a leaked clone keeps the receive loop alive for ever)"""
    cl = c.ctx.ghost.get("send_clones", [])
    return c.And(*[Z.Val.b(z3.Select(c.ctx.rd(c.new_heap, "closed"), Z.Val.id(v.t))) for v in cl]) if cl else True


def _create_task_emits(c, ctx, self, coro):
    fi, args = coro.origin
    ctx.emit("create_task", self, fi.key, args[0] if args else None, args[1] if len(args) > 1 else None)


Task = TRef()
ALoop.methods["create_task"] = amethod("loop.create_task", {"self": ALoop, "coro": None}, doc="create_task(coro): coro runs as a task on the loop thread",
                                       result=Task, fresh_result=True, emits=_create_task_emits, has_events=True)
ALoop.methods["set_task_factory"] = amethod(
    "loop.set_task_factory", {"self": ALoop, "factory": None},
    doc="the contract assumed of create_task (the coroutine starts at a LATER loop iteration, never inside the caller's step) is the default task factory's",
    requires=lambda c, self, factory: {"the-default-task-factory-whose-tasks-start-at-a-later-loop-iteration": True if factory is None else Z.is_none(factory.t if hasattr(factory, "t") else c.ctx.to_val(factory).t)})
ALoop.methods["create_future"] = amethod("loop.create_future", {"self": ALoop}, result=Future, fresh_result=True,
                                         ensures=lambda c, self, result: c.Not(flag(result, "is_done")))


# ---- asyncio.Event (trio runner's readiness) ------------------------------------------------------------------------
AEvent = TAbs("asyncio.Event", fields=dict(isset=BOOL), events=False)
AEvent.methods["set"] = amethod("asyncio.Event.set", {"self": AEvent}, writes=lambda c, self: [(self, "isset")], ensures=lambda c, self: flag(self, "isset"),
                                emits=lambda c, ctx, self: ctx.emit("aevent.set", self), has_events=True)
AEvent.methods["wait"] = amethod("asyncio.Event.wait", {"self": AEvent}, doc="await event.wait(): returns once the event is set",
                                 ensures=lambda c, self: flag(self, "isset"), writes=lambda c, self: [(self, "isset")],
                                 emits=lambda c, ctx, self: ctx.emit("aevent.wait", self), has_events=True, is_async=True,
                                 raises={"asyncio.CancelledError": lambda c, self, exc: True}, exact_raises=True)


# ---- threading.Semaphore / BoundedSemaphore: a BLOCKING primitive -------------------------------------------------------------------
Sem = TAbs("threading.Semaphore", fields={}, events=False)
Sem.methods["acquire"] = amethod("Semaphore.acquire", {"self": Sem, "*args": None, "**kw": None}, doc="acquire(): may BLOCK the calling thread until another thread releases (event `blocking-acquire`)",
                                 result=BOOL, emits=lambda c, ctx, self, **k: ctx.emit("blocking-acquire", self), has_events=True)
Sem.methods["release"] = amethod("Semaphore.release", {"self": Sem, "*args": None}, emits=lambda c, ctx, self, **k: ctx.emit("semaphore-release", self), has_events=True,
                                 raises={"ValueError": lambda c, self, exc, **k: True}, exact_raises=True)


Sem.methods["__enter__"] = amethod("Semaphore.__enter__", {"self": Sem}, doc="with lock: a BLOCKING acquire", result=BOOL,
                                   emits=lambda c, ctx, self, **k: ctx.emit("blocking-acquire", self), has_events=True)
Sem.methods["__exit__"] = amethod("Semaphore.__exit__", {"self": Sem, "*args": None}, emits=lambda c, ctx, self, **k: ctx.emit("semaphore-release", self), has_events=True)


def install_runtime_types(E):
    E.shared_types["threading.Semaphore"] = Sem
    E.shared_types.update({"threading.Event": TEvent, "asyncio.Event": AEvent, "asyncio.Loop": ALoop, "asyncio.Future": Future, "threading.Lock": Lock})


# ---- trio nursery / receive channel; executor; asyncio tasks ----------------------------------------------------------
class _Scope:
    pass


Nursery = TAbs("trio.Nursery", fields={}, events=False)
Nursery.methods["start_soon"] = amethod("nursery.start_soon", {"self": Nursery, "fn": None, "*args": None},
                                        doc="start_soon(f, *a): f(*a) runs exactly once as a child task in the run's thread",
                                        emits=lambda c, ctx, self, fn, args: ctx.emit("start_soon", self, fn, args[0] if args else None), has_events=True)
CancelScope = TAbs("trio.CancelScope", fields={}, events=False)
CancelScope.methods["cancel"] = amethod("cancel_scope.cancel", {"self": CancelScope}, doc="cancel(): delivers Cancelled to every child at its next checkpoint",
                                        emits=lambda c, ctx, self: ctx.emit("scope.cancel", self), has_events=True)
Nursery.fields["cancel_scope"] = CancelScope
RChan = TAbs("trio.ReceiveChannel", fields=dict(peer=TAny()), events=False)
ALoop.methods["run_in_executor"] = amethod(
    "loop.run_in_executor", {"self": ALoop, "executor": None, "fn": None},
    doc="run_in_executor(None, f): f() runs on a thread that is not the loop thread; awaiting yields f's outcome",
    # the closing guarantee assumed of asyncio.run (it joins the executor threads before returning) is the DEFAULT executor's only
    requires=lambda c, self, executor, fn: {"the-default-executor-which-asyncio.run-joins-on-shutdown": True if executor is None else Z.is_none(executor.t if hasattr(executor, "t") else c.ctx.to_val(executor).t)})


def _rie_delegate(I, self, executor, fn):
    from pyvc.interp import Coro

    ctx = I.ctx

    def thunk():
        ctx.emit("run_in_executor", self, fn)
        saved = ctx.ghost.get("here")
        ctx.ghost["here"] = ("executor",)
        try:
            return I.call(fn, [], {})
        finally:
            ctx.ghost["here"] = saved

    return Coro(thunk, "run_in_executor")


ALoop.methods["run_in_executor"].delegate = _rie_delegate
ATask = TAbs("asyncio.Task", fields=dict(task_done=BOOL), events=False)
ATask.methods["done"] = amethod("Task.done", {"self": ATask}, result=BOOL, ensures=lambda c, self, result: Z.Val.b(result.t) == flag(self, "task_done"))
ATask.methods["cancelled"] = amethod("Task.cancelled", {"self": ATask}, result=BOOL)
ATask.methods["exception"] = amethod("Task.exception", {"self": ATask}, result=ANYT, requires=lambda c, self: {"task-is-done": flag(self, "task_done")},
                                     emits=lambda c, ctx, self: ctx.emit("task.exception", self), has_events=True)
ATask.methods["result"] = amethod("Task.result", {"self": ATask}, result=ANYT, requires=lambda c, self: {"task-is-done": flag(self, "task_done")},
                                  doc="Task.result(): the payload's return value, or RE-RAISES the exception the payload ended with (any BaseException)",
                                  raises={"BaseException": lambda c, self, exc: True}, emits=lambda c, ctx, self: ctx.emit("task.result", self), has_events=True)
ATask.methods["cancel"] = amethod("Task.cancel", {"self": ATask}, result=BOOL, emits=lambda c, ctx, self: ctx.emit("task.cancel", self), has_events=True)


def install_runtime_types2(E):
    E.shared_types.update({"trio.SendChannel": Chan, "trio.ReceiveChannel": RChan, "trio.Nursery": Nursery, "asyncio.Task": ATask})
