"""Contracts on the runners (thread / asyncio / trio / meta / service): the sequential links of the concurrency
properties C01, C02, C03, C10, C11, C12 (DESIGN.md section 5, 'Concurrency properties')."""
from .common import *
from .runtime_lib import *
from pyvc.engine import Event
import pyvc.z as Z

RUN = "cobald.daemon.runners."
ORPH = RUN + "base_runner:OrphanedReturn"

Payload = payload_type("payload")
ThreadR = TObj(RUN + "thread_runner:ThreadRunner", asyncio_loop=ALoop, _payload_failure=Future, _logger=PyLogger, _stopped=TEvent)


def ev_kind(c, k, name):
    return Event.e_kind(c.event_at(k)) == c.ctx.E.event_kind(name)


def orphaned(c, F_term, who, value):
    """F is an OrphanedReturn carrying exactly the returned value and the payload"""
    F = c.view_term(F_term, TObj(ORPH, who=TAny(), value=TAny()), c.new_heap)
    return c.And(F.cls_is(ORPH), F.who == who, F.value == value)


@contract(RUN + "thread_runner:ThreadRunner._monitor_payload", props=["C01"])
class thread_monitor:
    """K1 (thread): every outcome of the payload other than `return None` is handed to the loop as a failure"""
    params = dict(self=ThreadR, payload=Payload)
    has_events = True

    def ensures(c, self, payload):
        v = Event.e_b(c.event_at(1))
        returned = c.And(ev_kind(c, 0, "payload"), Event.e_a(c.event_at(0)) == payload.t, ev_kind(c, 1, "returned"))
        raised = c.And(ev_kind(c, 0, "payload"), Event.e_a(c.event_at(0)) == payload.t, ev_kind(c, 1, "raised"))
        e2 = c.event_at(2)
        handed = lambda F: c.And(c.n_events() == 3, ev_kind(c, 2, "call_soon_threadsafe"), Event.e_a(e2) == self.asyncio_loop.t,
                                 Event.e_b(e2) == c.bound_method(self, RUN + "thread_runner:ThreadRunner._set_failure"), F(Event.e_c(e2)))
        return {
            "payload-called-exactly-once": c.And(ev_kind(c, 0, "payload"), Event.e_a(c.event_at(0)) == payload.t, c.Or(ev_kind(c, 1, "returned"), ev_kind(c, 1, "raised"))),
            "None-is-no-failure": c.Implies(c.And(returned, Z.is_none(v)), c.n_events() == 2),
            "any-other-return-value-even-a-falsy-one-is-handed-over-as-OrphanedReturn-carrying-it": c.Implies(
                c.And(returned, c.Not(Z.is_none(v))), handed(lambda F: orphaned(c, F, payload, c.view_term(v, TAny(), c.new_heap)))),
            "any-raised-exception-of-any-class-is-handed-over-itself": c.Implies(raised, handed(lambda F: F == v)),
        }
    # raises = {}: nothing escapes the monitor, whatever the payload does


@contract(RUN + "thread_runner:ThreadRunner._set_failure", props=["C01"])
class thread_set_failure:
    """K2: the first failure is recorded in the runner's future; raises nothing"""
    params = dict(self=ThreadR, failure=TExc())
    has_events = True
    # known finding: a StopIteration cannot be transported by asyncio/coroutines (PEP 479); it is recorded wrapped
    known = {"first-failure-wins": ("C01-stopiteration-is-wrapped", lambda c, self, failure: failure.isa("StopIteration"))}

    def writes(c, self, failure):
        return [(self._payload_failure, "is_done"), (self._payload_failure, "stored_exc")]

    def ensures(c, self, failure):
        f0, f1 = c.old(self._payload_failure), self._payload_failure
        return {
            "first-failure-wins": c.Implies(c.Not(flag(f0, "is_done")), c.And(flag(f1, "is_done"), f1.stored_exc == failure, c.events_are(c.event("set_exception", f1, failure)))),
            "later-failures-leave-the-record-alone": c.Implies(flag(f0, "is_done"), c.And(c.no_events(), c.unchanged(f1, "is_done", "stored_exc"))),
        }


@contract(RUN + "thread_runner:ThreadRunner.manage_payloads", props=["C01"])
class thread_manage:
    """K3 (thread): the runner's manage task ends exactly as its failure future ends"""
    params = dict(self=ThreadR)
    has_events = True
    result = TAny()

    def writes(c, self):
        return [(self._payload_failure, "is_done"), (self._payload_failure, "stored_exc"), (self._payload_failure, "stored_res")]

    def ensures(c, self, result):
        return {"returns-only-on-graceful-close": c.And(flag(self._payload_failure, "is_done"), self._payload_failure.stored_exc == None)}

    raises = {"BaseException": lambda c, self, exc: c.Or(c.And(flag(self._payload_failure, "is_done"), self._payload_failure.stored_exc == exc), exc.isa("asyncio.CancelledError"))}
