"""Contracts on the runners (thread / asyncio / trio / meta / service): the sequential links of the concurrency
properties C01, C02, C03, C10, C11, C12 (DESIGN.md section 5, 'Concurrency properties')."""
from .common import *
from .runtime_lib import *
from pyvc.engine import Event
from pyvc.values import SV, VTuple, VDict
import pyvc.z as Z

RUN = "cobald.daemon.runners."
ORPH = RUN + "base_runner:OrphanedReturn"

Payload = payload_type("payload")
ThreadR = TObj(RUN + "thread_runner:ThreadRunner", asyncio_loop=ALoop, _payload_failure=Future, _logger=PyLogger, _stopped=TEvent)


def ev_kind(c, k, name):
    return Event.e_kind(c.event_at(k)) == c.ctx.E.event_kind(name)


def fn_kind(c, k, name):
    return Event.e_kind(c.fn_event_at(k)) == c.ctx.E.event_kind(name)


def orphaned(c, F_term, who, value):
    """F is an OrphanedReturn carrying exactly the returned value and the payload"""
    F = c.view_term(F_term, TObj(ORPH, who=TAny(), value=TAny()), c.new_heap)
    return c.And(F.cls_is(ORPH), F.who == who, F.value == value)


@contract(RUN + "thread_runner:ThreadRunner._monitor_payload", props=["C01"])
class thread_monitor:
    """K1 (thread): every outcome of the payload other than `return None` is handed to the loop as a failure"""
    params = dict(self=ThreadR, payload=Payload)
    has_events = True

    def ensures(c, self, payload):
        v = Event.e_b(c.event_at(1))
        returned = c.And(ev_kind(c, 0, "payload"), Event.e_a(c.event_at(0)) == payload.t, ev_kind(c, 1, "returned"))
        raised = c.And(ev_kind(c, 0, "payload"), Event.e_a(c.event_at(0)) == payload.t, ev_kind(c, 1, "raised"))
        e2 = c.event_at(2)
        handed = lambda F: c.And(c.n_events() == 3, ev_kind(c, 2, "call_soon_threadsafe"), Event.e_a(e2) == self.asyncio_loop.t,
                                 Event.e_b(e2) == c.bound_method(self, RUN + "thread_runner:ThreadRunner._set_failure"), F(Event.e_c(e2)))
        return {
            "payload-called-exactly-once": c.And(ev_kind(c, 0, "payload"), Event.e_a(c.event_at(0)) == payload.t, c.Or(ev_kind(c, 1, "returned"), ev_kind(c, 1, "raised"))),
            "None-is-no-failure": c.Implies(c.And(returned, Z.is_none(v)), c.n_events() == 2),
            "any-other-return-value-even-a-falsy-one-is-handed-over-as-OrphanedReturn-carrying-it": c.Implies(
                c.And(returned, c.Not(Z.is_none(v))), handed(lambda F: orphaned(c, F, payload, c.view_term(v, TAny(), c.new_heap)))),
            "any-raised-exception-of-any-class-is-handed-over-itself": c.Implies(raised, handed(lambda F: F == v)),
        }
    # raises = {}: nothing escapes the monitor, whatever the payload does


@contract(RUN + "thread_runner:ThreadRunner._set_failure", props=["C01"])
class thread_set_failure:
    """K2: the first failure is recorded in the runner's future; raises nothing"""
    params = dict(self=ThreadR, failure=TExc())
    has_events = True
    # known finding: a StopIteration cannot be transported by asyncio/coroutines (PEP 479); it is recorded wrapped
    known = {"first-failure-wins": ("C01-stopiteration-is-wrapped", lambda c, self, failure: failure.isa("StopIteration"))}

    def writes(c, self, failure):
        return [(self._payload_failure, "is_done"), (self._payload_failure, "stored_exc")]

    def ensures(c, self, failure):
        f0, f1 = c.old(self._payload_failure), self._payload_failure
        return {
            "first-failure-wins": c.Implies(c.Not(flag(f0, "is_done")), c.And(flag(f1, "is_done"), f1.stored_exc == failure, c.events_are(c.event("set_exception", f1, failure)))),
            "later-failures-leave-the-record-alone": c.Implies(flag(f0, "is_done"), c.And(c.no_events(), c.unchanged(f1, "is_done", "stored_exc"))),
        }


@contract(RUN + "thread_runner:ThreadRunner.manage_payloads", props=["C01"])
class thread_manage:
    """K3 (thread): the runner's manage task ends exactly as its failure future ends"""
    params = dict(self=ThreadR)
    has_events = True
    result = TAny()

    def writes(c, self):
        return [(self._payload_failure, "is_done"), (self._payload_failure, "stored_exc"), (self._payload_failure, "stored_res")]

    def ensures(c, self, result):
        return {"returns-only-on-graceful-close": c.And(flag(self._payload_failure, "is_done"), self._payload_failure.stored_exc == None)}

    raises = {"BaseException": lambda c, self, exc: c.Or(c.And(flag(self._payload_failure, "is_done"), self._payload_failure.stored_exc == exc), exc.isa("asyncio.CancelledError"))}


# ================================================================================ asyncio / trio monitors (K1)
APayload = payload_type("payload", is_async=True)
# PEP 479: a StopIteration leaving a coroutine is turned into RuntimeError by Python itself before cobald sees it
APayload.contract.raises = {"BaseException": lambda c, exc, **k: c.Not(exc.isa("StopIteration"))}

from .runtime_lib import ATask
TaskSet = TSeq(ATask, "set")
AsyncR = TObj(RUN + "asyncio_runner:AsyncioRunner", asyncio_loop=ALoop, _tasks=TaskSet, _payload_failure=Future, _logger=PyLogger, _stopped=TEvent)


def _first(c, fut0, fut1, F_ok, k):
    """at event index k: set_exception(F) iff the future was not done; F satisfies F_ok"""
    e = c.event_at(k)
    return c.And(
        c.Implies(c.Not(flag(fut0, "is_done")), c.And(c.n_events() == k + 1, ev_kind(c, k, "set_exception"), Event.e_a(e) == fut1.t, F_ok(Event.e_b(e)), flag(fut1, "is_done"), fut1.stored_exc.t == Event.e_b(e))),
        c.Implies(flag(fut0, "is_done"), c.And(c.n_events() == k, c.unchanged(fut1, "is_done", "stored_exc"))),
    )


@contract(RUN + "asyncio_runner:AsyncioRunner._monitor_payload", props=["C01"])
class asyncio_monitor:
    """K1 (asyncio): every outcome other than `return None`, cancellation and KeyboardInterrupt becomes the runner's failure"""
    params = dict(self=AsyncR, payload=APayload)
    has_events = True
    result = TAny()

    def writes(c, self, payload):
        return [(self._payload_failure, "is_done"), (self._payload_failure, "stored_exc"), (self._tasks, "$len"), (self._tasks, "$item")]

    def ensures(c, self, payload, result):
        v = Event.e_b(c.event_at(1))
        f0, f1 = c.old(self._payload_failure), self._payload_failure
        returned = c.And(ev_kind(c, 0, "payload"), Event.e_a(c.event_at(0)) == payload.t, ev_kind(c, 1, "returned"))
        raised = c.And(ev_kind(c, 0, "payload"), Event.e_a(c.event_at(0)) == payload.t, ev_kind(c, 1, "raised"))
        return {
            "payload-awaited-exactly-once": c.Or(returned, raised),
            "None-is-no-failure": c.Implies(c.And(returned, Z.is_none(v)), c.And(c.n_events() == 2, c.unchanged(f1, "is_done", "stored_exc"))),
            "any-other-return-value-even-a-falsy-one-becomes-an-OrphanedReturn-carrying-it": c.Implies(
                c.And(returned, c.Not(Z.is_none(v))), c.And(ev_kind(c, 2, "tasks.discard"), _first(c, f0, f1, lambda F: orphaned(c, F, payload, c.view_term(v, TAny(), c.new_heap)), 3))),
            "any-other-exception-becomes-the-failure-itself": c.Implies(raised, c.And(ev_kind(c, 2, "tasks.discard"), _first(c, f0, f1, lambda F: F == v, 3))),
        }

    def _propagates(c, self, payload, exc):
        return c.And(c.n_events() == 2, ev_kind(c, 1, "raised"), Event.e_b(c.event_at(1)) == exc.t, c.unchanged(self._payload_failure, "is_done", "stored_exc"))

    # per the property only KeyboardInterrupt may leave the monitor without becoming the failure.  The code ALSO lets CancelledError
    # through - it has to, that is how the runtime cancels the payload at shutdown - and cannot tell it from a payload that raises
    # CancelledError itself: that outcome is the known finding below (tied to the `except CancelledError` branch being taken)
    raises = {"KeyboardInterrupt": _propagates}
    known = {"raises": ("C01-asyncio-payload-raising-cancellederror-is-not-a-failure", ("decision", "except-asyncio.CancelledError", 0))}


TrioR = TObj(RUN + "trio_runner:TrioRunner", asyncio_loop=ALoop, _logger=PyLogger, _stopped=TEvent, _ready=TAny(), _trio_token=TAny(), _submit_tasks=TAny())


@contract(RUN + "trio_runner:TrioRunner._monitor_payload", props=["C01"])
class trio_monitor:
    """K1 (trio): the wrapper itself fails with the payload's exception or with OrphanedReturn carrying the value
    (the nursery turns that into the failure of trio.run - assumed contract of trio)"""
    params = dict(self=TrioR, payload=APayload)
    has_events = True

    def ensures(c, self, payload):
        return {"returns-only-when-the-payload-returned-None": c.And(c.n_events() == 2, ev_kind(c, 1, "returned"), Z.is_none(Event.e_b(c.event_at(1))))}

    def _fails(c, self, payload, exc):
        v = Event.e_b(c.event_at(1))
        return c.And(c.n_events() == 2, ev_kind(c, 0, "payload"), Event.e_a(c.event_at(0)) == payload.t,
                     c.Or(c.And(ev_kind(c, 1, "raised"), v == exc.t),
                          c.And(ev_kind(c, 1, "returned"), c.Not(Z.is_none(v)), orphaned(c, exc.t, payload, c.view_term(v, TAny(), c.new_heap)))))

    raises = {"BaseException": _fails}


# ================================================================================ BaseRunner.run (K3)
BaseR = TObj(RUN + "base_runner:BaseRunner", asyncio_loop=ALoop, _logger=PyLogger, _stopped=TEvent)
BaseR.exact_cls = False


@contract(RUN + "base_runner:BaseRunner.manage_payloads", props=["C01"], skip_body=True, kind="abstract", is_async=True)
class base_manage:
    """interface of the subclass hook: any outcome (verified per subclass above)"""
    params = dict(self=BaseR)
    has_events = True
    result = TAny()

    def emits(c, ctx, self):
        ctx.emit("manage_payloads", self)

    def emits_after(c, ctx, outcome, value, self):
        ctx.emit("managed-returned" if outcome == "return" else "managed-raised", self, value)

    raises = {"BaseException": lambda c, self, exc: True}


@contract(RUN + "base_runner:BaseRunner.run", props=["C01", "C02"])
class base_run:
    """K3: run ends exactly as manage_payloads ends - for every exception class - and marks the runner stopped on every exit"""
    params = dict(self=BaseR)
    has_events = True
    result = TAny()

    def writes(c, self):
        return [(self._stopped, "isset")]

    def ensures(c, self, result):
        return {"returns-only-when-manage-returned": c.events_are(c.event("event.clear", self._stopped), c.event("manage_payloads", self), c.event_at(2), c.event("event.set", self._stopped)),
                "manage-returned": ev_kind(c, 2, "managed-returned"),
                "marked-stopped": flag(self._stopped, "isset")}

    def _same(c, self, exc):
        return c.And(c.n_events() == 4, c.event_at(0) == c.event("event.clear", self._stopped), c.event_at(1) == c.event("manage_payloads", self),
                     c.event_at(2) == c.event("managed-raised", self, exc), c.event_at(3) == c.event("event.set", self._stopped), flag(self._stopped, "isset"))

    raises = {"BaseException": _same}


# ================================================================================ MetaRunner (K4, K5) and accept (K6)
Runners = TMap(val=BaseR)
MetaR = TObj(RUN + "meta_runner:MetaRunner", _logger=PyLogger, _runners=Runners, _runner_queues=TMap(val=TSeq(TAny(), "list")), running=TEvent)
TaskList = TSeq(TAny(), "list")


@contract(RUN + "meta_runner:MetaRunner._launch_runners", props=["C01"], skip_body=True, kind="abstract", is_async=True)
class launch_runners:
    """(verified under C03/C11) starts one task per runner type and returns the tasks"""
    params = dict(self=MetaR)
    result = TaskList
    fresh_result = True
    has_events = True

    def writes(c, self):
        return [(self, "_runners")]

    def emits(c, ctx, self):
        ctx.emit("launch_runners", self)


@contract(RUN + "meta_runner:MetaRunner._unqueue_payloads", props=["C01"], skip_body=True, kind="abstract", is_async=True)
class unqueue_payloads_iface:
    """(verified under C03) hands the queued payloads to their runners; may raise what registering raises"""
    params = dict(self=MetaR)
    has_events = True

    def writes(c, self):
        return [("all", "$mhas", lambda x: True), ("all", "$len", lambda x: True)]

    def emits(c, ctx, self):
        ctx.emit("unqueue_payloads", self)

    raises = {"BaseException": lambda c, self, exc: True}


@contract(RUN + "meta_runner:MetaRunner._aclose_runners", props=["C01"], skip_body=True, kind="abstract", is_async=True)
class aclose_runners_iface:
    """(verified under C02) closes every runner and awaits their tasks; raises nothing but cancellation"""
    params = dict(self=MetaR, runner_tasks=TaskList)
    has_events = True

    def writes(c, self, runner_tasks):
        return [("all", "$mhas", lambda x: True)]

    def emits(c, ctx, self, runner_tasks):
        ctx.emit("aclose_runners", self, runner_tasks)


def _shield_close_event(c, self):
    return c.ctx.E.event_kind("aclose_runners")


def has_event(c, pred):
    """some event appended by this call satisfies pred(event)"""
    k = z3.Int("evk")
    return z3.Exists([k], z3.And(k >= c.tr_old_len, k < c.trlen, pred(z3.Select(c.tr, k))))


def closed_under_shield(c, self):
    """the runners are closed through `await asyncio.shield(self._aclose_runners(...))` before the exit"""
    k = z3.Int("shk")
    sh = c.ctx.E.event_kind("shield")
    ac = c.ctx.E.event_kind("aclose_runners")
    return z3.Exists([k], z3.And(k >= c.tr_old_len, k + 1 < c.trlen,
                                 Event.e_kind(z3.Select(c.tr, k)) == sh, Event.e_a(z3.Select(c.tr, k)) == Z.mk_str(RUN + "meta_runner:MetaRunner._aclose_runners"),
                                 Event.e_b(z3.Select(c.tr, k)) == self.t,
                                 Event.e_kind(z3.Select(c.tr, k + 1)) == ac, Event.e_a(z3.Select(c.tr, k + 1)) == self.t))


def gather_raised(c, exc_t):
    gr = c.ctx.E.event_kind("gather-raised")
    return has_event(c, lambda e: z3.And(Event.e_kind(e) == gr, Event.e_a(e) == exc_t))


@contract(RUN + "meta_runner:MetaRunner._manage_runners", props=["C01", "C02"])
class manage_runners:
    """K4: whatever makes the gather over the runner tasks fail, all runners are closed under shield before the exit;
    KeyboardInterrupt is absorbed, any other exception is re-raised itself; `running` is cleared on every exit"""
    params = dict(self=MetaR)
    has_events = True
    result = TAny()

    def writes(c, self):
        return [(self.running, "isset"), (self, "_runners"), ("all", "$mhas", lambda x: True), ("all", "$len", lambda x: True)]

    def ensures(c, self, result):
        gr = c.ctx.E.event_kind("gather-raised")
        ge = c.ctx.ghost.get("gather_raised_exc")
        absorbed_ok = False
        if ge is not None:
            gv = c.view_term(ge.t, TExc(), c.new_heap)
            # the only failures the managing coroutine may absorb are the two asyncio carries out of the loop BY ITSELF (see asyncio.run's assumed contract)
            absorbed_ok = c.And(closed_under_shield(c, self), c.Or(gv.isa("KeyboardInterrupt"), gv.isa("SystemExit")))
        return {
            "running-cleared": c.Not(flag(self.running, "isset")),
            "returns-normally-only-when-nothing-failed-or-after-closing-all-runners-on-an-exception-the-loop-carries-out-itself": c.Or(
                c.Not(has_event(c, lambda e: Event.e_kind(e) == gr)), absorbed_ok),
        }

    def _reraises(c, self, exc):
        # (side condition of asyncio.run's assumed contract) a KeyboardInterrupt / SystemExit re-raised from the managing task while asyncio.run
        # cleans up is carried out of THAT cleanup at once: the executor threads - the trio thread with its shielded cleanup - are then not joined
        return c.And(c.Not(flag(self.running, "isset")), c.Not(exc.isa("KeyboardInterrupt")), c.Not(exc.isa("SystemExit")),
                     c.Or(c.And(gather_raised(c, exc.t), closed_under_shield(c, self)),
                          c.Not(has_event(c, lambda e: Event.e_kind(e) == c.ctx.E.event_kind("gather-raised")))))

    raises = {"BaseException": _reraises}


@contract(RUN + "meta_runner:MetaRunner.run", props=["C01", "C12"])
class meta_run:
    """K5: an Exception out of the event loop becomes RuntimeError chained from it; KeyboardInterrupt ends the run without
    error; other BaseExceptions propagate"""
    params = dict(self=MetaR)
    has_events = True
    result = TAny()

    def writes(c, self):
        return [(self.running, "isset"), (self, "_runners"), ("all", "$mhas", lambda x: True), ("all", "$len", lambda x: True), ("all", "$ghost_loop_exc", lambda x: True)]

    def ensures(c, self, result):
        le = c.view_term(z3.Select(c.ctx.rd(c.new_heap, "$ghost_loop_exc"), 0), TExc(), c.new_heap)
        return {"returns-only-if-the-loop-returned-or-was-interrupted": c.Or(Z.is_none(le.t), le.isa("KeyboardInterrupt"))}

    def _wrapped(c, self, exc):
        le = c.view_term(z3.Select(c.ctx.rd(c.new_heap, "$ghost_loop_exc"), 0), TExc(), c.new_heap)
        cause = z3.Select(c.ctx.rd(c.new_heap, "__cause__"), exc.id)
        return c.And(c.Not(Z.is_none(le.t)), c.Not(le.isa("KeyboardInterrupt")),
                     c.Implies(le.isa("Exception"), c.And(exc.cls_is("RuntimeError"), cause == le.t)),
                     c.Implies(c.Not(le.isa("Exception")), exc.t == le.t))

    raises = {"BaseException": _wrapped}


# ================================================================================ execute (C10)
def _call_payload(I, self, payload):
    r = I.call(payload, [], {})
    r2 = I.ctx.from_val(r) if isinstance(r, SV) else r
    from pyvc.interp import Coro
    if isinstance(r2, Coro):
        r = r2.thunk()
    return r


@contract(RUN + "base_runner:BaseRunner.run_payload", props=["C10"], skip_body=True, kind="abstract")
class base_run_payload:
    """interface of runner.run_payload(payload): runs the payload exactly once in the runner's flavour and its outcome IS
    the outcome of the call (verified per runner below)"""
    params = dict(self=BaseR, payload=TFn(Payload.contract))
    has_events = True

    def emits(c, ctx, self, payload):
        ctx.emit("run_payload", self, payload)

    delegate = _call_payload


def _passes_through(c, payload_term, first, result=None, exc=None):
    """events from index `first`: the payload is called exactly once, and its outcome is the outcome of this call"""
    e0, e1 = c.event_at(first), c.event_at(first + 1)
    called = c.And(c.n_events() == first + 2, Event.e_kind(e0) == c.ctx.E.event_kind("payload"), Event.e_a(e0) == payload_term)
    if exc is None:
        return c.And(called, Event.e_kind(e1) == c.ctx.E.event_kind("returned"), Event.e_b(e1) == (result.t if result is not None else Z.NONE))
    return c.And(called, Event.e_kind(e1) == c.ctx.E.event_kind("raised"), Event.e_b(e1) == exc.t)


@contract(RUN + "thread_runner:ThreadRunner.run_payload", props=["C10", "C11"])
class thread_run_payload:
    params = dict(self=ThreadR, payload=Payload)
    has_events = True
    result = TAny()

    def ensures(c, self, payload, result):
        return {"called-once-in-the-callers-thread-result-by-identity": _passes_through(c, payload.t, 0, result=result)}

    raises = {"BaseException": lambda c, self, payload, exc: _passes_through(c, payload.t, 0, exc=exc)}


def _on_own_loop(c, self):
    return c.And(ev_kind(c, 0, "run_coroutine_threadsafe"), Event.e_a(c.event_at(0)) == self.asyncio_loop.t, c.event_at(1) == c.event("on-loop-thread", self.asyncio_loop),
                 Event.e_kind(c.event_at(2)) == c.ctx.E.event_kind("payload"), c.n_events() == 4)


@contract(RUN + "asyncio_runner:AsyncioRunner.run_payload#on-the-loop-thread", props=["C11"], body_key=RUN + "asyncio_runner:AsyncioRunner.run_payload")
class asyncio_run_payload_confined:
    """C11's part of execute: whatever the outcome, the coroutine runs on the runner's own loop (thread), nowhere else
    (the outcome-identity clause of the same function belongs to C10)"""
    params = dict(self=AsyncR, payload=APayload)
    has_events = True
    result = TAny()

    def ensures(c, self, payload, result):
        return {"submitted-to-the-runners-own-loop-and-run-there-once": _on_own_loop(c, self)}

    raises = {"BaseException": lambda c, self, payload, exc: _on_own_loop(c, self)}


@contract(RUN + "asyncio_runner:AsyncioRunner.run_payload", props=["C10"])
class asyncio_run_payload:
    params = dict(self=AsyncR, payload=APayload)
    has_events = True
    result = TAny()

    def ensures(c, self, payload, result):
        return {"submitted-to-the-runners-own-loop": c.And(ev_kind(c, 0, "run_coroutine_threadsafe"), Event.e_a(c.event_at(0)) == self.asyncio_loop.t,
                                                           c.event_at(1) == c.event("on-loop-thread", self.asyncio_loop)),
                "called-once-result-by-identity": _passes_through(c, payload.t, 2, result=result)}

    raises = {"BaseException": lambda c, self, payload, exc: c.And(ev_kind(c, 0, "run_coroutine_threadsafe"), Event.e_a(c.event_at(0)) == self.asyncio_loop.t,
                                                                   _passes_through(c, payload.t, 2, exc=exc))}
    # the one outcome of asyncio's hand-over in which the caller does NOT get the very exception object (see known_findings.json)
    known = {"raises": ("C10-asyncio-recreates-timeouterror", ("decision", "concurrent-future-recreates-exception", 1))}


TrioR2 = TObj(RUN + "trio_runner:TrioRunner", asyncio_loop=ALoop, _logger=PyLogger, _stopped=TEvent, _ready=TAny(), _trio_token=TOpt(TRef()), _submit_tasks=TOpt(TRef()))


@contract(RUN + "trio_runner:TrioRunner.run_payload", props=["C10", "C11"])
class trio_run_payload:
    params = dict(self=TrioR2, payload=APayload)
    has_events = True
    result = TAny()

    def requires(c, self, payload):
        # published-state invariant of a runner reachable through MetaRunner._runners: token and channel are set
        return c.And(self._trio_token != None, self._submit_tasks != None)

    def ensures(c, self, payload, result):
        return {"runs-in-the-single-trio-run-of-this-runner": c.event_at(0) == c.event("in-trio-thread", self._trio_token),
                "called-once-result-by-identity": _passes_through(c, payload.t, 1, result=result)}

    def _r(c, self, payload, exc):
        return c.Or(c.And(c.event_at(0) == c.event("in-trio-thread", self._trio_token), _passes_through(c, payload.t, 1, exc=exc)),
                    # preconditions of trio.from_thread.run (the property excludes same-flavour calls and a finished runtime)
                    c.And(c.n_events() == 1, c.Or(ev_kind(c, 0, "from_thread.run-finished"), ev_kind(c, 0, "from_thread.run-same-thread"), ev_kind(c, 0, "from_thread.run-cancelled"))))

    raises = {"BaseException": _r}


@contract(RUN + "meta_runner:MetaRunner.run_payload", props=["C10", "C11"])
class meta_run_payload:
    params = dict(self=MetaR, payload=Payload, flavour=TAny())
    transparent = True      # callers (execute) are verified through its real body
    has_events = True
    result = TAny()

    def requires(c, self, payload, flavour):
        return self._runners.has(flavour)      # "it is an error to call it before the runners are started"

    def ensures(c, self, payload, flavour, result):
        return {"delegates-to-the-runner-of-the-requested-flavour": c.event_at(0) == c.event("run_payload", self._runners[flavour], payload)}

    raises = {"BaseException": lambda c, self, payload, flavour, exc: c.event_at(0) == c.event("run_payload", self._runners[flavour], payload)}


SvcR = TObj(RUN + "service:ServiceRunner", _logger=PyLogger, _meta_runner=MetaR, _must_shutdown=TBool(), _is_shutdown=TEvent, running=TEvent, accept_delay=NumFin)
Payload2 = payload_type("payload", arity=2)


def _some_args(ctx):
    from pyvc.values import VTuple, SV
    from pyvc.engine import fresh_val
    # both shapes of a call: no arguments at all, or a representative argument list (2 positional + 1 keyword)
    ctx.ghost["with_args"] = ctx.choose(2, "argument-list") == 1
    return VTuple([SV(fresh_val("a0")), SV(fresh_val("a1"))]) if ctx.ghost["with_args"] else VTuple([])


def _some_kwargs(ctx):
    from pyvc.values import VDict, SV
    from pyvc.engine import fresh_val
    return VDict({"k": SV(fresh_val("kv"))}) if ctx.ghost["with_args"] else VDict({})


def _payload_call_event(c, payload, args, kwargs, k):
    e = c.event_at(k)
    with_args = len(args) > 0
    return c.And(Event.e_kind(e) == c.ctx.E.event_kind("payload"), Event.e_a(e) == payload.t,
                 Event.e_b(e) == (args[0].t if with_args else Z.NONE), Event.e_c(e) == (args[1].t if with_args else Z.NONE),
                 Event.e_d(e) == (kwargs["k"].t if with_args else Z.NONE))


@contract(RUN + "service:ServiceRunner.execute", props=["C10"])
class execute:
    """the payload is run exactly once with exactly the given arguments in the requested flavour's runner; the caller gets
    the very object returned / the very exception raised; NOTHING of the runtime is written (empty frame): in particular
    no failure is recorded and nobody is cancelled"""
    params = {"self": SvcR, "payload": Payload2, "args": _some_args, "flavour": TAny(), "kwargs": _some_kwargs}
    has_events = True
    result = TAny()

    def requires(c, self, payload, args, flavour, kwargs):
        return self._meta_runner._runners.has(flavour)

    def ensures(c, self, payload, args, flavour, kwargs, result):
        runner = self._meta_runner._runners[flavour]
        return {
            "handed-to-the-runner-of-the-requested-flavour": c.And(ev_kind(c, 0, "run_payload"), Event.e_a(c.event_at(0)) == runner.t),
            "called-exactly-once-with-exactly-the-arguments": c.And(c.n_events() == 3, _payload_call_event(c, payload, args, kwargs, 1)),
            "returns-the-very-object": c.event_at(2) == c.event("returned", payload, result),
        }

    def _r(c, self, payload, args, flavour, kwargs, exc):
        return c.And(c.n_events() == 3, ev_kind(c, 0, "run_payload"), _payload_call_event(c, payload, args, kwargs, 1), c.event_at(2) == c.event("raised", payload, exc))

    raises = {"BaseException": _r}


# ================================================================================ registration (C03)
@contract(RUN + "base_runner:BaseRunner.register_payload", props=["C03"], skip_body=True, kind="abstract")
class base_register_payload:
    """interface of runner.register_payload(payload): hands the payload to the runner exactly once (one `register_payload`
    event) and RAISES NOTHING (verified per runner below)"""
    params = dict(self=BaseR, payload=TAny())
    has_events = True

    def emits(c, ctx, self, payload):
        ctx.emit("register_payload", self, payload)


@contract(RUN + "thread_runner:ThreadRunner.register_payload", props=["C03", "C02", "C11"])
class thread_register:
    """one fresh DAEMON thread per payload, running the monitor wrapper on it; the thread is never joined"""
    params = dict(self=ThreadR, payload=Payload)
    has_events = True

    def ensures(c, self, payload):
        return {"exactly-one-daemon-thread-running-the-monitor-on-the-payload": c.events_are(
            c.event("thread.start", c.bound_method(self, RUN + "thread_runner:ThreadRunner._monitor_payload"), payload, True))}


@contract(RUN + "asyncio_runner:AsyncioRunner.register_payload", props=["C03", "C11"])
class asyncio_register:
    """threadsafe hand-over to the loop thread: _setup_payload(payload) is scheduled exactly once on the runner's own loop"""
    params = dict(self=AsyncR, payload=APayload)
    has_events = True

    def ensures(c, self, payload):
        return {"scheduled-once-on-the-runners-loop": c.events_are(
            c.event("call_soon_threadsafe", self.asyncio_loop, c.bound_method(self, RUN + "asyncio_runner:AsyncioRunner._setup_payload"), payload))}


@contract(RUN + "asyncio_runner:AsyncioRunner._setup_payload", props=["C03", "C11"])
class asyncio_setup:
    params = dict(self=AsyncR, payload=APayload)
    has_events = True

    def writes(c, self, payload):
        return [(self._tasks, "$len"), (self._tasks, "$item")]

    def ensures(c, self, payload):
        e0 = c.event_at(0)
        return {"one-task-running-the-monitor-on-the-payload-tracked-for-cancellation": c.And(
            c.n_events() == 2, e0 == c.event("create_task", self.asyncio_loop, RUN + "asyncio_runner:AsyncioRunner._monitor_payload", self, payload),
            ev_kind(c, 1, "tasks.add"), Event.e_a(c.event_at(1)) == self._tasks.t)}


TrioR3 = TObj(RUN + "trio_runner:TrioRunner", asyncio_loop=ALoop, _logger=PyLogger, _stopped=TEvent, _ready=TAny(), _trio_token=TOpt(TRef()), _submit_tasks=TOpt(Chan))


@contract(RUN + "trio_runner:TrioRunner.register_payload", props=["C03", "C11", "C02"])
class trio_register:
    """the payload is sent into the trio thread exactly once, or - only when the trio run is over, cancelled or its channel
    already closed (the runtime is shutting down) - discarded; NOTHING is raised in any of these states"""
    params = dict(self=TrioR3, payload=APayload)
    has_events = True

    def requires(c, self, payload):
        # published-state invariant of a runner reachable through MetaRunner._runners: token and channel are set (the channel by its first handle,
        # as open_memory_channel returned it)
        return c.And(self._trio_token != None, self._submit_tasks != None, Z.is_none(z3.Select(c.ctx.rd(c.old_heap, "clone_of"), Z.Val.id(self._submit_tasks.t))))

    def ensures(c, self, payload):
        ch, tok = self._submit_tasks, self._trio_token
        sent, failed = c.event("chan.send", ch, payload), c.event("chan.send-failed", ch, payload)
        in_trio, same = c.event("in-trio-thread", tok), c.event("from_thread.run-same-thread", tok)
        return {
            "sent-exactly-once-or-discarded-only-because-the-trio-side-is-finishing": c.Or(
                c.events_are(in_trio, sent),                                   # handed over from another thread
                c.events_are(same, sent),                                      # called inside the trio thread: sent directly
                c.events_are(c.event("from_thread.run-finished", tok)),        # trio run is over: discarded
                c.events_are(c.event("from_thread.run-cancelled", tok)),       # cancelled: discarded
                c.events_are(in_trio, failed), c.events_are(same, failed)),    # channel already closed (shutting down): discarded
            "no-clone-of-the-send-side-is-left-open": every_clone_made_here_is_closed(c),
        }
    # raises = {}: adopt must not raise, also while trio is finishing its payloads' cleanup


# ================================================================================ MetaRunner.register_payload / adopt (C03)
from pyvc.repo import ExternalRef as _ER
from pyvc.values import PartialFn

PayloadSeq = TSeq(TAny(), "tuple")
QueueList = TSeq(TAny(), "list")
MetaR.fields["_runner_queues"] = TMap(val=QueueList)
HEAPS = ("$mhas", "$mval", "$len", "$item")


def flavour_terms(c):
    return [c.ctx.to_val(_ER(m)).t for m in ("trio", "asyncio", "threading")]


def known_flavour(c, flavour):
    return c.Or(*[flavour.t == t for t in flavour_terms(c)])


@contract(RUN + "meta_runner:MetaRunner.register_payload", props=["C03"])
class meta_register:
    announce = True
    """with a runner for the flavour: every payload is handed to THAT runner exactly once, in order, and nothing is queued;
    before the runners exist: the payloads are appended to the flavour's queue, in order; for the three flavours of the
    runtime it never raises, in any state"""
    params = dict(self=MetaR, payloads=PayloadSeq, flavour=TAny())
    has_events = True

    def writes(c, self, payloads, flavour):
        # containers change only when the payloads are QUEUED (no runner yet and not running); handing them to a runner, or discarding
        # them while shutting down, writes nothing
        idle = c.And(c.Not(self._runners.has(flavour)), c.Not(flag(self.running, "isset")))
        return [("all", f, lambda x, idle=idle: idle) for f in HEAPS]

    def ensures(c, self, payloads, flavour):
        s0 = c.old(self)
        ps = c.old(payloads)
        m = ps.len
        present = s0._runners.has(flavour)
        runner = s0._runners[flavour]
        q0 = s0._runner_queues[flavour]
        q1 = c.new(s0)._runner_queues[flavour]
        len0 = z3.If(s0._runner_queues.has(flavour), q0.len, 0)
        unchanged = c.And(*[c.ctx.rd(c.new_heap, f) == c.ctx.rd(c.old_heap, f) for f in HEAPS])
        idle = c.And(c.Not(present), c.Not(flag(s0.running, "isset")))         # before the runners exist: queue
        closing = c.And(c.Not(present), flag(s0.running, "isset"))            # still running but runners already closed
        return {
            "only-while-shutting-down-a-payload-is-discarded": c.Implies(closing, c.And(c.no_events(), unchanged)),
            "with-a-runner-each-payload-is-handed-to-it-exactly-once-in-order": c.Implies(present, c.And(
                c.n_events() == m, c.for_each("j", lambda j: c.Implies(c.And(0 <= j, j < m), c.event_at(j) == c.event("register_payload", runner, ps[j]))))),
            "with-a-runner-nothing-is-queued": c.Implies(present, unchanged),
            "without-runners-nothing-is-started": c.Implies(idle, c.no_events()),
            "without-runners-the-flavour-has-a-queue": c.Implies(idle, c.new(s0)._runner_queues.has(flavour)),
            "without-runners-the-queue-grows-by-the-payloads": c.Implies(idle, q1.len == len0 + m),
            "without-runners-the-payloads-are-appended-in-order": c.Implies(idle, c.for_each("k", lambda k: c.Implies(c.And(0 <= k, k < m), q1.item_term(len0 + k) == ps.item_term(k)))),
            "without-runners-earlier-queued-payloads-stay": c.Implies(idle, c.for_each("k", lambda k: c.Implies(c.And(0 <= k, k < len0), q1.item_term(k) == q0.item_term(k)))),
        }

    # an unknown flavour while running is a usage error; the runtime's own three flavours never raise
    # an unknown flavour is reported (RuntimeError; or whatever rendering that unknown object's name raises - the property is about the
    # runtime's own three flavours, for which nothing may be raised)
    raises = {"RuntimeError": lambda c, self, payloads, flavour, exc: c.And(c.Not(c.old(self)._runners.has(flavour)), c.Not(known_flavour(c, flavour))),
              "TypeError": lambda c, self, payloads, flavour, exc: c.And(c.Not(c.old(self)._runners.has(flavour)), c.Not(known_flavour(c, flavour)))}

    loops = {
        0: Loop(
            inv=lambda c, L, i: {
                "payloads-so-far-handed-over-once-each-in-order": c.And(c.n_events() == i, c.for_each("j", lambda j: c.Implies(
                    c.And(0 <= j, j < i), c.event_at(j) == c.event("register_payload", L.runner, c.old(c.seq)[j])))),
                "nothing-queued": c.And(*[c.ctx.rd(c.new_heap, f) == c.ctx.rd(c.old_heap, f) for f in HEAPS]),
            },
            modifies=lambda c, L: [("trace",)],
            local_types={"payload": TAny()},
        )
    }


# ================================================================================ adopt / services (C03, C12)
def _registered_object_ok(c, term, payload, args, kwargs):
    """the object handed on is the payload itself (no arguments) or functools.partial(payload, *args, **kwargs)
    (assumed contract of partial: partial(f,*a,**k)() == f(*a,**k); partial objects are identified by (f, a, k))"""
    if len(args) == 0 and not kwargs:
        return term == payload.t
    bound = PartialFn(SV(payload.t, payload.ty), [SV(a.t) for a in args], {k: SV(v.t) for k, v in kwargs.items()})
    return term == c.ctx.to_val(bound).t


@contract(RUN + "service:ServiceRunner.adopt", props=["C03"])
class adopt:
    """adopt hands exactly one object on - the payload, or partial(payload, *args, **kwargs) - to the runner of the requested
    flavour, or queues it before the runners exist; it returns None and raises nothing for the runtime's three flavours"""
    params = {"self": SvcR, "payload": Payload2, "args": _some_args, "flavour": TAny(), "kwargs": _some_kwargs}
    has_events = True

    def requires(c, self, payload, args, flavour, kwargs):
        return known_flavour(c, flavour)

    def ghost_call(c, ctx, self, payload, args, flavour, kwargs):
        # (read by accept's contract) the shutdown request as it stands when something is adopted
        ctx.ghost.setdefault("c12_flag_when_adopting", []).append(z3.Select(ctx.field_array("_must_shutdown"), Z.Val.id(self.t)))
    ghost_call = staticmethod(ghost_call)

    def writes(c, self, payload, args, flavour, kwargs):
        return [("all", f, lambda x: True) for f in HEAPS]

    def ensures(c, self, payload, args, flavour, kwargs):
        m0 = c.old(self)._meta_runner
        present = m0._runners.has(flavour)
        runner = m0._runners[flavour]
        idle = c.And(c.Not(present), c.Not(flag(m0.running, "isset")))
        q1 = c.new(m0)._runner_queues[flavour]
        len0 = z3.If(m0._runner_queues.has(flavour), m0._runner_queues[flavour].len, 0)
        # the trace of adopt: the marker of its one call of MetaRunner.register_payload (that contract announces its calls), then what that call
        # does - one `register_payload` event at the flavour's runner, or nothing
        e0, e1 = c.event_at(0), c.event_at(1)
        one_call = c.And(c.n_events() >= 1, Event.e_kind(e0) == c.ctx.E.event_kind("call"), Event.e_a(e0) == c.ctx.to_val(RUN + "meta_runner:MetaRunner.register_payload").t,
                         Event.e_b(e0) == m0.t)
        return {
            "exactly-one-call-of-the-meta-runners-register_payload": one_call,
            "running-runtime-the-bound-payload-goes-to-the-runner-of-the-requested-flavour-exactly-once": c.Implies(present, c.And(
                c.n_events() == 2, Event.e_kind(e1) == c.ctx.E.event_kind("register_payload"), Event.e_a(e1) == runner.t,
                _registered_object_ok(c, Event.e_b(e1), payload, args, kwargs))),
            "before-start-nothing-is-started-yet": c.Implies(idle, c.n_events() == 1),
            "before-start-queued-exactly-once": c.Implies(idle, q1.len == len0 + 1),
            "before-start-the-bound-payload-is-what-is-queued-under-its-flavour": c.Implies(idle, _registered_object_ok(c, q1.item_term(len0), payload, args, kwargs)),
            "discarded-only-while-shutting-down": c.Implies(c.And(c.Not(present), c.Not(idle)), c.n_events() == 1),
        }
    # raises = {}


SvcObj = TAbs("Service", fields=dict(run=TAny()), events=False)
def _deref_after(c, ctx, outcome, value, self):
    if outcome == "return":
        ctx.ghost.setdefault("c03_dereferenced", []).append(value)


_deref = amethod("weakref.ref.__call__", {"self": None}, doc="weakref: returns the referent or None", result=TOpt(SvcObj), emits_after=_deref_after)
WeakRef = TFn(_deref)
_deref.params["self"] = WeakRef
Unit = TObj(RUN + "service:ServiceUnit", service=WeakRef, flavour=TAny(), _started=TBool())


@contract(RUN + "service:ServiceUnit.start", props=["C03"])
class unit_start:
    announce = True
    """a live service is marked started and its run method is handed on exactly once in the unit's flavour; a collected one is skipped"""
    params = dict(self=Unit, runner=MetaR)
    has_events = True

    def requires(c, self, runner):
        return known_flavour(c, self.flavour)

    def writes(c, self, runner):
        return [(self, "_started")] + [("all", f, lambda x: True) for f in HEAPS]

    def ensures(c, self, runner):
        r0 = c.old(runner)
        fl = c.old(self).flavour
        present = r0._runners.has(fl)
        e0, e1 = c.event_at(0), c.event_at(1)       # e0: the marker of the one call of MetaRunner.register_payload (announced), e1: what it does
        alive = Z.Val.b(self._started.t)
        svc = Z.Val.b(c.old(self)._started.t)
        return {
            "started-flag-only-ever-rises": c.Implies(svc, alive),
            "a-started-unit-with-running-runtime-registered-its-run-method-exactly-once-in-its-flavour": c.Implies(
                c.And(alive, c.Not(svc), present), c.And(c.n_events() == 2, Event.e_kind(e0) == c.ctx.E.event_kind("call"), Event.e_b(e0) == r0.t,
                                                       Event.e_kind(e1) == c.ctx.E.event_kind("register_payload"), Event.e_a(e1) == r0._runners[fl].t)),
            # (whatever the service object is like - also one that is falsy, e.g. an empty container - it is started; only a collected one is not)
            "a-service-that-is-still-alive-is-started": c.And(*[c.Implies(c.Not(Z.is_none(v.t)), alive) for v in c.ctx.ghost.get("c03_dereferenced", [])]) if (getattr(c, "mode", None) == "prove" and not getattr(c.ctx, "concrete", False)) else True,
            "a-collected-service-is-skipped": c.Implies(c.And(c.Not(alive), c.Not(svc)), c.And(c.no_events(), *[c.ctx.rd(c.new_heap, f) == c.ctx.rd(c.old_heap, f) for f in HEAPS])),
        }


# ================================================================================ accept loop / shutdown (C12)
SvcR2 = SvcR


@contract(RUN + "service:ServiceRunner._adopt_services", props=["C03", "C12"], skip_body=True, kind="abstract")
class adopt_services_iface:
    """one sweep over the service units: starts each unit that is not yet started (verified separately below);
    raises nothing for the runtime's flavours"""
    params = dict(self=SvcR)
    has_events = True

    def writes(c, self):
        return [("all", "_started", lambda x: True)] + [("all", f, lambda x: True) for f in HEAPS]

    def emits(c, ctx, self):
        ctx.emit("sweep", self)


@contract(RUN + "service:ServiceRunner._accept_services", props=["C12"])
class accept_services:
    """the accept loop: announces running / not-shut-down, sweeps the services once per iteration with exactly one trio
    checkpoint (sleep) per iteration, re-reads the shutdown flag at every loop head and NEVER writes it; on EVERY exit -
    flag seen, cancellation (absorbed: returns None), failure of a sweep (propagates) - `running` is cleared and
    `_is_shutdown` set"""
    params = dict(self=SvcR)
    has_events = True
    result = TNone()

    def requires(c, self):
        return c.And(self.accept_delay >= 0, self.running != self._is_shutdown)

    def writes(c, self):
        # in particular NOT _must_shutdown: a shutdown request that arrives at any time is never overwritten here
        return [(self.running, "isset"), (self._is_shutdown, "isset"), ("all", "_started", lambda x: True)] + [("all", f, lambda x: True) for f in HEAPS + ("supply", "demand", "utilisation", "allocation")]

    def ensures(c, self):
        return {"on-return-running-is-cleared-and-shutdown-is-signalled": c.And(c.Not(flag(self.running, "isset")), flag(self._is_shutdown, "isset")),
                "starts-by-announcing-not-shut-down-then-running": c.And(c.event_at(0) == c.event("event.clear", self._is_shutdown), c.event_at(1) == c.event("event.set", self.running)),
                "ends-by-clearing-running-then-signalling-shutdown": c.And(c.event_at(c.n_events() - 2) == c.event("event.clear", self.running),
                                                                          c.event_at(c.n_events() - 1) == c.event("event.set", self._is_shutdown))}

    raises = {"BaseException": lambda c, self, exc: c.And(c.Not(exc.isa("trio.Cancelled")), c.Not(flag(self.running, "isset")), flag(self._is_shutdown, "isset"))}

    loops = {
        0: Loop(
            inv=lambda c, L, k: {
                "same-runner-and-delays": c.And(c.unchanged(L.self, "_meta_runner", "_is_shutdown", "running", "accept_delay", "_logger"),
                                                L.max_delay.same(c.old(L.self).accept_delay), L.delay >= 0, L.increase >= 0, L.max_delay >= 0, L.delay <= L.max_delay),
            },
            # other threads may set the shutdown flag at any time, services appear, pools move
            modifies=lambda c, L: [("all", "_must_shutdown", lambda x: True), ("all", "_started", lambda x: True), ("trace",)] + [("all", f, lambda x: True) for f in HEAPS + ("supply", "demand", "utilisation", "allocation")],
            local_types={"delay": NumFin},
            step=lambda c, L, L0: {
                "a-sweep-happens-only-if-the-flag-was-not-set-at-the-loop-head": c.Not(Z.Val.b(c.old(L.self)._must_shutdown.t)),
                "one-sweep-then-exactly-one-checkpoint-per-iteration": c.events_are(c.event("sweep", L.self), c.event("sleep", L0.delay)),
                "delay-grows-up-to-the-configured-maximum": c.And(L.delay <= L.max_delay, L.delay >= L0.delay),
            },
        )
    }


@contract(RUN + "service:ServiceRunner.shutdown", props=["C12"])
class shutdown:
    """requests shutdown, waits until the accept loop has signalled that it ended, then stops every runner"""
    params = dict(self=SvcR)
    has_events = True

    def writes(c, self):
        return [(self, "_must_shutdown"), (self._is_shutdown, "isset")] + [("all", f, lambda x: True) for f in HEAPS]

    def ensures(c, self):
        return {"flag-first-then-wait-for-the-loop-then-stop": c.And(c.n_events() == 2, c.event_at(0) == c.event("event.wait", self._is_shutdown), c.event_at(1) == c.event("stop", self._meta_runner)),
                "request-recorded": Z.Val.b(self._must_shutdown.t)}


@contract(RUN + "meta_runner:MetaRunner.stop", props=["C12", "C02"], skip_body=True, kind="abstract")
class meta_stop_iface:
    """stop(): stops every runner (verified below)"""
    params = dict(self=MetaR)
    has_events = True

    def emits(c, ctx, self):
        ctx.emit("stop", self)

    def writes(c, self):
        return [("all", f, lambda x: True) for f in HEAPS]


def _request_withdrawn(c):
    """ "after accept has ended in any way a runner can accept again": a shutdown request left over from the previous run is withdrawn BEFORE
    the accept loop (which polls it) is adopted"""
    flags = c.ctx.ghost.get("c12_flag_when_adopting", [])
    return c.And(*[c.Not(Z.Val.b(f)) for f in flags]) if flags else False


@contract(RUN + "service:ServiceRunner.accept", props=["C12", "C01"])
class accept:
    """K6: resets the shutdown request, adopts the accept loop as a trio payload, then runs the meta runner: accept ends exactly
    as MetaRunner.run() ends"""
    params = dict(self=SvcR)
    has_events = True
    result = TAny()

    def writes(c, self):
        return [(self, "_must_shutdown"), (self._meta_runner.running, "isset"), (self._meta_runner, "_runners"), ("all", "$ghost_loop_exc", lambda x: True)] + [("all", f, lambda x: True) for f in HEAPS]

    def ensures(c, self, result):
        le = c.view_term(z3.Select(c.ctx.rd(c.new_heap, "$ghost_loop_exc"), 0), TExc(), c.new_heap)
        out = {"returns-only-as-run-returns": c.Or(Z.is_none(le.t), le.isa("KeyboardInterrupt"))}
        if (getattr(c, "mode", None) == "prove" and not getattr(c.ctx, "concrete", False)):
            out["an-earlier-shutdown-request-is-withdrawn-before-the-accept-loop-is-adopted"] = _request_withdrawn(c)
        return out

    def _as_run(c, self, exc):
        le = c.view_term(z3.Select(c.ctx.rd(c.new_heap, "$ghost_loop_exc"), 0), TExc(), c.new_heap)
        cause = z3.Select(c.ctx.rd(c.new_heap, "__cause__"), exc.id)
        return c.And(c.Not(Z.is_none(le.t)), c.Not(le.isa("KeyboardInterrupt")),
                     c.Implies(le.isa("Exception"), c.And(exc.cls_is("RuntimeError"), cause == le.t)),
                     c.Implies(c.Not(le.isa("Exception")), exc.t == le.t))

    raises = {"BaseException": _as_run}


def _hold_the_guard(ctx, I, fn, bound):
    """after decoration: another accept is active, i.e. the guard that @exclusive() created for accept is held"""
    from pyvc.values import Closure as _Cl

    guards = []
    for f in (fn if isinstance(fn, list) else [fn]):
        env = {}
        for fr in getattr(f, "env", []):
            env.update(fr)
        if env.get("fnc_guard") is not None:
            guards.append(env["fnc_guard"])
    ctx.ghost["c12_guards"] = guards          # every guard an @exclusive() in this class created: all held by the active accept
    for g in guards:
        ctx.store_raw(ctx.ref_id(g), "held", Z.mk_bool(True))


@contract(RUN + "service:ServiceRunner.accept#while-another-accept-is-active", props=["C12"], body_key=RUN + "service:ServiceRunner.accept")
class accept_rejected:
    """accept AS DECORATED (the real `exclusive` decorator is run on it), called while another accept holds its guard: RuntimeError, and the
    runner it was called on - possibly the active one, with a shutdown in flight - is left exactly as it was: no attribute of any existing
    object is written, nothing is adopted, nothing is run"""
    decorated = True
    after_decoration = staticmethod(_hold_the_guard)
    params = dict(self=SvcR)
    has_events = True
    never_returns = True

    def writes(c, self):
        return []

    def _only_the_refused_acquire(c, self, exc):
        gs = c.ctx.ghost.get("c12_guards") or []
        if not gs:
            return False           # nothing in this class is guarded at all
        return c.And(exc.isa("RuntimeError"), c.Or(*[c.events_are(c.event("acquire", c.view(g, c.new_heap))) for g in gs]))

    raises = {"RuntimeError": _only_the_refused_acquire}


# ================================================================================ service sweep / queue flush (C03)
Units = TSeq(Unit, "set")


@contract(RUN + "service:ServiceUnit.units", props=["C03"], skip_body=True, kind="abstract")
class units_iface:
    """ServiceUnit.units(): a snapshot of the live units, each once (assumed: set(ws.data) is GIL-atomic; weak references
    to collected units yield None and are dropped); every unit's flavour is one of the runtime's three"""
    params = {"cls": None}
    result = Units
    fresh_result = True

    def ensures(c, cls, result):
        return c.And(result.distinct(), c.forall("j", lambda j: c.Implies(c.And(0 <= j, j < result.len), known_flavour(c, result[j].flavour))))

    def emits_after(c, ctx, outcome, value, cls):
        ctx.ghost.setdefault("units_results", []).append(value)     # ghost only: which snapshot a caller obtained


ServiceRunnerSweep = TObj(RUN + "service:ServiceRunner", _logger=PyLogger, _meta_runner=MetaR, _must_shutdown=TBool(), _is_shutdown=TEvent, running=TEvent, accept_delay=NumFin)


def started(view):
    return Z.Val.b(view._started.t)


@contract(RUN + "service:ServiceRunner._adopt_services#body", props=["C03"], body_key=RUN + "service:ServiceRunner._adopt_services")
class adopt_services:
    """one polling cycle: every unit that is not yet started is started (ServiceUnit.start) exactly once; units already
    started are skipped, so a second cycle cannot start anything twice"""
    params = dict(self=SvcR)
    has_events = True

    def writes(c, self):
        return [("all", "_started", lambda x: True)] + [("all", f, lambda x: True) for f in HEAPS]

    def ensures(c, self):
        snaps = c.ctx.ghost.get("units_results", [])
        done = c.loop_done(0)
        return {"the-cycle-enumerates-ONE-fresh-snapshot-of-the-live-units-and-gives-every-unit-its-iteration": (done == snaps[0].t) if done is not None and len(snaps) == 1 else False}

    loops = {
        0: Loop(
            inv=lambda c, L, i: {"same-runner": c.unchanged(L.self, "_meta_runner", "_logger")},
            # the snapshot of units being iterated is a fresh set that nobody else can reach: it is not modified
            modifies=lambda c, L: [("all", "_started", lambda x: True), ("trace",)] + [("all", f, lambda x: x != c.seq.id) for f in HEAPS],
            local_types={"unit": Unit},
            # one iteration = one unit: a unit that is already started is skipped (so a second polling cycle cannot start it
            # twice); a unit that is not yet started is started (ServiceUnit.start, which sets the flag) - exactly one call
            step=lambda c, L, L0: {
                "an-already-started-unit-is-skipped": c.Implies(started(c.old(L.unit)), c.no_events()),
                "a-not-yet-started-unit-is-started-with-this-runtimes-meta-runner": c.Implies(
                    c.Not(started(c.old(L.unit))), c.event_at(0) == c.event("call", RUN + "service:ServiceUnit.start", L.unit, c.old(L.self)._meta_runner)),
            },
        )
    }


# ================================================================================ queue flush (C03)
@contract(RUN + "meta_runner:MetaRunner._unqueue_payloads#body", props=["C03"], body_key=RUN + "meta_runner:MetaRunner._unqueue_payloads")
class unqueue_payloads:
    """after launch every queue is handed - as one call, in queue order - to register_payload under ITS OWN flavour, then
    emptied; finally no queue is left (so nothing can be registered twice)"""
    params = dict(self=MetaR)
    has_events = True

    def requires(c, self):
        return c.And(flag(self.running, "isset"), self._runner_queues.wf())

    def writes(c, self):
        return [("all", f, lambda x: True) for f in HEAPS]

    def ensures(c, self):
        return {"no-queue-left": self._runner_queues.keys.len == 0}

    # a queued flavour without runner is reported (RuntimeError - or the TypeError of rendering that unknown object's name - from
    # register_payload); the runtime's own flavours never raise
    raises = {"RuntimeError": lambda c, self, exc: True, "TypeError": lambda c, self, exc: True}

    loops = {
        0: Loop(
            inv=lambda c, L, i: {"same-queues-object": c.unchanged(L.self, "_runner_queues", "_runners", "running", "_logger"),
                                 "still-running": flag(L.self.running, "isset")},
            modifies=lambda c, L: [("trace",)] + [("all", f, lambda x: x != L.self._runner_queues.id) for f in ("$len", "$item")] + [("all", f, lambda x: x != L.self._runner_queues.id) for f in ("$mhas", "$mval")],
            local_types={"flavour": TAny(), "queue": QueueList},
            step=lambda c, L, L0: {
                "the-whole-queue-goes-to-register_payload-under-its-own-flavour": c.event_at(0) == c.event("call", RUN + "meta_runner:MetaRunner.register_payload", L.self, L.queue, L.flavour),
                "then-the-queue-is-emptied": L.queue.len == 0,
            },
        )
    }


# ================================================================================ launch (C03, C11)
TRIO_CLS = RUN + "trio_runner:TrioRunner"


def runner_ready(c, r):
    """a runner is ready to accept payloads: register_payload's precondition holds (trio: token and channel are set)"""
    tok = z3.Select(c.ctx.rd(c.new_heap, "_trio_token"), r.id)
    ch = z3.Select(c.ctx.rd(c.new_heap, "_submit_tasks"), r.id)
    return c.Implies(r.cls_is(TRIO_CLS), c.And(c.Not(Z.is_none(tok)), c.Not(Z.is_none(ch))))


def published_runners_ready(c, self):
    """published-state invariant of MetaRunner: every runner reachable through `_runners` - which other threads read in
    adopt()/execute() at ANY time - is ready to accept payloads"""
    rm = self._runners
    out = {}
    for name, t in zip(("trio", "asyncio", "threading"), flavour_terms(c)):
        out["a-published-%s-runner-is-ready" % name] = c.Implies(rm.has(t), runner_ready(c, rm[t]))
    return out


@contract(RUN + "meta_runner:MetaRunner._launch_runners#body", props=["C03", "C11"], body_key=RUN + "meta_runner:MetaRunner._launch_runners")
class launch_runners_body:
    """creates one runner per flavour on the ONE loop this coroutine runs on, starts each runner's run() as a task of that
    loop, waits until each is ready, and only then lets other threads see them"""
    params = dict(self=MetaR)
    has_events = True
    result = TaskList

    def requires(c, self):
        return published_runners_ready(c, self).get("x", True) if False else c.And(*published_runners_ready(c, self).values())

    def writes(c, self):
        return [(self, "_runners")] + [("all", f, lambda x: True) for f in HEAPS]

    published = lambda c, self: published_runners_ready(c, self)

    def ensures(c, self, result):
        rm = self._runners
        loop = z3.Const("the_running_loop", Z.Val)
        out = {"three-tasks": result.len == 3}
        for name, t in zip(("trio", "asyncio", "threading"), flavour_terms(c)):
            out["a-%s-runner-on-the-running-loop" % name] = c.And(rm.has(t), z3.Select(c.ctx.rd(c.new_heap, "asyncio_loop"), rm[t].id) == loop)
        return out

    raises = {"asyncio.CancelledError": lambda c, self, exc: True}


@contract(RUN + "trio_runner:TrioRunner.ready", props=["C03", "C11"], skip_body=True, kind="abstract")
class trio_ready:
    """RELY (the matching guarantee is proved on _manage_payloads_trio: it schedules `_ready.set` only AFTER storing the
    token and the channel): ready() returns only once the trio thread has published them"""
    params = dict(self=TObj(TRIO_CLS))
    has_events = True

    def writes(c, self):
        return [(self, "_trio_token"), (self, "_submit_tasks")]

    def ensures(c, self):
        tok = z3.Select(c.ctx.rd(c.new_heap, "_trio_token"), self.id)
        ch = z3.Select(c.ctx.rd(c.new_heap, "_submit_tasks"), self.id)
        return c.And(c.Not(Z.is_none(tok)), c.Not(Z.is_none(ch)))

    def emits(c, ctx, self):
        ctx.emit("ready", self)

    raises = {"asyncio.CancelledError": lambda c, self, exc: True}


@contract(RUN + "base_runner:BaseRunner.ready", props=["C03"], skip_body=True, kind="abstract")
class base_ready:
    """RELY (asyncio scheduling, assumed): the runner's run() task, created before, has started by the time ready() is
    awaited after a suspension point (tasks start FIFO once the creating task suspends; the trio runner, whose ready()
    suspends, comes first in runner_types), so the assertion `not _stopped` in the body holds; returns None"""
    params = dict(self=BaseR)
    has_events = True

    def emits(c, ctx, self):
        ctx.emit("ready", self)


# ================================================================================ trio runner internals (C02, C03, C11)
TrioFull = TObj(TRIO_CLS, asyncio_loop=ALoop, _logger=PyLogger, _stopped=TEvent, _ready=AEvent, _trio_token=TOpt(TRef()), _submit_tasks=TOpt(Chan))


@contract(RUN + "trio_runner:TrioRunner._manage_payloads_trio", props=["C02", "C03", "C11"])
class manage_payloads_trio:
    """inside the single trio run: publishes the run's token and a fresh channel FIRST and only then announces readiness
    (guarantee matching the rely of ready()); every received payload is started exactly once in this run's nursery; when the
    channel ends, the nursery's scope is cancelled INSIDE the nursery block, which is left only after all children finished"""
    params = dict(self=TrioFull)
    has_events = True
    result = TAny()

    def writes(c, self):
        return [(self, "_trio_token"), (self, "_submit_tasks")]

    def ensures(c, self, result):
        n = c.n_events()
        tok = z3.Const("the_trio_token", Z.Val)
        return {
            "token-of-this-run-published-once": c.And(self._trio_token.t == tok, self._trio_token != None),
            "channel-published": self._submit_tasks != None,
            "readiness-announced-after-publishing": c.And(ev_kind(c, 0, "open_memory_channel"), Event.e_a(c.event_at(0)) == self._submit_tasks.t,
                                                          ev_kind(c, 1, "call_soon_threadsafe"), Event.e_a(c.event_at(1)) == self.asyncio_loop.t),
            "cancels-all-payloads-inside-the-nursery-once-the-channel-ends": c.And(
                ev_kind(c, 2, "nursery.enter"), ev_kind(c, n - 3, "chan.end"), ev_kind(c, n - 2, "scope.cancel"), ev_kind(c, n - 1, "nursery.exit"),
                Event.e_a(c.event_at(n - 1)) == Event.e_a(c.event_at(2))),
        }

    # whatever ends the trio run, token and channel have been published before (they are stored first)
    raises = {"BaseException": lambda c, self, exc: c.And(self._trio_token != None, self._submit_tasks != None)}

    loops = {
        0: Loop(
            inv=lambda c, L, k: {"same-runner-and-nursery": c.And(
                c.unchanged(L.self, "asyncio_loop", "_ready"), L.self._trio_token.t == z3.Const("the_trio_token", Z.Val),
                c.fn_n_events() >= 3, fn_kind(c, 0, "open_memory_channel"), Event.e_a(c.fn_event_at(0)) == L.self._submit_tasks.t,
                fn_kind(c, 1, "call_soon_threadsafe"), Event.e_a(c.fn_event_at(1)) == L.self.asyncio_loop.t,
                fn_kind(c, 2, "nursery.enter"), Event.e_a(c.fn_event_at(2)) == L.nursery.t)},
            modifies=lambda c, L: [("trace",)],
            local_types={"task": TAny()},
            step=lambda c, L, L0: {
                "each-received-payload-is-started-exactly-once-in-this-nursery-through-the-monitor": c.And(
                    c.n_events() == 2, c.event_at(1) == c.event("start_soon", L.nursery, c.bound_method(L.self, RUN + "trio_runner:TrioRunner._monitor_payload"), L.task)),
            },
        )
    }


@contract(RUN + "trio_runner:TrioRunner._run_trio_blocking", props=["C11"])
class run_trio_blocking:
    """exactly one trio.run per call, of this runner's own _manage_payloads_trio, on the calling (executor) thread"""
    params = dict(self=TrioFull)
    has_events = True
    result = TAny()

    def writes(c, self):
        return [(self, "_trio_token"), (self, "_submit_tasks")]

    def ensures(c, self, result):
        return {"one-trio-run-of-this-runner": c.event_at(0) == c.event("trio.run", RUN + "trio_runner:TrioRunner._manage_payloads_trio", self),
                "token-and-channel-published": c.And(self._trio_token != None, self._submit_tasks != None)}

    # RELY for the caller's cancellation path: the await on the executor is cancelled only after ready() (the meta runner
    # awaits ready() before anything can cancel a runner task), i.e. after the trio thread has published token and channel
    raises = {"BaseException": lambda c, self, exc: c.And(c.event_at(0) == c.event("trio.run", RUN + "trio_runner:TrioRunner._manage_payloads_trio", self),
                                                          self._trio_token != None, self._submit_tasks != None)}


# ================================================================================ closing (C02)
@contract(RUN + "trio_runner:TrioRunner._aclose_trio", props=["C02"])
class aclose_trio:
    """closes the send channel (which ends the receive loop and so cancels the nursery); a cancellation while closing is absorbed"""
    params = dict(self=TrioR3)
    has_events = True

    def requires(c, self):
        return self._submit_tasks != None

    def writes(c, self):
        return [(self._submit_tasks, "closed")]

    def ensures(c, self):
        return {"close-requested-on-the-runners-channel": c.events_are(c.event("chan.aclose", self._submit_tasks))}


@contract(RUN + "trio_runner:TrioRunner.aclose", props=["C02"])
class trio_aclose:
    announce = True
    """unless the runner is already stopped, its channel is closed from inside the trio thread (through an executor thread,
    so the asyncio loop is not blocked) - or the trio run is already over; raises nothing but what the executor call raises"""
    params = dict(self=TrioR3)
    has_events = True

    def requires(c, self):
        return c.And(self._trio_token != None, self._submit_tasks != None)

    def writes(c, self):
        return [(self._submit_tasks, "closed")]

    def ensures(c, self):
        stopped = flag(c.old(self._stopped), "isset")
        tok = self._trio_token
        n = c.n_events()
        return {
            "no-op-when-already-stopped": c.Implies(stopped, c.no_events()),
            "otherwise-closed-inside-the-trio-thread-or-the-run-is-over": c.Implies(c.Not(stopped), c.And(
                ev_kind(c, 0, "run_in_executor"), Event.e_a(c.event_at(0)) == self.asyncio_loop.t,
                c.Or(c.And(n == 3, c.event_at(1) == c.event("in-trio-thread", tok), c.event_at(2) == c.event("chan.aclose", self._submit_tasks)),
                     c.And(n == 2, c.Or(c.event_at(1) == c.event("from_thread.run-finished", tok), c.event_at(1) == c.event("from_thread.run-cancelled", tok)))))),
        }

    # called from the loop thread never hits "same thread"; a bare RuntimeError would mean exactly that misuse
    raises = {"RuntimeError": lambda c, self, exc: c.event_at(1) == c.event("from_thread.run-same-thread", self._trio_token)}


@contract(RUN + "trio_runner:TrioRunner.manage_payloads", props=["C02", "C11"])
class trio_manage:
    """the trio run happens on an executor thread (never on the loop thread); its outcome is the outcome of manage_payloads;
    if the awaiting task is cancelled, the runner is closed (awaited) BEFORE the cancellation is re-raised"""
    params = dict(self=TrioFull)
    has_events = True
    result = TAny()

    def requires(c, self):
        return True

    def writes(c, self):
        return [(self, "_trio_token"), (self, "_submit_tasks"), ("all", "closed", lambda x: True)]

    def ensures(c, self, result):
        return {"trio-runs-on-an-executor-thread": c.And(ev_kind(c, 0, "run_in_executor"), Event.e_a(c.event_at(0)) == self.asyncio_loop.t,
                                                         Event.e_b(c.event_at(0)) == c.bound_method(self, RUN + "trio_runner:TrioRunner._run_trio_blocking"))}

    def _r(c, self, exc):
        call = c.ctx.E.event_kind("call")
        closed_first = has_event(c, lambda e: z3.And(Event.e_kind(e) == call, Event.e_a(e) == Z.mk_str(RUN + "trio_runner:TrioRunner.aclose"), Event.e_b(e) == self.t))
        return c.And(ev_kind(c, 0, "run_in_executor"), c.Implies(exc.isa("asyncio.CancelledError"), closed_first))

    raises = {"BaseException": _r}


@contract(RUN + "asyncio_runner:AsyncioRunner.manage_payloads", props=["C01"])
class asyncio_manage:
    """K3 (asyncio): the runner's manage task ends exactly as its failure future ends"""
    params = dict(self=AsyncR)
    has_events = True
    result = TAny()

    def writes(c, self):
        return [(self._payload_failure, "is_done"), (self._payload_failure, "stored_exc"), (self._payload_failure, "stored_res")]

    def ensures(c, self, result):
        return {"returns-only-on-graceful-close": c.And(flag(self._payload_failure, "is_done"), self._payload_failure.stored_exc == None)}

    raises = {"BaseException": lambda c, self, exc: c.Or(c.And(flag(self._payload_failure, "is_done"), self._payload_failure.stored_exc == exc), exc.isa("asyncio.CancelledError"))}


@contract(RUN + "thread_runner:ThreadRunner.aclose", props=["C02"])
class thread_aclose:
    """closing the thread runner only resolves its future (so the manage task ends): thread payloads are NOT awaited or joined -
    still-blocked daemon threads never prevent termination"""
    params = dict(self=ThreadR)
    has_events = True

    def writes(c, self):
        return [(self._payload_failure, "is_done"), (self._payload_failure, "stored_res"), (self._payload_failure, "stored_exc")]

    def ensures(c, self):
        f0 = c.old(self._payload_failure)
        stopped = flag(c.old(self._stopped), "isset")
        return {
            "no-op-when-stopped-or-already-resolved": c.Implies(c.Or(stopped, flag(f0, "is_done")), c.no_events()),
            "otherwise-the-manage-task-is-woken-gracefully": c.Implies(c.And(c.Not(stopped), c.Not(flag(f0, "is_done"))),
                                                                       c.And(c.events_are(c.event("set_result", self._payload_failure, None)), flag(self._payload_failure, "is_done"))),
        }


@contract(RUN + "asyncio_runner:AsyncioRunner.aclose", props=["C02", "C01"])
class asyncio_aclose:
    """closing the asyncio runner: the manage task is woken, then EVERY task still tracked is cancelled until none is left -
    a task leaves the set only once it is done; on normal return no tracked task remains and the failure future is resolved"""
    params = dict(self=AsyncR)
    has_events = True

    def writes(c, self):
        return [(self._payload_failure, "is_done"), (self._payload_failure, "stored_res"), (self._payload_failure, "stored_exc"),
                (self._tasks, "$len"), (self._tasks, "$item")] + [("all", f, lambda x: True) for f in ("supply", "demand", "utilisation", "allocation", "_must_shutdown", "_started", "task_done")]

    def ensures(c, self):
        early = c.And(flag(c.old(self._stopped), "isset"), c.old(self._tasks).len == 0)
        return {"no-tracked-task-remains": self._tasks.len == 0,
                "failure-future-resolved-unless-nothing-to-do": c.Or(early, flag(self._payload_failure, "is_done"))}

    raises = {"asyncio.CancelledError": lambda c, self, exc: True}

    loops = {
        # while self._tasks:
        0: Loop(
            inv=lambda c, L, k: {"same-runner-future-resolved": c.And(c.unchanged(L.self, "_tasks", "_payload_failure", "_stopped"), flag(L.self._payload_failure, "is_done"))},
            modifies=lambda c, L: [(L.self._tasks, "$len"), (L.self._tasks, "$item"), ("trace",)] + [("all", f, lambda x: True) for f in ("supply", "demand", "utilisation", "allocation", "_must_shutdown", "_started", "task_done")],
        ),
        # for task in self._tasks.copy():
        1: Loop(
            inv=lambda c, L, i: {"same-runner-future-resolved": c.And(c.unchanged(L.self, "_tasks", "_payload_failure", "_stopped"), flag(L.self._payload_failure, "is_done"))},
            # the snapshot being iterated is a fresh copy nobody else reaches
            modifies=lambda c, L: [(L.self._tasks, "$len"), (L.self._tasks, "$item"), ("trace",)],
            local_types={"task": ATask},
            step=lambda c, L, L0: {
                "a-task-that-is-not-done-is-cancelled": c.Implies(c.Not(flag(c.old(L.task), "task_done")), c.events_are(c.event("task.cancel", L.task))),
                "only-a-done-task-leaves-the-set": c.Implies(flag(c.old(L.task), "task_done"), c.event_at(0) == c.event("tasks.discard", L.self._tasks, L.task)),
            },
        ),
    }


def set_objects(c):
    """ids of `set` objects (the asyncio runner's task set is the only container a runner's aclose/stop modifies)"""
    cls = c.ctx.rd(c.old_heap, "$cls")
    cid = c.ctx.E.classes.cid("abs:$set")
    return lambda x: z3.Select(cls, x) == cid


CLOSE_FIELDS = ("is_done", "stored_res", "stored_exc", "closed", "task_done")


def close_frame(c):
    return [("all", f, lambda x: True) for f in CLOSE_FIELDS] + [("all", f, set_objects(c)) for f in ("$len", "$item")]


@contract(RUN + "base_runner:BaseRunner.aclose", props=["C02"], skip_body=True, kind="abstract")
class base_aclose_iface:
    """interface of runner.aclose() (verified per runner above): shuts the runner down; may change the runner's own state"""
    params = dict(self=BaseR)
    has_events = True
    announce = True

    def writes(c, self):
        return close_frame(c)

    raises = {"BaseException": lambda c, self, exc: True}


@contract(RUN + "base_runner:BaseRunner.stop", props=["C02", "C12"])
class base_stop:
    """stop(): a no-op for a runner that is already stopped; otherwise aclose() runs ON THE SHARED LOOP and stop blocks until it
    finished (requires: the caller is not the loop thread)"""
    params = dict(self=BaseR)
    has_events = True
    announce = True

    def writes(c, self):
        return close_frame(c)

    def ensures(c, self):
        stopped = flag(c.old(self._stopped), "isset")
        return {"no-op-when-stopped": c.Implies(stopped, c.no_events()),
                "otherwise-closes-on-the-shared-loop": c.Implies(c.Not(stopped), c.And(
                    c.event_at(0) == c.event("run_coroutine_threadsafe", self.asyncio_loop, RUN + "base_runner:BaseRunner.aclose", self),
                    c.event_at(1) == c.event("on-loop-thread", self.asyncio_loop),
                    c.event_at(2) == c.event("call", RUN + "base_runner:BaseRunner.aclose", self)))}

    # an exception leaves stop only as the outcome of aclose having RUN on the loop (stop never gives up waiting for it)
    raises = {"BaseException": lambda c, self, exc: c.And(
        c.Not(flag(c.old(self._stopped), "isset")), c.n_events() >= 3,
        c.event_at(0) == c.event("run_coroutine_threadsafe", self.asyncio_loop, RUN + "base_runner:BaseRunner.aclose", self),
        c.event_at(1) == c.event("on-loop-thread", self.asyncio_loop),
        c.event_at(2) == c.event("call", RUN + "base_runner:BaseRunner.aclose", self))}


@contract(RUN + "meta_runner:MetaRunner.stop#body", props=["C02", "C12"], body_key=RUN + "meta_runner:MetaRunner.stop")
class meta_stop:
    """stop(): every runner of the runtime is stopped, one after the other"""
    params = dict(self=MetaR)
    has_events = True

    def requires(c, self):
        return self._runners.wf()

    def writes(c, self):
        return close_frame(c)

    raises = {"BaseException": lambda c, self, exc: True}
    loops = {
        0: Loop(
            inv=lambda c, L, i: {"same-runners": c.unchanged(L.self, "_runners")},
            modifies=lambda c, L: [("trace",)] + close_frame(c),
            local_types={"runner": BaseR},
            step=lambda c, L, L0: {"each-runner-is-stopped-once": c.event_at(0) == c.event("call", RUN + "base_runner:BaseRunner.stop", L.runner)},
        )
    }


@contract(RUN + "meta_runner:MetaRunner._aclose_runners#body", props=["C02", "C01", "C12"], body_key=RUN + "meta_runner:MetaRunner._aclose_runners")
class aclose_runners:
    """EVERY runner is closed (not only the failed one), THEN all runner tasks are awaited until they are done
    (return_exceptions: their failures do not cut the wait short), and only then the runner map is emptied"""
    params = dict(self=MetaR, runner_tasks=TaskList)
    has_events = True

    def requires(c, self, runner_tasks):
        return self._runners.wf()

    def writes(c, self, runner_tasks):
        return close_frame(c) + [(self._runners, "$mhas"), (self._runners, "$len")]

    def ensures(c, self, runner_tasks):
        n = c.n_events()
        return {"all-runner-tasks-awaited-after-closing-then-the-map-is-emptied": c.And(
            c.event_at(n - 1) == c.event("gather", True), self._runners.keys.len == 0)}

    raises = {"BaseException": lambda c, self, exc: True}
    loops = {
        0: Loop(
            inv=lambda c, L, i: {"same-runners": c.unchanged(L.self, "_runners")},
            modifies=lambda c, L: [("trace",)] + close_frame(c),
            local_types={"runner": BaseR},
            step=lambda c, L, L0: {"each-runner-is-closed": c.event_at(0) == c.event("call", RUN + "base_runner:BaseRunner.aclose", L.runner)},
        )
    }


# ================================================================================ wiring facts decided on the AST (C02 f, C11)
@contract("static:runner-wiring", props=["C02", "C11"], kind="static")
class runner_wiring:
    """decided on the AST of src/cobald/daemon/runners/*.py: no thread is ever joined; the only event loops ever created are the
    one asyncio.run in MetaRunner.run and the one trio.run in TrioRunner._run_trio_blocking (so execute()/adopt() can only
    re-enter those loops, never spin up a private one)"""

    def static(E):
        import ast
        calls = {}
        joins = []
        for name, m in E.repo.modules.items():
            if not name.startswith("cobald.daemon.runners"):
                continue
            for fn in ast.walk(m.tree):
                if not isinstance(fn, (ast.FunctionDef, ast.AsyncFunctionDef)):
                    continue
                for node in ast.walk(fn):
                    if isinstance(node, ast.Call):
                        src = ast.unparse(node.func)
                        if src in ("trio.run", "asyncio.run", "asyncio.new_event_loop", "trio.lowlevel.start_guest_run") or src.endswith(".run_until_complete") or src.endswith(".run_forever"):
                            calls.setdefault(src, []).append("%s:%s" % (name.split(".")[-1], fn.name))
                        if isinstance(node.func, ast.Attribute) and node.func.attr == "join" and not isinstance(node.func.value, ast.Constant):
                            joins.append("%s:%s" % (name.split(".")[-1], fn.name))
        return {
            "no-thread-is-joined-anywhere-in-the-runners": not joins,
            "exactly-one-trio.run-in-_run_trio_blocking": calls.get("trio.run") == ["trio_runner:_run_trio_blocking"],
            "exactly-one-asyncio.run-in-MetaRunner.run": calls.get("asyncio.run") == ["meta_runner:run"],
            "no-other-event-loop-is-created-or-driven": set(calls) <= {"trio.run", "asyncio.run"},
        }


# ================================================================================ where service units come from (C03)
from pyvc import setsum as _SS
from pyvc.values import VTuple as _VT, VDict as _VD, SV as _SV
from pyvc.engine import fresh_val as _fv
import pyvc.ext_libs as _XL

REFERENT = z3.Function("weakref_referent", Z.Val, Z.Val)     # the object a weakref.ref was created for (ghost)


def _weakref_ref(I, args, kwargs):
    """weakref.ref(obj) (assumed): a new reference object; calling it yields obj while obj is alive, None afterwards"""
    ctx = I.ctx
    r = ctx.alloc(None, WeakRef)
    ctx.assume(REFERENT(r.t) == ctx.to_val(args[0]).t)
    return r


def _active_units(I):
    """ServiceUnit.__active_units__: the class-level WeakSet of all units - state shared by every call: arbitrary on entry"""
    ctx = I.ctx
    sv = ctx.ghost.get("c03_active_units")
    if sv is None:
        _SS.ensure_axioms(ctx)
        t = z3.Const("ServiceUnit_active_units", Z.Val)
        sv = ctx.typed(t, _SS.TSet(Unit))
        ctx.assume(z3.And(Z.is_refv(t), Z.Val.id(t) > 0, Z.Val.id(t) < ctx.alloc0))
        ctx.ghost["c03_active_units"] = sv
    return sv


def install(E):
    E.externals["weakref.ref"] = _weakref_ref
    E.externals["classattr:" + RUN + "service:ServiceUnit.__active_units__"] = _active_units


ServiceLike = TAbs("service-instance", fields={"__service_unit__": TAny(), "run": TAny()}, events=False)


@contract(RUN + "service:ServiceUnit.__init__", props=["C03"])
class unit_init:
    """a new unit: refers (weakly) to exactly this service, carries exactly this flavour, is not started, and is registered in the set
    of active units - which is where the polling cycle finds it"""
    params = dict(self=Unit, service=ServiceLike, flavour=TAny())
    new_object = "self"

    def requires(c, self, service, flavour):
        return known_flavour(c, flavour)

    def writes(c, self, service, flavour):
        au = c.ctx.ghost.get("c03_active_units")
        return [(self, "service"), (self, "flavour"), (self, "_started")] + ([("all", "$mhas", lambda x, a=Z.Val.id(au.t): x == a)] if au is not None else [("all", "$mhas", lambda x: True)])

    def ensures(c, self, service, flavour):
        au = c.ctx.ghost.get("c03_active_units")
        if au is None:
            return {"registered-among-the-active-units": False}
        mem = z3.Select(c.ctx.rd(c.new_heap, "$mhas"), Z.Val.id(au.t))
        mem0 = z3.Select(c.ctx.rd(c.old_heap, "$mhas"), Z.Val.id(au.t))
        # publication order: other threads (the polling cycle) find the unit through the set of active units, so it goes there LAST
        order = [f for f, kind, what in c.ctx.own_stores]
        first_pub = order.index("$mhas") if "$mhas" in order else len(order)
        complete_before = all(f in order[:first_pub] for f in ("service", "flavour", "_started"))
        return {**({"a-unit-becomes-visible-to-the-polling-cycle-only-once-it-is-complete": bool(complete_before)} if (getattr(c, "mode", None) == "prove" and not getattr(c.ctx, "concrete", False)) else {}),
                "refers-to-this-service": REFERENT(self.service.t) == service.t,
                "carries-this-flavour": self.flavour.t == flavour.t,
                "not-started-yet": c.Not(Z.Val.b(self._started.t)),
                "registered-among-the-active-units-and-nobody-else-is-touched": mem == z3.Store(mem0, self.t, z3.BoolVal(True))}

    raises = {"AssertionError": lambda c, self, service, flavour, exc: False}


def _base_new_after(c, ctx, outcome, value, self, **rest):
    ctx.ghost.setdefault("c03_base_new", []).append((outcome, value))


_base_new = amethod("base.__new__", {"self": None, "*args": None, "**kw": None}, result=ServiceLike,
                    doc="the class's original __new__ (for a subclass of an already decorated service class: the base's __new_service__, which has already "
                        "attached a unit of the BASE's flavour): returns the instance; anything may already hang on its __service_unit__",
                    emits_after=_base_new_after, raises={"BaseException": lambda c, exc, **k: True})
BaseNew = TFn(_base_new)
_base_new.params["self"] = BaseNew


@contract(RUN + "service:service.service_unit_decorator.__new_service__", props=["C03"])
class new_service:
    """creating an instance of a class decorated with @service(flavour): the instance gets ONE NEW unit of exactly the decorator's
    flavour (also when a decorated base class already attached a unit of another flavour), registered among the active units"""
    params = {"cls": lambda ctx: ctx.repo.get("cobald.controller.linear:LinearController"), "*args": lambda ctx: _VT([_SV(_fv("a0"), TAny())]), "**kwargs": lambda ctx: _VD({"k": _SV(_fv("kv"), TAny())})}
    result = TAny()
    has_events = False

    def closure_env(ctx, I, bound):
        new = ctx.typed(_fv("orig_new"), BaseNew)
        ctx.assume(z3.And(Z.Val.id(new.t) > 0, Z.Val.id(new.t) < ctx.alloc0))
        ctx.assume_class(new.t, BaseNew)
        fl = ctx.typed(_fv("flavour"), TAny())
        from pyvc.contracts import Spec
        sp = Spec(ctx, ctx.snapshot(), ctx.snapshot())
        ctx.assume(known_flavour(sp, sp.view(fl, sp.new_heap)))
        env = {"__new__": new, "flavour": fl}
        ctx.ghost["closure"] = env
        _active_units(I)
        return [env]

    def writes(c, cls, args, kwargs):
        return [("all", "__service_unit__", lambda x: True), ("all", "$mhas", lambda x: True)]

    def ensures(c, cls, args, kwargs, result):
        ctx = c.ctx
        outs = ctx.ghost.get("c03_base_new", [])
        au = ctx.ghost.get("c03_active_units")
        if len(outs) != 1 or au is None:
            return {"the-instance-comes-from-the-original-__new__": False}
        inst = outs[0][1]
        unit_t = z3.Select(ctx.rd(c.new_heap, "__service_unit__"), Z.Val.id(inst.t))
        unit = c.view_term(unit_t, Unit, c.new_heap)
        mem = z3.Select(ctx.rd(c.new_heap, "$mhas"), Z.Val.id(au.t))
        return {"the-instance-comes-from-the-original-__new__": result.t == inst.t,
                "it-carries-a-NEW-unit-of-the-decorators-flavour-for-this-very-instance": c.And(Z.is_refv(unit_t), Z.Val.id(unit_t) >= ctx.alloc0, unit.flavour.t == ctx.ghost["closure"]["flavour"].t,
                                                                                               REFERENT(unit.service.t) == inst.t, c.Not(Z.Val.b(unit._started.t))),
                "that-unit-is-among-the-active-units": z3.Select(mem, unit_t)}

    raises = {"BaseException": lambda c, cls, args, kwargs, exc: True}


@contract("cobald.daemon.debug:pretty_ref", props=["C03"], skip_body=True, kind="abstract")
class pretty_ref_iface:
    """pretty_ref(obj): the text module:qualname of the object - or, for an object whose __module__ is not a string (a bound method of
    a builtin: __module__ is None), a TypeError out of the string concatenation (assumed from reading the function; not verified)"""
    params = {"obj": TAny()}
    result = TStr()

    def _not_a_module(c, obj, exc):
        # for a MODULE (the runners' flavours: threading, asyncio, trio) the registered overload returns obj.__name__ and raises nothing
        import types as _types

        o = c.ctx.from_val(SV(obj.t, TAny())) if hasattr(obj, "t") else obj
        try:
            if isinstance(o, _ER) and isinstance(o.native(), _types.ModuleType):
                return False
        except Exception:  # noqa
            pass
        return True

    raises = {"TypeError": _not_a_module}
    exact_raises = True


@contract("static:weakset-snapshot-is-atomic", props=["C03"], kind="static")
class weakset_snapshot:
    """the ASSUMED contract of ServiceUnit.units() - `a snapshot of the live units, each once, safe against units being created or
    collected concurrently` - rests on ONE fact about CPython: set(some_set) is a single GIL-atomic call.  Decided on the AST of
    _weakset_copy: the backing set ws.data is copied by exactly that call before anything iterates, and only the copy is iterated."""

    def static(E):
        import ast
        fi = E.repo.get(RUN + "service:_weakset_copy")
        out = {"_weakset_copy-exists": fi is not None}
        if fi is None:
            return out
        body = [st for st in fi.node.body if not (isinstance(st, ast.Expr) and isinstance(st.value, ast.Constant))]
        first = body[0] if body else None
        # any single C-level copy of the backing set counts: set(x.data), frozenset(..), list(..), tuple(..), x.data.copy()
        snap = (isinstance(first, ast.Assign) and len(first.targets) == 1 and isinstance(first.targets[0], ast.Name) and isinstance(first.value, ast.Call)
                and ((ast.unparse(first.value.func) in ("set", "frozenset", "list", "tuple") and len(first.value.args) == 1 and ast.unparse(first.value.args[0]).endswith(".data"))
                     or (ast.unparse(first.value.func).endswith(".data.copy") and not first.value.args)))
        out["the-backing-set-is-copied-by-one-atomic-call-first"] = bool(snap)
        if snap:
            name = first.targets[0].id
            iterated = [ast.unparse(g.iter) for n in ast.walk(fi.node) for g in getattr(n, "generators", [])] + [ast.unparse(n.iter) for n in ast.walk(fi.node) if isinstance(n, (ast.For, ast.AsyncFor))]
            roots = [x for x in iterated if not x.startswith("(")]      # the inner generator expression is iterated by the outer one
            out["only-the-copy-is-iterated-never-the-weak-set-itself"] = all(x == name for x in roots) and not any(".data" in x for x in iterated)
            units = E.repo.get(RUN + "service:ServiceUnit.units")
            out["units()-is-that-copy-of-the-active-units"] = units is not None and "_weakset_copy(cls.__active_units__)" in ast.unparse(units.node)
        return out


# ---- the constructors: the initial state of the lifecycle ------------------------------------------------------------------------------------
def _empty_map(c, m):
    """no key at all (and an empty key sequence)"""
    return c.And(z3.Select(c.ctx.rd(m._heap, "$mhas"), m.id) == z3.K(Z.Val, z3.BoolVal(False)), m.keys.len == 0)


@contract(RUN + "meta_runner:MetaRunner.__init__", props=["C12", "C03"])
class meta_runner_init:
    """a new MetaRunner has NO runner and NO queued payload for any flavour (its own new maps) and is not running"""
    new_object = "self"
    params = dict(self=MetaR)
    transparent = True        # callers (ServiceRunner.__init__) execute these four assignments themselves

    def writes(c, self):
        return [(self, f) for f in ("_logger", "_runners", "_runner_queues", "running")]

    def ensures(c, self):
        fresh_ = lambda v: Z.Val.id(v.t) >= c.ctx.alloc0
        return {"no-runner-for-any-flavour": c.And(fresh_(self._runners), _empty_map(c, self._runners)),
                "no-payload-queued-for-any-flavour": c.And(fresh_(self._runner_queues), _empty_map(c, self._runner_queues), self._runners.t != self._runner_queues.t),
                "not-running": c.And(fresh_(self.running), c.Not(flag(self.running, "isset")))}


@contract(RUN + "service:ServiceRunner.__init__", props=["C12"])
class service_runner_init:
    """a new ServiceRunner is shut down and not running, has no shutdown pending, owns a NEW empty MetaRunner, and accepts with the given delay"""
    new_object = "self"
    params = dict(self=SvcR, accept_delay=NumFin)
    has_events = True          # the one event: _is_shutdown.set()

    def writes(c, self, accept_delay):
        return [(self, f) for f in ("_logger", "_meta_runner", "_must_shutdown", "_is_shutdown", "running", "accept_delay")] + [("all", "isset", lambda x: x >= c.ctx.alloc0)]

    def ensures(c, self, accept_delay):
        fresh_ = lambda v: Z.Val.id(v.t) >= c.ctx.alloc0
        mr = self._meta_runner
        return {"shut-down-and-not-running-two-different-events": c.And(fresh_(self._is_shutdown), fresh_(self.running), self._is_shutdown.t != self.running.t,
                                                                       flag(self._is_shutdown, "isset"), c.Not(flag(self.running, "isset"))),
                "no-shutdown-pending": c.Not(Z.Val.b(self._must_shutdown.t)),
                "owns-a-new-meta-runner": c.And(fresh_(mr), mr.cls_is(RUN + "meta_runner:MetaRunner")),
                "which-has-no-runners": _empty_map(c, mr._runners),
                "and-no-queued-payloads": _empty_map(c, mr._runner_queues),
                "and-is-not-running": c.Not(flag(mr.running, "isset")),
                "accepts-with-the-given-delay": self.accept_delay.same(accept_delay)}


@contract(RUN + "base_runner:BaseRunner.__init__#as-inherited-by-ThreadRunner", props=["C12", "C02"], body_key=RUN + "base_runner:BaseRunner.__init__")
class base_runner_init:
    """a new runner works on the loop it was given and is STOPPED (its own new event, set) until run() clears that: stop() on a runner that
    never ran is the no-op of BaseRunner.stop's contract"""
    new_object = "self"
    params = dict(self=ThreadR, asyncio_loop=ALoop)       # (BaseRunner is abstract: verified on the receiver class of one of the three runners)
    has_events = True          # the one event: _stopped.set()

    def writes(c, self, asyncio_loop):
        return [(self, f) for f in ("asyncio_loop", "_logger", "_stopped")] + [("all", "isset", lambda x: x >= c.ctx.alloc0)]

    def ensures(c, self, asyncio_loop):
        return {"works-on-the-given-loop": self.asyncio_loop.t == asyncio_loop.t,
                "starts-out-stopped-with-an-event-of-its-own": c.And(Z.Val.id(self._stopped.t) >= c.ctx.alloc0, flag(self._stopped, "isset"))}
