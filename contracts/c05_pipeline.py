"""C05 - a YAML pipeline section builds the chain it describes (DESIGN.md section 5, C05).
Three links, each under contract:
  (1) yaml_constructor.factory_constructor: a tagged node becomes factory(**mapping) / factory(*sequence) / factory(), the nested
      data constructed by the loader with deep=eager - nothing else reaches the factory;
  (2) PipelineTranslator.translate_hierarchy: the pipeline list is walked LAST TO FIRST; the last element is translated and - if it
      is a template - constructed without a target; every earlier element receives the object built for the NEXT one as its target,
      by `element >> next` for templates (C04) or as `target=` of the legacy __type__ construction (C19); the results are returned
      in configuration order; a failure anywhere propagates and nothing is returned;
  (3) load_pipeline hands the section to (2) under the key "pipeline".
Proved per shape: pipelines of length 1..3 over every assignment of the two element kinds (template / legacy mapping)."""
import itertools

from .common import *
from .runtime_lib import amethod, ANYT
from pyvc.values import VDict, VSet, VTuple, VList, SV
from pyvc.engine import fresh_val, fresh, Event, Unsupported, PyRaise
from pyvc.repo import ExternalRef
import pyvc.z as Z
from . import c04_partial as C04
from . import c19_mapping as C19

CORE = "cobald.daemon.core.config"
YAML = "cobald.daemon.config.yaml"
PT = TObj(CORE + ":PipelineTranslator")
S = z3.StringVal
_t, _tm, _b = C19._t, C04._tm, C04._b


def _translate_after(c, ctx, outcome, value, self, structure, where, **kw):
    if outcome == "return":
        ctx.emit("translated", structure, where, value)
    else:
        ctx.emit("translate-failed", structure, where)
    ctx.ghost.setdefault("c05_translations", []).append({"structure": structure, "where": where, "kwargs": dict(kw.get("construct_kwargs") or {}), "outcome": outcome, "value": value})


@contract(CORE + ":PipelineTranslator.translate_hierarchy", props=["C05", "C19"])
class pipeline_translate_interface:
    """interface assumed at the recursive call sites (one element of the pipeline): a `translated(structure, where, result)` event after
    whatever the element's own translation does - the sidecar records the extra keyword arguments (target=) - or any exception"""
    params = {"self": PT, "structure": TAny(), "where": TStr(), "**construct_kwargs": None}
    result = TAny()
    has_events = True
    skip_body = True
    emits_after = staticmethod(_translate_after)

    def ensures(c, self, structure, where, result, **kw):
        return {"only-None-translates-to-None": c.Implies(c.Not(Z.is_none(_tm(c.ctx, structure))), c.Not(Z.is_none(result.t)))}

    raises = {"BaseException": lambda c, exc, **k: True}


def _mk_plain(kind):
    """structures that are not a pipeline section: delegated unchanged to the base translation, location and keywords included"""
    class shape:
        __doc__ = "a %s (no 'pipeline' key): exactly one base-class translation of the same structure at the SAME location with the same extra keywords; its outcome is the outcome" % kind
        body_key = CORE + ":PipelineTranslator.translate_hierarchy"
        params = {"self": PT, "structure": {"mapping": lambda ctx: VDict({"a": SV(fresh_val("child_a"), TAny()), "__type__": SV(fresh_val("fqdn"), TAny())}),
                                            "list": lambda ctx: VList([SV(fresh_val("item0"), TAny())]), "string": TStr(), "number": TNum(), "template": C04.PartialT}[kind],
                  "where": TStr(), "**construct_kwargs": lambda ctx: VDict({"target": SV(fresh_val("extra_target"), TAny())})}
        result = TAny()
        has_events = True

        def _delegated(c, self, structure, where, construct_kwargs):
            ctx = c.ctx
            trs = ctx.ghost.get("c05_translations", [])
            if len(trs) != 1:
                return False
            tr = trs[0]
            same_structure = _tm(ctx, tr["structure"]) == _tm(ctx, structure)
            return c.And(same_structure, Z.Val.s(_tm(ctx, tr["where"])) == Z.Val.s(where.t), _b(list(tr["kwargs"]) == ["target"]),
                         _tm(ctx, tr["kwargs"]["target"]) == _tm(ctx, construct_kwargs["target"]) if "target" in tr["kwargs"] else False, c.n_events() == 1)

        def ensures(c, self, structure, where, construct_kwargs, result):
            trs = c.ctx.ghost.get("c05_translations", [])
            return {"delegated-once-with-the-same-location-and-keywords": shape._delegated(c, self, structure, where, construct_kwargs),
                    "its-result-is-the-result": (result.t == _tm(c.ctx, trs[0]["value"])) if len(trs) == 1 else False,
                    "only-None-translates-to-None": c.Implies(c.Not(Z.is_none(_tm(c.ctx, structure))), c.Not(Z.is_none(result.t)))}

        raises = {"BaseException": lambda c, self, structure, where, construct_kwargs, exc: c.And(shape._delegated(c, self, structure, where, construct_kwargs),
                                                                                                (exc.t == _tm(c.ctx, c.ctx.ghost["c05_translations"][0]["value"])) if c.ctx.ghost.get("c05_translations") else False)}
    return shape


for _kind in ("mapping", "list", "string", "number", "template"):
    contract(CORE + ":PipelineTranslator.translate_hierarchy#not-a-pipeline(%s)" % _kind, props=["C05", "C19"])(_mk_plain(_kind))


# ---- the pipeline walk ---------------------------------------------------------------------------------------------------------------
def _mk_pipeline(kinds):
    n = len(kinds)

    class shape:
        __doc__ = ("pipeline of %d element(s) of kinds %s (T = template from a !Tag, L = legacy __type__ mapping): elements are handled LAST TO FIRST; the last one is translated and, "
                   "if that yields a template, constructed without a target; each earlier element receives the object built for the NEXT element as its target - by `element >> next` (T) "
                   "or as target= of its translation (L); the n results are returned in configuration order; any failure propagates" % (n, "".join(kinds)))
        body_key = CORE + ":PipelineTranslator.translate_hierarchy"
        params = {"self": PT, "structure": lambda ctx: VDict({"pipeline": VList([
            (C04._sym_obj(ctx, "element%d" % i, C04.PartialT) if k == "T" else VDict({"__type__": SV(fresh_val("fqdn%d" % i), TAny()), "k": SV(fresh_val("value%d" % i), TAny())})) for i, k in enumerate(kinds)])}),
            "where": TStr(), "**construct_kwargs": lambda ctx: VDict({})}
        result = TAny()
        has_events = True

        def _walk(c, structure, where):
            """expected history, as far as it got: list of facts + the objects built so far (from the last element backwards)"""
            ctx = c.ctx
            items = structure["pipeline"]
            trs = list(ctx.ghost.get("c05_translations", []))
            binds = list(ctx.ghost.get("c04_bind_outcomes", []))
            cons = list(ctx.ghost.get("c04_constructs", []))
            couts = list(ctx.ghost.get("c04_construct_outcomes", []))
            facts, built, prev, failed = [], {}, None, False
            for i in range(n - 1, -1, -1):
                item = items[i]
                where_i = z3.Concat(Z.Val.s(where.t), S("[%d]" % i))
                if prev is None or kinds[i] == "L":
                    if not trs:
                        return facts + [False], built, failed
                    tr = trs.pop(0)
                    facts += [_tm(ctx, tr["structure"]) == _tm(ctx, item), Z.Val.s(_tm(ctx, tr["where"])) == where_i]
                    if prev is None:
                        facts.append(_b(list(tr["kwargs"]) == []))
                    else:
                        facts.append(_b(list(tr["kwargs"]) == ["target"]))
                        if "target" in tr["kwargs"]:
                            facts.append(_tm(ctx, tr["kwargs"]["target"]) == prev)
                    if tr["outcome"] != "return":
                        return facts, built, ("translate", tr["value"])
                    cur = _tm(ctx, tr["value"])
                    if prev is None and cons and z3.eq(z3.simplify(_tm(ctx, cons[0]["template"])), z3.simplify(cur)):
                        # the last element turned out to be a template: constructed without a target
                        call, out = cons.pop(0), couts.pop(0)
                        facts += [_b(not call["args"] and not call["kwargs"])]
                        if out[0] != "return":
                            return facts, built, ("construct", out[1])
                        cur = _tm(ctx, out[1])
                else:
                    if not binds:
                        return facts + [False], built, failed
                    b = binds.pop(0)
                    facts += [_tm(ctx, b[2]) == _tm(ctx, item), _tm(ctx, b[3]) == prev]
                    if b[0] != "return":
                        return facts, built, ("bind", b[1])
                    cur = _tm(ctx, b[1])
                built[i] = cur
                prev = cur
            facts.append(_b(not trs and not binds and not cons))      # nothing beyond the walk
            return facts, built, False

        def ensures(c, self, structure, where, construct_kwargs, result):
            ctx = c.ctx
            facts, built, failed = shape._walk(c, structure, where)
            res = c.result
            res = ctx.from_val(res) if isinstance(res, SV) else res
            ok = isinstance(res, VList) and len(res.items) == n and len(built) == n and not failed
            return {"elements-handled-last-to-first-each-once-each-targeting-the-object-built-for-the-next": c.And(*[_b(f) for f in facts]) if not failed else False,
                    "the-n-results-in-configuration-order": c.And(*[_tm(ctx, res.items[i]) == built[i] for i in range(n)]) if ok else False}

        def _raise(c, self, structure, where, construct_kwargs, exc):
            ctx = c.ctx
            facts, built, failed = shape._walk(c, structure, where)
            if failed:
                return c.And(exc.t == _tm(ctx, failed[1]), *[_b(f) for f in facts])          # the element's own failure, unchanged; everything before it as specified
            # the only other exit: the object built for an element is still a template (assert not isinstance(prev_item, Partial))
            return c.And(exc.cls_is("AssertionError"), *[_b(f) for f in facts[:-1]])

        raises = {"BaseException": lambda c, self, structure, where, construct_kwargs, exc: shape._raise(c, self, structure, where, construct_kwargs, exc)}
    return shape


for _n in (1, 2, 3):
    for _kinds in itertools.product("TL", repeat=_n):
        contract(CORE + ":PipelineTranslator.translate_hierarchy#pipeline(%s)" % "".join(_kinds), props=["C05"])(_mk_pipeline(_kinds))


# ---- yaml_constructor.factory_constructor ----------------------------------------------------------------------------------------------
def _node(kind):
    t = TAbs("yaml-%s-node" % kind, fields=dict(tag=TStr()), events=False)
    kinds = {"mapping": "yaml.nodes.MappingNode", "scalar": "yaml.nodes.ScalarNode", "sequence": "yaml.nodes.SequenceNode"}
    t.isa = [kinds[kind]] if kind in kinds else ["yaml.nodes.Node"]
    t.not_isa = [v for k, v in kinds.items() if k != kind]
    return t


def _loader_construct(what):
    def delegate(I, self, node, deep=None):
        ctx = I.ctx
        data = VDict({"a": SV(fresh_val("item_a"), TAny()), "b": SV(fresh_val("item_b"), TAny())}) if what == "mapping" else VList([SV(fresh_val("item0"), TAny()), SV(fresh_val("item1"), TAny())])
        ctx.ghost.setdefault("c05_loader_calls", []).append({"what": what, "node": node, "deep": deep, "data": data})
        ctx.emit("loader.construct_" + what, self, node, deep)
        return data
    return amethod("loader.construct_" + what, {"self": None, "node": ANYT, "deep": ANYT}, doc="PyYAML (assumed): the nested data of the node, built with this loader's constructors; "
                   "deep=True builds nested containers completely before returning", delegate=delegate, has_events=True)


YLoader = TAbs("yaml-loader-instance", fields={}, methods={}, events=False)
YLoader.methods["construct_mapping"] = _loader_construct("mapping")
YLoader.methods["construct_sequence"] = _loader_construct("sequence")
for _m in YLoader.methods.values():
    _m.params["self"] = YLoader


def _mk_factory_constructor(kind):
    class shape:
        __doc__ = {"mapping": "a mapping node becomes factory(**items): the items are the loader's construct_mapping(node, deep=eager) - the eager flag is handed on -, no positional arguments",
                   "sequence": "a sequence node becomes factory(*items): the items are the loader's construct_sequence(node, deep=eager), no keyword arguments",
                   "scalar": "a bare tag (scalar node) becomes factory(): no arguments, the loader constructs nothing",
                   "other": "any other node kind is a ConfigurationError; the factory is not called"}[kind]
        params = {"loader": YLoader, "node": _node(kind)}
        result = TAny()
        has_events = True

        def closure_env(ctx, I, bound):
            env = {"factory": C04._sym_obj(ctx, "factory", C04.Ctor), "eager": ctx.typed(fresh_val("eager"), TBool())}
            ctx.ghost["closure"] = env
            return [env]

        def _history(c, loader, node):
            ctx = c.ctx
            env = ctx.ghost["closure"]
            lcalls = ctx.ghost.get("c05_loader_calls", [])
            fcalls = ctx.ghost.get("c04_ctor_calls", [])
            if kind == "other":
                return _b(not lcalls and not fcalls)
            if len(fcalls) != 1:
                return False
            call = fcalls[0]
            facts = [_tm(ctx, call["ctor"]) == env["factory"].t]
            if kind == "scalar":
                return c.And(_b(not lcalls and not call["args"] and not call["kwargs"]), *facts)
            if len(lcalls) != 1:
                return False
            lc = lcalls[0]
            facts += [_b(lc["what"] == kind), _tm(ctx, lc["node"]) == node.t, _tm(ctx, lc["deep"]) == env["eager"].t if lc["deep"] is not None else False]
            data = lc["data"]
            if kind == "mapping":
                facts += [_b(not call["args"] and list(call["kwargs"]) == list(data.items))] + [_tm(ctx, call["kwargs"][k]) == _tm(ctx, data.items[k]) for k in data.items if k in call["kwargs"]]
            else:
                facts += [_b(not call["kwargs"] and len(call["args"]) == len(data.items))] + [_tm(ctx, a) == _tm(ctx, b) for a, b in zip(call["args"], data.items)]
            return c.And(*[_b(f) for f in facts])

        def ensures(c, loader, node, result):
            if kind == "other":
                return {"never-accepted": False}
            outs = c.ctx.ghost.get("c04_ctor_outcomes", [])
            return {"exactly-one-factory-call-with-exactly-the-nodes-data": shape._history(c, loader, node),
                    "the-result-is-the-factorys": (result.t == _tm(c.ctx, outs[0][1])) if len(outs) == 1 else False}

        raises = {"BaseException": lambda c, loader, node, exc: c.And(shape._history(c, loader, node),
                                                                    exc.cls_is(C19.CE) if kind == "other" else ((exc.t == _tm(c.ctx, c.ctx.ghost["c04_ctor_outcomes"][0][1])) if c.ctx.ghost.get("c04_ctor_outcomes") else False))}
    return shape


for _kind in ("mapping", "sequence", "scalar", "other"):
    contract(YAML + ":yaml_constructor.factory_constructor#%s-node" % _kind, props=["C05"], body_key=YAML + ":yaml_constructor.factory_constructor")(_mk_factory_constructor(_kind))


@contract(CORE + ":load_pipeline", props=["C05"])
class load_pipeline:
    """the `pipeline` section plugin: the section content is translated, by a PipelineTranslator, as the value of the key "pipeline"
    of a fresh mapping, at the root location and without extra keywords; whatever that yields is the plugin's content"""
    params = {"content": TAny()}
    result = TAny()
    has_events = True

    def ensures(c, content, result):
        ctx = c.ctx
        trs = ctx.ghost.get("c05_translations", [])
        if len(trs) != 1:
            return {"translated-exactly-once": False}
        tr = trs[0]
        st = tr["structure"]
        ok = isinstance(st, dict) and list(st) == ["pipeline"]
        return {"translated-exactly-once-as-the-pipeline-of-a-fresh-mapping-at-the-root": c.And(_tm(ctx, st["pipeline"]) == content.t, Z.Val.s(_tm(ctx, tr["where"])) == S(""), _b(not tr["kwargs"]), c.n_events() == 1) if ok else False,
                "its-result-is-the-content": result.t == _tm(ctx, tr["value"])}

    raises = {"BaseException": lambda c, content, exc: (exc.t == _tm(c.ctx, c.ctx.ghost["c05_translations"][0]["value"])) if c.ctx.ghost.get("c05_translations") else False}
