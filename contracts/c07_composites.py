"""C07 - composite pools conserve demand and aggregate their children faithfully (DESIGN.md section 5, C07)."""
from .common import *
import pyvc.z as Z

NonNeg = TNum(lo=0)
# hypothesis of the property: children are well-behaved pools with non-negative supply/utilisation/allocation
Child = pool("ChildPool", supply=NonNeg, utilisation=NonNeg, allocation=NonNeg, demand=NumFin)
UNI = "cobald.composite.uniform"
WGT = "cobald.composite.weighted"
Children = TSeq(Child, "list")
Uni = TObj(UNI + ":UniformComposite", _demand=NumFin, children=Children)


def children_ok(c, kids):
    """hypothesis: the children are pairwise distinct objects with non-negative supply/utilisation/allocation"""
    return c.And(kids.distinct(), c.forall("j", lambda j: c.Implies(c.And(0 <= j, j < kids.len), c.And(
        kids[j].supply.r >= 0, kids[j].utilisation.r >= 0, kids[j].allocation.r >= 0))))


def is_child(kids, x):
    return kids.contains_id(x)


def fold_of(c, kids, field):
    return c.sum(kids, lambda ch: getattr(ch, field))


@contract(UNI + ":UniformComposite.demand.getter", props=["C07"])
class uni_get:
    params = dict(self=Uni)
    result = NumFin

    def ensures(c, self, result):
        return {"reads-back-exactly-what-was-written": result.same(self._demand)}


@contract(UNI + ":UniformComposite.demand.setter", props=["C07"])
class uni_set:
    params = dict(self=Uni, value=NumFin)
    has_events = True

    def requires(c, self, value):
        return children_ok(c, self.children)

    def writes(c, self, value):
        kids = self.children
        return [(self, "_demand"), ("all", "demand", lambda x: is_child(kids, x))]

    def ensures(c, self, value):
        kids = c.old(self).children
        n = kids.len
        newkids = c.new(kids)
        share = value.r / z3.ToReal(n)
        total = fold_of(c, newkids, "demand")
        c.lemma("const", total, share)
        c.lemma("share", value.r, z3.ToReal(n))
        return {
            "composite-reads-back-D": self._demand.same(value),
            "every-child-gets-D-over-n": c.forall("j", lambda j: c.Implies(c.And(0 <= j, j < n), newkids[j].demand == N(Z.mk_flt(share)))),
            "children-demands-sum-to-D": c.Implies(n >= 1, total.total().r == value.r),
            "each-share-between-0-and-D": c.Implies(c.And(n >= 1, value >= 0), c.forall("j", lambda j: c.Implies(c.And(0 <= j, j < n), c.And(newkids[j].demand >= 0, newkids[j].demand <= value)))),
            "one-write-per-child": c.n_events() == n,
        }

    loops = {
        0: Loop(
            inv=lambda c, L, i: {
                "visited-children-have-their-share": c.forall("j", lambda j: c.Implies(c.And(0 <= j, j < i), c.seq[j].demand == N(Z.mk_flt(L.value.r / z3.ToReal(c.seq.len))))),
                "one-write-per-visited-child": c.n_events() == i,
            },
            modifies=lambda c, L: [("all", "demand", lambda x: is_child(c.seq, x)), ("trace",)],
            local_types={"pool": Child},
        )
    }


def _uni_fitness(attr):
    class F:
        params = dict(self=Uni)
        result = NumFin

        def ensures(c, self, result):
            kids = self.children
            n = kids.len
            tot = fold_of(c, kids, attr)
            m = z3.Real("m_bound")
            lo = c.sum(kids, lambda ch: N(Z.mk_flt(m)))
            c.lemma("const", lo, m)
            c.lemma("mono", lo, tot)
            c.lemma("mono", tot, lo)
            return {
                "mean-of-the-children": c.Implies(n >= 1, result.r == tot.total().r / z3.ToReal(n)),
                "1.0-without-children": c.Implies(n == 0, result == 1),
                "not-below-any-lower-bound-of-the-children": c.Implies(c.And(n >= 1, c.forall("j", lambda j: c.Implies(c.And(0 <= j, j < n), getattr(kids[j], attr).r >= m))), result.r >= m),
                "not-above-any-upper-bound-of-the-children": c.Implies(c.And(n >= 1, c.forall("j", lambda j: c.Implies(c.And(0 <= j, j < n), getattr(kids[j], attr).r <= m))), result.r <= m),
            }

    return F


for _a in ("utilisation", "allocation"):
    contract(UNI + ":UniformComposite.%s.getter" % _a, props=["C07"])(_uni_fitness(_a))


@contract(UNI + ":UniformComposite.supply.getter", props=["C07"])
class uni_supply:
    params = dict(self=Uni)
    result = NumFin

    def ensures(c, self, result):
        return {"sum-of-the-childrens-supplies": result.r == fold_of(c, self.children, "supply").total().r}


# ---------------------------------------------------------------------------------------- WeightedComposite
Wgt = TObj(WGT + ":WeightedComposite", _demand=NumFin, _weight=TStr(), children=Children)
WEIGHTS = ("supply", "utilisation", "allocation")


def weight_ok(c, s):
    return c.Or(*[s._weight == w for w in WEIGHTS])


def wsel(s, ch):
    """the child's weight: the attribute selected by the composite's weighting"""
    w = Z.Val.s(s._weight.t)
    return N(z3.If(w == z3.StringVal("supply"), ch.supply.t, z3.If(w == z3.StringVal("utilisation"), ch.utilisation.t, ch.allocation.t)), fin=True)


def wfold(c, s, kids):
    return c.sum(kids, lambda ch: wsel(s, ch))


@contract(WGT + ":WeightedComposite.demand.getter", props=["C07"])
class w_get:
    params = dict(self=Wgt)
    result = NumFin

    def ensures(c, self, result):
        return {"reads-back-exactly-what-was-written": result.same(self._demand)}


@contract(WGT + ":WeightedComposite.supply.getter", props=["C07"])
class w_supply:
    params = dict(self=Wgt)
    result = NumFin

    def ensures(c, self, result):
        return {"sum-of-the-childrens-supplies": result.r == fold_of(c, self.children, "supply").total().r}


def w_share(c, s, kids, j, D):
    n = kids.len
    W = wfold(c, s, kids).total().r
    # proportional to the weight: (D/W) * w_j; equal shares D/n when all weights vanish
    return N(Z.mk_flt(z3.If(W == 0, D.r / z3.ToReal(n), (D.r / W) * wsel(s, kids[j]).r)))


def shares_upto(c, s0, kids0, kids1, upto, D):
    """children 0..upto-1 hold their share: (D/W)*w_j, or D/n when all weights vanish (two implications, so that
    under either case the solver sees a plain universally quantified equation)"""
    n = kids0.len
    W = wfold(c, s0, kids0).total().r
    return c.And(
        c.Implies(W == 0, c.forall("j", lambda j: c.Implies(c.And(0 <= j, j < upto), kids1[j].demand == N(Z.mk_flt(D.r / z3.ToReal(n)))))),
        c.Implies(W != 0, c.forall("j", lambda j: c.Implies(c.And(0 <= j, j < upto), kids1[j].demand == N(Z.mk_flt((D.r / W) * wsel(s0, kids0[j]).r))))),
    )


@contract(WGT + ":WeightedComposite.demand.setter", props=["C07"])
class w_set:
    params = dict(self=Wgt, value=NumFin)
    has_events = True

    def requires(c, self, value):
        return c.And(children_ok(c, self.children), weight_ok(c, self))

    def writes(c, self, value):
        kids = self.children
        return [(self, "_demand"), ("all", "demand", lambda x: is_child(kids, x))]

    def ensures(c, self, value):
        s0 = c.old(self)
        kids = s0.children
        n = kids.len
        newkids = c.new(kids)
        wf = wfold(c, s0, kids)
        W = wf.total().r
        total = fold_of(c, newkids, "demand")
        c.lemma("const", total, value.r / z3.ToReal(n))
        c.lemma("scale", total, value.r / W, wf)
        c.lemma("share", value.r, z3.ToReal(n))
        c.lemma("unshare", value.r, z3.ToReal(n))
        c.lemma("rescale", value.r, z3.RealVal(0), W)
        j0 = c.any_index()
        wj0 = wsel(s0, kids[j0]).r
        c.lemma("member_at", wf, n, j0)
        c.lemma("kshare", value.r, wj0, W)
        return {
            "composite-reads-back-D": self._demand.same(value),
            "share-proportional-to-weight-or-equal-when-all-weights-vanish": shares_upto(c, s0, kids, newkids, n, value),
            "children-demands-sum-to-D-with-weights": c.Implies(c.And(n >= 1, W != 0), total.total().r == value.r),
            "children-demands-sum-to-D-when-all-weights-vanish": c.Implies(c.And(n >= 1, W == 0), total.total().r == value.r),
            # stated for an arbitrary index j0 (a free constant), i.e. for every child
            "each-share-between-0-and-D-with-weights": c.Implies(c.And(n >= 1, value >= 0, 0 <= j0, j0 < n, W != 0), c.And(newkids[j0].demand >= 0, newkids[j0].demand <= value)),
            "each-share-between-0-and-D-when-all-weights-vanish": c.Implies(c.And(n >= 1, value >= 0, 0 <= j0, j0 < n, W == 0), c.And(newkids[j0].demand >= 0, newkids[j0].demand <= value)),
            "one-write-per-child": c.n_events() == n,
        }

    loops = {
        0: Loop(
            inv=lambda c, L, i: {
                "visited-children-have-their-share": shares_upto(c, c.old(L.self), c.old(c.seq), c.seq, i, L.value),
                "one-write-per-visited-child": c.n_events() == i,
                "(lemma: D*w/W = (D/W)*w at the child visited last)": c.lemma("rescale", L.value.r, wsel(c.old(L.self), c.old(c.seq)[i - 1]).r, wfold(c, c.old(L.self), c.old(c.seq)).total().r),
            },
            modifies=lambda c, L: [("all", "demand", lambda x: is_child(c.seq, x)), ("trace",)],
            local_types={"pool": Child},
        )
    }


def _w_fitness(attr):
    class F:
        params = dict(self=Wgt)
        result = NumFin

        def requires(c, self):
            return weight_ok(c, self)

        def ensures(c, self, result):
            kids = self.children
            n = kids.len
            wf = wfold(c, self, kids)
            W = wf.total().r
            uw = c.sum(kids, lambda ch: N(Z.mk_flt(getattr(ch, attr).r * wsel(self, ch).r)))
            sup = fold_of(c, kids, "supply").total().r
            m = z3.Real("m_bound")
            mw = c.sum(kids, lambda ch: N(Z.mk_flt(m * wsel(self, ch).r)))
            c.lemma("member", wf)
            c.lemma("scale", mw, m, wf)
            c.lemma("mono", mw, uw)
            c.lemma("mono", uw, mw)
            c.lemma_forall("pmono", n, lambda j: (m, getattr(kids[j], attr).r, wsel(self, kids[j]).r))
            c.lemma_forall("pmono", n, lambda j: (getattr(kids[j], attr).r, m, wsel(self, kids[j]).r))
            return {
                "weighted-mean-of-the-children": c.Implies(W != 0, result.r == uw.total().r / W),
                "not-below-any-lower-bound-of-the-children": c.Implies(c.And(W != 0, c.forall("j", lambda j: c.Implies(c.And(0 <= j, j < n), getattr(kids[j], attr).r >= m))), result.r >= m),
                "not-above-any-upper-bound-of-the-children": c.Implies(c.And(W != 0, c.forall("j", lambda j: c.Implies(c.And(0 <= j, j < n), getattr(kids[j], attr).r <= m))), result.r <= m),
                "1.0-without-weight-and-without-supply": c.Implies(c.And(W == 0, c.Not(sup > 0)), result == 1),
                "0.0-when-all-weights-vanish-although-there-is-supply": c.Implies(c.And(W == 0, sup > 0), result == 0),
            }

    return F


for _a in ("utilisation", "allocation"):
    contract(WGT + ":WeightedComposite.%s.getter" % _a, props=["C07"])(_w_fitness(_a))


# ---- native inputs (replay / native search of refutations) -----------------------------------------------------------------------
# values are dyadic rationals and the total weight / child count a power of two, so that Python's float results ARE the real-number
# results the clauses speak about (the proved clauses are exact over reals; a concrete run must not differ by rounding)
def _gen_child(rng):
    from pyvc.replay import stub_class

    o = stub_class(Child)()
    for f in ("supply", "utilisation", "allocation"):
        object.__setattr__(o, f, rng.choice([0, 0.25, 0.5, 1, 1, 2, 4]))
    object.__setattr__(o, "demand", rng.choice([0, 1, 2, 3.5]))
    o._stores.clear()
    return o


def _pow2(x):
    return x > 0 and (x * 1024) == int(x * 1024) and (int(x * 1024) & (int(x * 1024) - 1)) == 0


def _gen_weighted(rng):
    import importlib

    real = getattr(importlib.import_module(WGT), "WeightedComposite")
    for _ in range(200):
        w = rng.choice(WEIGHTS)
        kids = [_gen_child(rng) for _ in range(rng.choice([0, 1, 2, 3, 4]))]
        total = sum(getattr(k, w) for k in kids)
        if total == 0 or _pow2(total):
            break
    o = object.__new__(real)
    object.__setattr__(o, "_demand", rng.choice([0, 1, 2, 4, 8]))
    object.__setattr__(o, "_weight", w)
    object.__setattr__(o, "children", kids)
    return o


def _gen_uniform(rng):
    import importlib

    real = getattr(importlib.import_module(UNI), "UniformComposite")
    o = object.__new__(real)
    object.__setattr__(o, "_demand", rng.choice([0, 1, 2, 4, 8]))
    object.__setattr__(o, "children", [_gen_child(rng) for _ in range(rng.choice([0, 1, 2, 4, 4]))])
    return o


def _install_generators():
    from pyvc.contracts import REGISTRY

    for grp in REGISTRY.values():
        for key, con in grp.items():
            if key.startswith(WGT + ":WeightedComposite.") or key.startswith(UNI + ":UniformComposite."):
                mk = _gen_weighted if key.startswith(WGT) else _gen_uniform
                if "value" in con.params:
                    con.ns["gen_args"] = lambda rng, mk=mk: {"self": mk(rng), "value": rng.choice([0, 1, 2, 4, 6, 8])}
                else:
                    con.ns["gen_args"] = lambda rng, mk=mk: {"self": mk(rng)}


_install_generators()


# ---- constructors: the composite starts with exactly the given children, in order, and reports their total demand --------------------------
from pyvc.values import VTuple as _VT


def _sym_child7(ctx, k):
    sv = ctx.typed(z3.Const("p_children_child%d" % k, Z.Val), Child)
    ctx.assume(z3.And(Z.Val.id(sv.t) > 0, Z.Val.id(sv.t) < ctx.alloc0))
    ctx.assume_class(sv.t, Child)
    ctx.touch(sv)
    return sv


def _mk_composite_init(cls_key, shape, n, weighted):
    class init:
        __doc__ = ("constructed with %d child pool(s): `children` is a NEW list of exactly these pools in the given order, and the composite's demand is the sum of "
                   "theirs%s" % (n, "; the weight attribute is the one asked for (an unknown one is refused)" if weighted else ""))
        body_key = cls_key + ".__init__"
        new_object = "self"
        params = dict({"self": shape, "*children": lambda ctx: _VT([_sym_child7(ctx, k) for k in range(n)])}, **({"weight": TStr()} if weighted else {}))

        def writes(c, self, children, **kw):
            return [(self, f) for f in ("_demand", "children", "_weight")]

        def ensures(c, self, children, **kw):
            kids = self.children
            out = {"children-are-exactly-the-given-pools-in-order": c.And(kids.len == n, Z.Val.id(kids.t) >= c.ctx.alloc0, *[kids[k].t == children[k].t for k in range(n)]),
                   "demand-is-the-sum-of-the-childrens": self._demand.r == sum([children[k].demand.r for k in range(n)], z3.RealVal(0))}
            if weighted:
                w = Z.Val.s(kw["weight"].t)
                out["weight-is-the-one-asked-for-and-a-known-one"] = c.And(self._weight.t == kw["weight"].t, c.Or(*[w == z3.StringVal(x) for x in ("supply", "utilisation", "allocation")]))
            return out

        raises = {"AssertionError": (lambda c, self, children, exc, **kw: c.Not(c.Or(*[Z.Val.s(kw["weight"].t) == z3.StringVal(x) for x in ("supply", "utilisation", "allocation")]))) if weighted
                  else (lambda c, self, children, exc, **kw: False)}
    return init


for _n in (0, 1, 3):
    contract(UNI + ":UniformComposite.__init__#children(%d)" % _n, props=["C07"])(_mk_composite_init(UNI + ":UniformComposite", Uni, _n, False))
    contract(WGT + ":WeightedComposite.__init__#children(%d)" % _n, props=["C07"])(_mk_composite_init(WGT + ":WeightedComposite", Wgt, _n, True))
