"""C09 - periodic services act once per interval, for as long as they run (DESIGN.md section 5, C09).
Each `run` coroutine is verified through an ITERATION CONTRACT of its `while True` loop: one iteration = exactly one step
followed by exactly one trio.sleep(interval) (FactoryPool: sleep first).  `run` never returns; the only exceptions that
leave it are trio.Cancelled from the sleep and - nothing else: a step on a well-behaved pool raises nothing.
Timing is relative to trio's clock (assumed: trio.sleep(d) advances it by exactly d)."""
from .common import *
from . import c08_controllers as K
from pyvc.engine import Event
import pyvc.z as Z

ENV = ("supply", "demand", "utilisation", "allocation")
env_frame = lambda c, L: [("all", f, lambda x: True) for f in ENV] + [("trace",)]


def regulate_iteration(c, L, key, interval):
    """events of one iteration: call regulate(self, interval) [at most one demand write by it] sleep(interval)"""
    n = c.n_events()
    first = c.event_at(0) == c.event("call", key, L.self, interval)
    last = c.event_at(n - 1) == c.event("sleep", interval)
    return {
        "one-regulation-step-with-the-configured-interval-first": first,
        "then-exactly-one-sleep-of-the-interval": c.And(last, c.Or(n == 2, n == 3)),
        "nothing-but-at-most-one-demand-write-in-between": c.Implies(n == 3, Event.e_kind(c.event_at(1)) == c.ctx.E.event_kind("store")),
    }


def delegate_iteration(c, L, key, interval):
    """DemandSwitch: call regulate(self, interval), its ONE delegation to a slaved controller [which may write demand once], sleep(interval)"""
    n = c.n_events()
    first = c.event_at(0) == c.event("call", key, L.self, interval)
    last = c.event_at(n - 1) == c.event("sleep", interval)
    return {
        "one-regulation-step-with-the-configured-interval-first": first,
        "then-exactly-one-sleep-of-the-interval": c.And(last, n == 3),
        "exactly-one-delegation-in-between": c.And(Event.e_kind(c.event_at(1)) == c.ctx.E.event_kind("regulate"), Event.e_b(c.event_at(1)) == interval.t),
    }


def _run_contract(shape, key, valid, iteration=regulate_iteration):
    class R:
        params = dict(self=shape)
        has_events = True
        never_returns = True

        def requires(c, self):
            return c.And(valid(c, self), self.interval >= 0)

        def writes(c, self):
            return [("all", f, lambda x: True) for f in ENV]

        raises = {"trio.Cancelled": lambda c, self, exc: True}
        loops = {
            0: Loop(
                inv=lambda c, L, k: {"controller-unchanged": c.And(valid(c, L.self), L.self.interval >= 0, L.self.interval.same(c.old(L.self).interval), L.self.target == c.old(L.self).target)},
                modifies=env_frame,
                step=lambda c, L, L0: iteration(c, L, key, c.old(L.self).interval),
            )
        }

    return R


contract(K.LIN + ":LinearController.run", props=["C09"])(_run_contract(K.Linear, K.LIN + ":LinearController.regulate", K.linear_valid))
contract(K.REL + ":RelativeSupplyController.run", props=["C09"])(_run_contract(K.Relative, K.REL + ":RelativeSupplyController.regulate", K.relative_valid))
contract(K.SW + ":DemandSwitch.run", props=["C09"])(_run_contract(K.Switch, K.SW + ":DemandSwitch.regulate", lambda c, s: K.ascending(c, s._slaves), iteration=delegate_iteration))


# ---- Buffer ------------------------------------------------------------------------------------------------------
BUF = "cobald.decorator.buffer"
BPool = pool(demand=NumX)
Buf = TObj(BUF + ":Buffer", target=BPool, window=NumFin, demand=NumX)


@contract(BUF + ":Buffer.run", props=["C09"])
class buffer_run:
    """at every window boundary the target's demand is made equal to the value most recently written to the buffer (one store
    iff they differ), and nothing is forwarded in between: the only effects of an iteration are that store and one sleep(window)"""
    params = dict(self=Buf)
    has_events = True
    never_returns = True

    def requires(c, self):
        return self.window >= 0

    def writes(c, self):
        return [("all", f, lambda x: True) for f in ENV]

    raises = {"trio.Cancelled": lambda c, self, exc: True}
    loops = {
        0: Loop(
            inv=lambda c, L, k: {"buffer-unchanged": c.And(L.self.window.same(c.old(L.self).window), L.self.target == c.old(L.self).target)},
            # while sleeping, the controller may write the buffer's own (plain attribute) demand and the pool may move
            modifies=env_frame,
            step=lambda c, L, L0: _buffer_iteration(c, L),
        )
    }


def _buffer_iteration(c, L):
    b0 = c.old(L.self)
    t0 = b0.target
    differs = c.Not(b0.demand == t0.demand)
    n = c.n_events()
    return {
        "flushes-the-pending-demand-iff-it-differs": c.And(
            c.Implies(differs, c.And(n == 2, c.event_at(0) == c.event("store", t0, "demand", b0.demand))),
            c.Implies(c.Not(differs), n == 1)),
        "then-exactly-one-sleep-of-the-window": c.event_at(n - 1) == c.event("sleep", b0.window),
    }


@contract(BUF + ":Buffer.__init__", props=["C09"])
class buffer_init:
    params = dict(self=TObj(BUF + ":Buffer", target=BPool, window=NumFin, demand=NumX), target=BPool, window=NumFin)
    new_object = "self"

    def writes(c, self, target, window):
        return [(self, "target"), (self, "window"), (self, "demand")]

    def ensures(c, self, target, window):
        return {"starts-with-the-targets-demand-and-forwards-nothing": c.And(self.demand.same(c.old(target).demand), self.target == target, self.window.same(window))}


@contract("static:buffer-demand-is-a-plain-attribute", props=["C09", "C16"], kind="static")
class buffer_static:
    """decided on the AST: Buffer.demand resolves to the class-level default (a plain attribute shadowing PoolDecorator's
    forwarding property), so writing it has frame {self.demand} and produces no event on the target"""

    def static(E):
        from pyvc.repo import PropertyInfo
        cls = E.repo.get(BUF + ":Buffer")
        owner, mem = E.repo.lookup_member(cls, "demand")
        return {"Buffer.demand-is-a-plain-class-attribute": owner is cls and isinstance(mem, tuple) and mem[0] == "attr",
                "Buffer-defines-no-demand-property": not isinstance(mem, PropertyInfo)}


@contract("static:lemma-bounded-change", props=["C09"], kind="static")
class paced:
    """corollary (arithmetic, proved by the solver in the lemma run as `paced`): steps are one per interval I, so within any
    span s there are at most s/I + 1 of them; with |change per step| <= rate*I (C08) demand changes by at most rate*(s+I)"""

    def static(E):
        from pyvc import lemmas
        import z3
        text, prem, goal = lemmas.arith()["paced"]
        s = z3.Solver(); s.set("timeout", 10000); s.add(*prem); s.add(z3.Not(goal))
        return {"k*rate*I<=rate*(s+I)-for-k<=s/I+1": s.check() == z3.unsat}
