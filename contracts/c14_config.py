"""C14 - config sections are validated, then digested once each in constraint order (DESIGN.md section 5, C14)."""
from .common import *
from .runtime_lib import amethod, ANYT
from pyvc.engine import Event
import pyvc.z as Z

MAP = "cobald.daemon.config.mapping"


DIGRES = z3.Function("digest_result", Z.Val, Z.Val, Z.Val)


def kept(c, cfg, plugins, content, j):
    """what the statement says about results: the NON-None result of plugin j is kept under the plugin (falsy results included)"""
    r = DIGRES(plugins[j].digest.t, cfg[plugins[j].section].t)
    return c.Implies(c.Not(Z.is_none(r)), c.And(content.has(plugins[j]), content[plugins[j]].t == r))


def _digest_contract():
    def emits(c, ctx, self, section):
        ctx.emit("digest", self, section)

    return amethod("digest", {"self": None, "section": ANYT}, doc="a section digest: an arbitrary callable; one `digest` event; any result (named digest_result(plugin, section) "
                   "so that specifications can speak about it; each digest is called at most once per load); what it raises propagates",
                   result=ANYT, emits=emits, has_events=True, raises={"BaseException": lambda c, exc, **k: True},
                   ensures=lambda c, self, section, result: result.t == DIGRES(self.t, section.t))


_dc = _digest_contract()
Digest = TFn(_dc)
_dc.params["self"] = Digest
Req = TObj("cobald.daemon.plugins:PluginRequirements", required=TBool(), before=TAny(), after=TAny())
Plugin = TObj(MAP + ":SectionPlugin", section=TStr(), digest=Digest, requirements=Req)
Plugins = TSeq(Plugin, "tuple")
Config = TMap(val=TAny())
CFGERR = MAP + ":ConfigurationError"


def present(cfg, plugins, j):
    return cfg.has(plugins[j].section)


def unknown_section(c, cfg, plugins):
    """some section other than `logging` is claimed by no plugin"""
    k = z3.Const("sec_k", Z.Val)
    claimed = lambda key: c.exists("q", lambda q: c.And(0 <= q, q < plugins.len, plugins[q].section.t == key))
    return z3.Exists([k], c.And(cfg.has(k), k != Z.mk_str("logging"), c.Not(claimed(k))))


def count_fold(c, cfg, plugins):
    """number of plugins before index m whose section is present"""
    return c.sum(plugins, lambda p: N(z3.If(cfg.has(p.section), z3.RealVal(1), z3.RealVal(0))))


def _witness():
    from cobald.daemon.config.mapping import SectionPlugin
    from cobald.daemon.plugins import PluginRequirements

    p1 = SectionPlugin("a", lambda s: None, PluginRequirements(required=True))
    p2 = SectionPlugin("b", lambda s: 1, PluginRequirements())
    return dict(config_data={"a": [1], "b": {"x": 2}}, plugins=(p1, p2))


@contract(MAP + ":load_configuration", props=["C14"])
class load_configuration:
    """unknown sections fail before any plugin runs; a required plugin without section fails; otherwise every plugin whose
    section is present is called exactly once, in the given order, with exactly its section's content"""
    params = dict(config_data=Config, plugins=Plugins)
    result = TMap(val=TAny())
    has_events = True
    witness = lambda: _witness()

    def requires(c, config_data, plugins):
        # the `logging` section is handled by logging.config (external); it is absent here
        return c.And(c.Not(config_data.has("logging")), plugins.distinct())

    def writes(c, config_data, plugins):
        return [(config_data, "$mhas")]

    def ensures(c, config_data, plugins, result):
        cfg = c.old(config_data)
        plugins = c.old(plugins)
        n = plugins.len
        cnt = count_fold(c, cfg, plugins)
        c.lemma("prefix", cnt)
        j0 = c.any_index()
        ev = z3.Select(c.tr, c.tr_old_len + z3.ToInt(cnt.upto(j0).r))
        return {
            "no-unclaimed-section": c.Not(unknown_section(c, cfg, plugins)),
            "every-required-plugin-has-its-section": c.forall("j", lambda j: c.Implies(c.And(0 <= j, j < n, Z.Val.b(plugins[j].requirements.required.t)), present(cfg, plugins, j))),
            "one-call-per-present-section-none-for-absent-ones": z3.ToReal(c.n_events()) == cnt.total().r,
            # for an arbitrary plugin j0 whose section is present: its call sits at position #(present plugins before j0)
            # - i.e. calls happen in the order of `plugins` - and carries exactly that section's content
            "in-plugin-order-with-exactly-the-sections-content": c.Implies(
                c.And(0 <= j0, j0 < n, present(cfg, plugins, j0)),
                ev == c.event("digest", plugins[j0].digest, cfg[plugins[j0].section])),
            "non-None-results-are-kept-under-their-plugin": c.Implies(c.And(0 <= j0, j0 < n, present(cfg, plugins, j0)), kept(c, cfg, plugins, result, j0)),
        }

    def _cfgerr(c, config_data, plugins, exc):
        cfg = c.old(config_data)
        plugins = c.old(plugins)
        n = plugins.len
        return c.Or(
            c.And(unknown_section(c, cfg, plugins), c.no_events()),
            c.exists("j", lambda j: c.And(0 <= j, j < n, Z.Val.b(plugins[j].requirements.required.t), c.Not(present(cfg, plugins, j)))),
        )

    raises = {CFGERR: _cfgerr,
              # what a digest raises propagates (the property is silent about it)
              "BaseException": lambda c, config_data, plugins, exc: c.And(c.Not(unknown_section(c, c.old(config_data), c.old(plugins))), c.n_events() >= 1)}

    loops = {
        0: Loop(
            inv=lambda c, L, i: _inv(c, L, i),
            modifies=lambda c, L: [("trace",)] + [("all", f, lambda x: x >= c.ctx.alloc0) for f in ("$mhas", "$mval", "$len", "$item")],
            local_types={"plugin": Plugin, "section_data": TAny(), "plugin_content": TAny()},
        )
    }


def _inv(c, L, i):
    cfg = c.old(L.config_data)      # the configuration as it was at loop entry (it is not modified, last clause)
    plugins = c.old(c.seq)          # the plugin tuple as at loop entry (never modified)
    cnt = count_fold(c, cfg, plugins)
    c.lemma("prefix", cnt)
    return {
        "required-plugins-so-far-have-their-section": c.forall("j", lambda j: c.Implies(c.And(0 <= j, j < i, Z.Val.b(plugins[j].requirements.required.t)), present(cfg, plugins, j))),
        "one-call-per-present-section-so-far": z3.ToReal(c.n_events()) == cnt.upto(i).r,
        "calls-so-far-in-plugin-order-with-their-sections-content": c.for_each("j0", lambda j0: c.Implies(
            c.And(0 <= j0, j0 < i, present(cfg, plugins, j0)),
            c.And(z3.Select(c.tr, c.tr_old_len + z3.ToInt(cnt.upto(j0).r)) == c.event("digest", plugins[j0].digest, cfg[plugins[j0].section]),
                  cnt.upto(j0 + 1).r == cnt.upto(j0).r + 1, cnt.upto(j0 + 1).r <= cnt.upto(i).r))),
        "config-not-modified": c.ctx.rd(c.new_heap, "$mhas")[L.config_data.id] == c.ctx.rd(c.old_heap, "$mhas")[L.config_data.id],
        "non-None-results-so-far-are-kept": c.for_each("j1", lambda j1: c.Implies(c.And(0 <= j1, j1 < i, present(cfg, plugins, j1)), kept(c, cfg, plugins, L.content, j1))),
    }


# ---- the constraints decorator: whatever iterable the names come in, the plugin carries exactly these names --------------------------
from pyvc.values import VSet, VTuple, VList, SV
from pyvc.builtins_ import ConcreteIter
from pyvc.engine import fresh_val

PLG = "cobald.daemon.plugins"


def _mk_constraints(kind, nb, na):
    """kind: how the names are handed in - 'tuple' (re-iterable) or 'iterator' (a generator / iter() / map(): one pass only)"""
    bnames, anames = ["b%d" % k for k in range(nb)], ["a%d" % k for k in range(na)]

    class shape:
        __doc__ = ("@constraints(before=<%s of %d names>, after=<%s of %d names>): the decorated plugin carries exactly these names as its before / after "
                   "requirements (and the `required` flag), is returned unchanged otherwise, and nothing else happens" % (kind, nb, kind, na))
        body_key = PLG + ":constraints.section_wrapper"
        params = {"plugin": lambda ctx: __import__("contracts.c04_partial", fromlist=["x"])._sym_obj(ctx, "plugin", PluginFn)}
        result = TAny()

        def closure_env(ctx, I, bound):
            mk = (lambda xs: VTuple(list(xs))) if kind == "tuple" else (lambda xs: ConcreteIter(list(xs), oneshot=True))
            env = {"before": mk(bnames), "after": mk(anames), "required": ctx.typed(fresh_val("required"), TBool())}
            ctx.ghost["closure"] = env
            return [env]

        def writes(c, plugin):
            return [(plugin, "__requirements__")]

        def ensures(c, plugin, result):
            ctx = c.ctx
            req = plugin.field("__requirements__")
            rv = c.view_term(req.t, Req, c.new_heap)
            b = ctx.from_val(SV(rv.before.t, TAny()))
            a = ctx.from_val(SV(rv.after.t, TAny()))
            return {"before-is-exactly-the-names-given": isinstance(b, VSet) and sorted(b.items) == sorted(bnames),
                    "after-is-exactly-the-names-given": isinstance(a, VSet) and sorted(a.items) == sorted(anames),
                    "required-flag-as-given": rv.required.t == ctx.ghost["closure"]["required"].t,
                    "the-plugin-itself-is-returned": result.t == plugin.t}
    return shape


PluginFn = TAbs("plugin-callable", fields={"__requirements__": TAny()}, events=False)
for _kind in ("tuple", "iterator"):
    for _nb, _na in ((0, 0), (2, 0), (1, 2)):
        contract(PLG + ":constraints.section_wrapper#%s(%d,%d)" % (_kind, _nb, _na), props=["C14"])(_mk_constraints(_kind, _nb, _na))


def _mk_constraints_outer(kind, nb, na):
    bnames, anames = ["b%d" % k for k in range(nb)], ["a%d" % k for k in range(na)]
    mk = (lambda xs: VTuple(list(xs))) if kind == "tuple" else (lambda xs: ConcreteIter(list(xs), oneshot=True))

    class shape:
        __doc__ = ("constraints(before=<%s>, after=<%s>, required=...) only builds the decorator: it returns section_wrapper closed over the arguments AS GIVEN - "
                   "in particular an iterator handed in is not consumed before the decorator is applied" % (kind, kind))
        body_key = PLG + ":constraints"
        params = {"before": lambda ctx: mk(bnames), "after": lambda ctx: mk(anames), "required": TBool()}
        result = TAny()

        def ensures(c, before, after, required, result):
            from pyvc.values import Closure

            res = c.result
            res = c.ctx.from_val(res) if isinstance(res, SV) else res
            if not isinstance(res, Closure) or res.fi.key != PLG + ":constraints.section_wrapper":
                return {"returns-the-decorator": False}
            env = {}
            for fr in res.env:
                env.update(fr)

            def untouched(v, names):
                v = c.ctx.from_val(v) if isinstance(v, SV) else v
                return isinstance(v, (VTuple, ConcreteIter)) and list(v.items) == list(names)
            return {"returns-the-decorator": True,
                    "closed-over-the-names-as-given-nothing-consumed": untouched(env.get("before"), bnames) and untouched(env.get("after"), anames),
                    "closed-over-the-required-flag": (c.ctx.to_val(env.get("required")).t == required.t) if env.get("required") is not None else False}
    return shape


for _kind in ("tuple", "iterator"):
    contract(PLG + ":constraints#%s" % _kind, props=["C14"])(_mk_constraints_outer(_kind, 2, 1))
