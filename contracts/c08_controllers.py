"""C08 - controllers move demand only in the documented direction and amount (DESIGN.md section 5, C08)."""
from .common import *

Pool = pool()
LIN = "cobald.controller.linear"
REL = "cobald.controller.relative_supply"
SW = "cobald.controller.switch"
STEP = "cobald.controller.stepwise"

# ---------------------------------------------------------------------------------------- LinearController
Linear = TObj(LIN + ":LinearController", target=Pool, rate=NumFin, interval=NumFin, low_utilisation=NumFin, high_allocation=NumFin)


def linear_valid(c, s):
    return c.And(s.rate > 0, s.low_utilisation <= s.high_allocation)


@contract(LIN + ":LinearController.regulate", props=["C08", "C09"])
class linear_regulate:
    announce = True
    params = dict(self=Linear, interval=NumFin)
    has_events = True

    def requires(c, self, interval):
        return c.And(linear_valid(c, self), interval >= 0)

    def writes(c, self, interval):
        return [(self.target, "demand")]

    def ensures(c, self, interval):
        t0 = c.old(self.target)
        t1 = self.target
        low = t0.utilisation < self.low_utilisation
        high = c.And(c.Not(low), t0.allocation > self.high_allocation)
        step = interval * self.rate
        return {
            "down-by-exactly-rate-x-interval-iff-utilisation-low": c.Implies(low, c.And(t1.demand == t0.demand - step, c.events_are(c.event("store", t1, "demand", t1.demand)))),
            "up-by-exactly-rate-x-interval-iff-only-allocation-high": c.Implies(high, c.And(t1.demand == t0.demand + step, c.events_are(c.event("store", t1, "demand", t1.demand)))),
            "untouched-when-neither": c.Implies(c.And(c.Not(low), c.Not(high)), c.And(c.no_events(), t1.demand.same(t0.demand))),
            "at-most-rate-x-interval": abs(t1.demand - t0.demand) <= step,
            "only-demand-changes": c.unchanged(t1, "supply", "utilisation", "allocation"),
        }


@contract(LIN + ":LinearController.__init__", props=["C08"])
class linear_init:
    params = dict(self=Linear, target=Pool, low_utilisation=NumFin, high_allocation=NumFin, rate=NumFin, interval=NumFin)
    new_object = "self"

    def writes(c, self, **kw):
        return [(self, f) for f in ("target", "rate", "interval", "low_utilisation", "high_allocation")]

    def ensures(c, self, target, low_utilisation, high_allocation, rate, interval):
        return {
            "accepted-parameters-are-valid": linear_valid(c, self),
            "fields": c.And(self.target == target, self.rate.same(rate), self.interval.same(interval),
                            self.low_utilisation.same(low_utilisation), self.high_allocation.same(high_allocation)),
        }

    raises = {
        "AssertionError": lambda c, self, target, low_utilisation, high_allocation, rate, interval, exc:
            c.Not(c.And(rate > 0, low_utilisation <= high_allocation)),
    }


# ---------------------------------------------------------------------------------------- RelativeSupplyController
Relative = TObj(REL + ":RelativeSupplyController", target=Pool, interval=NumFin, low_utilisation=NumFin, high_allocation=NumFin,
                low_scale=NumFin, high_scale=NumFin)


def relative_valid(c, s):
    return c.And(s.low_utilisation <= s.high_allocation, s.low_scale < 1, s.high_scale > 1)


@contract(REL + ":RelativeSupplyController.regulate", props=["C08", "C09"])
class relative_regulate:
    announce = True
    params = dict(self=Relative, interval=NumFin)
    has_events = True

    def requires(c, self, interval):
        return relative_valid(c, self)

    def writes(c, self, interval):
        return [(self.target, "demand")]

    def ensures(c, self, interval):
        t0 = c.old(self.target)
        t1 = self.target
        low = t0.utilisation < self.low_utilisation
        high = c.And(c.Not(low), t0.allocation > self.high_allocation)
        return {
            "exactly-one-store": c.events_are(c.event("store", t1, "demand", t1.demand)),
            "supply-x-low-scale-iff-utilisation-low": c.Implies(low, t1.demand == t0.supply * self.low_scale),
            "supply-x-high-scale-iff-only-allocation-high": c.Implies(high, t1.demand == t0.supply * self.high_scale),
            "supply-when-neither": c.Implies(c.And(c.Not(low), c.Not(high)), t1.demand == t0.supply),
            "only-demand-changes": c.unchanged(t1, "supply", "utilisation", "allocation"),
        }


@contract(REL + ":RelativeSupplyController.__init__", props=["C08"])
class relative_init:
    params = dict(self=Relative, target=Pool, low_utilisation=NumFin, high_allocation=NumFin, low_scale=NumFin, high_scale=NumFin, interval=NumFin)
    new_object = "self"

    def writes(c, self, **kw):
        return [(self, f) for f in ("target", "interval", "low_utilisation", "high_allocation", "low_scale", "high_scale")]

    def ensures(c, self, target, low_utilisation, high_allocation, low_scale, high_scale, interval):
        return {
            "accepted-parameters-are-valid": relative_valid(c, self),
            "fields": c.And(self.target == target, self.interval.same(interval), self.low_utilisation.same(low_utilisation),
                            self.high_allocation.same(high_allocation), self.low_scale.same(low_scale), self.high_scale.same(high_scale)),
        }

    raises = {
        "AssertionError": lambda c, self, target, low_utilisation, high_allocation, low_scale, high_scale, interval, exc:
            c.Not(c.And(low_utilisation <= high_allocation, low_scale < 1, high_scale > 1)),
    }


# ---------------------------------------------------------------------------------------- DemandSwitch
@contract("abstract:Controller.regulate", kind="abstract", skip_body=True)
class slave_regulate:
    """a slaved controller's regulate(interval): one `regulate` event; may change its target's demand"""
    params = dict(self=None, interval=NumFin)
    has_events = True

    def emits(c, ctx, self, interval):
        ctx.emit("regulate", self, interval)

    def writes(c, self, interval):
        return [(self.target, "demand")]


Slave = TAbs("Controller", fields=dict(target=TOpt(Pool)), methods=dict(regulate=slave_regulate))
Slave.isa = ["cobald.interfaces._controller:Controller"]
slave_regulate.params["self"] = Slave
SlavePair = TTuple(NumFin, Slave)
Switch = TObj(SW + ":DemandSwitch", target=Pool, _default=Slave, _slaves=TSeq(SlavePair, "tuple"), interval=NumFin)


def thr(slaves, j):
    return slaves[j][0]


def ctl(slaves, j):
    return slaves[j][1]


def selected(c, slaves, n, demand, default, chosen):
    """chosen = the slave with the greatest threshold not above demand, else the default"""
    return c.Or(
        c.And(chosen == default, c.forall("j", lambda j: c.Implies(c.And(0 <= j, j < n), c.Not(thr(slaves, j) <= demand)))),
        c.exists("k", lambda k: c.And(0 <= k, k < n, chosen == ctl(slaves, k), thr(slaves, k) <= demand,
                                      c.forall("j", lambda j: c.Implies(c.And(0 <= j, j < n, thr(slaves, j) <= demand), thr(slaves, j) <= thr(slaves, k))))),
    )


def ascending(c, slaves):
    return c.forall("a b", lambda a, b: c.Implies(c.And(0 <= a, a < b, b < slaves.len), thr(slaves, a) < thr(slaves, b)))


def _real_switch():
    from cobald.controller.switch import DemandSwitch
    from cobald.controller.linear import LinearController
    from pyvc.replay import make_stub_class

    p = make_stub_class(Pool)(supply=1.0, demand=0.0, utilisation=0.5, allocation=0.5)
    return DemandSwitch(p, LinearController(p), 10, LinearController(p), 2.5, LinearController(p))


@contract(SW + ":DemandSwitch.regulate", props=["C08", "C09"])
class switch_regulate:
    announce = True
    params = dict(self=Switch, interval=NumFin)
    has_events = True
    witness = lambda: dict(self=_real_switch(), interval=1)

    def requires(c, self, interval):
        # representation invariant established by __init__: thresholds strictly ascending (sorted; equal
        # thresholds are rejected by sorted() comparing controllers)
        return ascending(c, self._slaves)

    def writes(c, self, interval):
        return [("all", "demand", lambda x: True)]

    def ensures(c, self, interval):
        s0 = c.old(self)
        d = s0.target.demand
        ev = c.event_at(0)
        from pyvc.engine import Event
        import pyvc.z as Z
        chosen_t = Event.e_a(ev)
        chosen = c.view_term(chosen_t, Slave, c.old_heap)
        return {
            "delegates-exactly-once": c.And(c.n_events() == 1, Event.e_kind(ev) == c.ctx.E.event_kind("regulate"), Event.e_b(ev) == interval.t),
            "to-the-controller-with-the-greatest-threshold-not-above-demand-else-default":
                selected(c, s0._slaves, s0._slaves.len, d, s0._default, chosen),
        }

    loops = {
        0: Loop(
            inv=lambda c, L, i: {
                "chosen-is-last-match-so-far": c.Or(
                    c.And(L.chosen == c.old(L.self)._default, c.forall("j", lambda j: c.Implies(c.And(0 <= j, j < i), c.Not(thr(c.seq, j) <= L.self.target.demand)))),
                    c.exists("k", lambda k: c.And(0 <= k, k < i, L.chosen == ctl(c.seq, k), thr(c.seq, k) <= L.self.target.demand,
                                                  c.forall("j", lambda j: c.Implies(c.And(k < j, j < i), c.Not(thr(c.seq, j) <= L.self.target.demand))))),
                ),
                "no-events-yet": c.no_events(),
            },
            local_types={"chosen": Slave, "demand": NumFin, "slave": Slave},
        )
    }


# ---------------------------------------------------------------------------------------- Stepwise / RangeSelector
SPool = pool(supply=NumNonNeg, demand=NumX)     # the pool model: supply is never negative (stated precondition of C08/Stepwise)


@contract("abstract:ControlRule", kind="abstract", skip_body=True)
class rule_call:
    """a control rule rule(pool, interval) -> Optional[float]: one `rule` event; reads the pool, modifies nothing, raises nothing"""
    params = dict(self=None, pool=SPool, interval=NumFin)
    result = TOpt(NumX)

    def emits(c, ctx, self, pool, interval):
        ctx.emit("rule", self, pool, interval)


Rule = TFn(rule_call)
rule_call.params["self"] = Rule
Entry = TTuple(TTuple(NumX, NumX), Rule)
Selector = TObj(STEP + ":RangeSelector", _lookup=TSeq(Entry, "dict-items"))


def low(tbl, j):
    return tbl[j][0][0]


def high(tbl, j):
    return tbl[j][0][1]


def rule(tbl, j):
    return tbl[j][1]


def lookup_inv(c, tbl):
    """representation invariant of RangeSelector._lookup (established by _compile_lookup): consecutive half-open
    ranges [0,t1),[t1,t2),...,[tk,inf) with t1 < t2 < ... < tk, mapped to base, r1, ..., rk"""
    n = tbl.len
    return c.And(
        n >= 1,
        low(tbl, 0) == 0,
        high(tbl, n - 1).is_pinf,
        c.forall("j", lambda j: c.Implies(c.And(0 <= j, j < n - 1), c.And(high(tbl, j) == low(tbl, j + 1), high(tbl, j).finite))),
        c.forall("a b", lambda a, b: c.Implies(c.And(1 <= a, a < b, b < n), low(tbl, a) < low(tbl, b))),
    )


def rule_selected(c, tbl, supply, result):
    """result = the rule with the greatest threshold not above supply, else the base rule (entry 0)"""
    n = tbl.len
    return c.Or(
        c.And(result == rule(tbl, 0), c.forall("j", lambda j: c.Implies(c.And(1 <= j, j < n), c.Not(low(tbl, j) <= supply)))),
        c.exists("k", lambda k: c.And(1 <= k, k < n, result == rule(tbl, k), low(tbl, k) <= supply,
                                      c.forall("j", lambda j: c.Implies(c.And(1 <= j, j < n, low(tbl, j) <= supply), low(tbl, j) <= low(tbl, k))))),
    )


@contract(STEP + ":RangeSelector.get_rule", props=["C08", "C09"])
class get_rule:
    params = dict(self=Selector, supply=NumNonNeg)
    result = Rule
    witness = lambda: dict(self=_real_stepwise()._selector, supply=7)

    def requires(c, self, supply):
        return lookup_inv(c, self._lookup)

    def ensures(c, self, supply, result):
        return {"greatest-threshold-not-above-supply-else-base": rule_selected(c, self._lookup, supply, result)}

    loops = {
        0: Loop(inv=lambda c, L, i: {
            # stated at the indices the proof uses (i-1 and i) instead of "for all j < i": no quantifier to instantiate
            "supply-is-beyond-the-previous-range": c.Implies(i > 0, high(c.seq, i - 1) <= L.supply),
            "supply-is-not-below-the-next-range": c.Implies(i < c.seq.len, low(c.seq, i) <= L.supply),
        }, local_types={"low": NumX, "high": NumX, "rule": Rule})
    }


Stepw = TObj(STEP + ":Stepwise", target=SPool, interval=NumFin, _selector=Selector)


def _real_stepwise():
    from cobald.controller.stepwise import Stepwise
    from pyvc.replay import StubPool, make_stub_class

    p = make_stub_class(SPool)(supply=1.0, demand=0.0, utilisation=0.5, allocation=0.5)
    r = lambda pool, interval: None
    return Stepwise(p, r, (10, lambda pool, interval: 1), (5.5, lambda pool, interval: 2), interval=3)


@contract(STEP + ":Stepwise.run", props=["C08", "C09"])
class stepwise_run:
    params = dict(self=Stepw)
    has_events = True
    never_returns = True
    witness = lambda: dict(self=_real_stepwise())

    def requires(c, self):
        return c.And(lookup_inv(c, self._selector._lookup), self.interval >= 0)

    def writes(c, self):
        return [("all", f, lambda x: True) for f in ("supply", "demand", "utilisation", "allocation")]

    raises = {"trio.Cancelled": lambda c, self, exc: True}

    loops = {
        0: Loop(
            inv=lambda c, L, k: {
                "same-target-and-interval": c.And(L.target == c.old(L.self).target, L.self.target == L.target, L.interval.same(c.old(L.self).interval),
                                                  c.unchanged(L.self, "_selector", "target", "interval")),
            },
            # between two iterations the task sleeps: every pool's state may change meanwhile
            modifies=lambda c, L: [("all", f, lambda x: True) for f in ("supply", "demand", "utilisation", "allocation")] + [("trace",)],
            local_types={"current_rule": Rule, "demand": TOpt(NumX)},
            step=lambda c, L, L0: _stepwise_iteration(c, L, L0),
        )
    }


def _stepwise_iteration(c, L, L0):
    from pyvc.engine import Event
    s0 = c.old(L.self)
    tgt0 = c.old(L.target)
    tbl = s0._selector._lookup
    e0 = c.event_at(0)
    applied = c.view_term(Event.e_a(e0), Rule, c.old_heap)
    result = L.demand
    rule_ev = c.And(Event.e_kind(e0) == c.ctx.E.event_kind("rule"), Event.e_b(e0) == L.target.t, Event.e_c(e0) == L.interval.t)
    sleep_ev = lambda k: c.event_at(k) == c.event("sleep", L.interval)
    return {
        "exactly-one-rule-applied-to-target-and-interval": c.And(rule_ev, c.Implies(result == None, c.n_events() == 2), c.Implies(result != None, c.n_events() == 3)),
        "the-rule-with-greatest-threshold-not-above-supply-else-base": rule_selected(c, tbl, tgt0.supply, applied),
        # stated on the trace: the iteration's only effects are these events (the pool itself may move while the task sleeps)
        "no-demand-write-when-rule-returns-None": c.Implies(result == None, c.And(c.n_events() == 2, sleep_ev(1))),
        "demand-set-to-exactly-the-result-otherwise": c.Implies(result != None, c.And(c.event_at(1) == c.event("store", L.target, "demand", result), sleep_ev(2))),
        "step-then-one-sleep-of-interval": c.Or(sleep_ev(1), sleep_ev(2)),
    }


# ---------------------------------------------------------------------------------------- the two table constructors, per table size
# (all real thresholds, tables of <= 3 entries; larger tables only by the bounded stand-in bounded/c08_tables.py)
from pyvc.values import VTuple as _VT, VList as _VL, VDict as _VD, SV as _SV
from pyvc.engine import fresh_val as _fv


def _sym_slave(ctx, k):
    sv = ctx.typed(z3.Const("p_slaves_controller%d" % k, Z.Val), Slave)     # stable names: a counter-model is replayed in a fresh context
    ctx.assume(z3.And(Z.Val.id(sv.t) > 0, Z.Val.id(sv.t) < ctx.alloc0))
    ctx.assume_class(sv.t, Slave)
    ctx.touch(sv)
    return sv


def _mk_switch_init(n):
    class init:
        __doc__ = ("DemandSwitch over %d (threshold, controller) pair(s) given in ANY order with ANY real thresholds: the slave table is the pairs sorted by "
                   "ascending threshold (the representation invariant `ascending` that regulate relies on), every controller is re-targeted to the switch's "
                   "pool; equal thresholds are rejected (TypeError out of sorted)" % n)
        body_key = SW + ":DemandSwitch.__init__"
        new_object = "self"
        params = {"self": Switch, "target": Pool, "default": Slave,
                  "*slaves": lambda ctx: _VT([x for k in range(n) for x in (ctx.typed(z3.Const("p_slaves_threshold%d" % k, Z.Val), NumFin), _sym_slave(ctx, k))]), "interval": NumFin}
        has_events = True

        def requires(c, self, target, default, slaves, interval):
            ctls = [slaves[2 * k + 1] for k in range(n)]
            distinct = [ctls[a].t != ctls[b].t for a in range(n) for b in range(a + 1, n)] + [x.t != default.t for x in ctls]
            free = [c.Or(x.target.is_none if hasattr(x.target, "is_none") else Z.is_none(x.target.t), x.target.t == target.t) for x in ctls + [default]]
            return c.And(*distinct, *free)

        def writes(c, self, target, default, slaves, interval):
            return [(self, f) for f in ("target", "_default", "_slaves", "interval")] + [("all", "target", lambda x: True)]

        def ensures(c, self, target, default, slaves, interval):
            tbl = self._slaves
            ths = [slaves[2 * k] for k in range(n)]
            ctls = [slaves[2 * k + 1] for k in range(n)]
            facts = {"the-table-has-one-entry-per-pair": tbl.len == n,
                     "thresholds-ascend-strictly": ascending(c, tbl),
                     "every-pair-is-in-the-table-with-its-own-controller": c.And(*[c.Or(*[c.And(thr(tbl, j).same(ths[k]), ctl(tbl, j).t == ctls[k].t) for j in range(n)]) for k in range(n)]) if n else True,
                     "all-controllers-target-the-switchs-pool": c.And(default.target.t == target.t, *[x.target.t == target.t for x in ctls]),
                     "configured": c.And(self._default.t == default.t, self.target.t == target.t, self.interval.same(interval))}
            return facts

        raises = {"TypeError": lambda c, self, target, default, slaves, interval, exc: c.Or(*[slaves[2 * a].r == slaves[2 * b].r for a in range(n) for b in range(a + 1, n)]) if n > 1 else False}
    return init


for _n in (0, 1, 2, 3):
    contract(SW + ":DemandSwitch.__init__#pairs(%d)" % _n, props=["C08"])(_mk_switch_init(_n))
