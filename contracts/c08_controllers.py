"""C08 - controllers move demand only in the documented direction and amount (DESIGN.md section 5, C08)."""
from .common import *

Pool = pool()
LIN = "cobald.controller.linear"
REL = "cobald.controller.relative_supply"
SW = "cobald.controller.switch"
STEP = "cobald.controller.stepwise"

# ---------------------------------------------------------------------------------------- LinearController
Linear = TObj(LIN + ":LinearController", target=Pool, rate=NumFin, interval=NumFin, low_utilisation=NumFin, high_allocation=NumFin)


def linear_valid(c, s):
    return c.And(s.rate > 0, s.low_utilisation <= s.high_allocation)


@contract(LIN + ":LinearController.regulate", props=["C08", "C09"])
class linear_regulate:
    announce = True
    params = dict(self=Linear, interval=NumFin)
    has_events = True

    def requires(c, self, interval):
        return c.And(linear_valid(c, self), interval >= 0)

    def writes(c, self, interval):
        return [(self.target, "demand")]

    def ensures(c, self, interval):
        t0 = c.old(self.target)
        t1 = self.target
        low = t0.utilisation < self.low_utilisation
        high = c.And(c.Not(low), t0.allocation > self.high_allocation)
        step = interval * self.rate
        return {
            "down-by-exactly-rate-x-interval-iff-utilisation-low": c.Implies(low, c.And(t1.demand == t0.demand - step, c.events_are(c.event("store", t1, "demand", t1.demand)))),
            "up-by-exactly-rate-x-interval-iff-only-allocation-high": c.Implies(high, c.And(t1.demand == t0.demand + step, c.events_are(c.event("store", t1, "demand", t1.demand)))),
            "untouched-when-neither": c.Implies(c.And(c.Not(low), c.Not(high)), c.And(c.no_events(), t1.demand.same(t0.demand))),
            "at-most-rate-x-interval": abs(t1.demand - t0.demand) <= step,
            "only-demand-changes": c.unchanged(t1, "supply", "utilisation", "allocation"),
        }


@contract(LIN + ":LinearController.__init__", props=["C08"])
class linear_init:
    params = dict(self=Linear, target=Pool, low_utilisation=NumFin, high_allocation=NumFin, rate=NumFin, interval=NumFin)
    new_object = "self"

    def writes(c, self, **kw):
        return [(self, f) for f in ("target", "rate", "interval", "low_utilisation", "high_allocation")]

    def ensures(c, self, target, low_utilisation, high_allocation, rate, interval):
        return {
            "accepted-parameters-are-valid": linear_valid(c, self),
            "fields": c.And(self.target == target, self.rate.same(rate), self.interval.same(interval),
                            self.low_utilisation.same(low_utilisation), self.high_allocation.same(high_allocation)),
        }

    raises = {
        "AssertionError": lambda c, self, target, low_utilisation, high_allocation, rate, interval, exc:
            c.Not(c.And(rate > 0, low_utilisation <= high_allocation)),
    }


# ---------------------------------------------------------------------------------------- RelativeSupplyController
Relative = TObj(REL + ":RelativeSupplyController", target=Pool, interval=NumFin, low_utilisation=NumFin, high_allocation=NumFin,
                low_scale=NumFin, high_scale=NumFin)


def relative_valid(c, s):
    return c.And(s.low_utilisation <= s.high_allocation, s.low_scale < 1, s.high_scale > 1)


@contract(REL + ":RelativeSupplyController.regulate", props=["C08", "C09"])
class relative_regulate:
    announce = True
    params = dict(self=Relative, interval=NumFin)
    has_events = True

    def requires(c, self, interval):
        return relative_valid(c, self)

    def writes(c, self, interval):
        return [(self.target, "demand")]

    def ensures(c, self, interval):
        t0 = c.old(self.target)
        t1 = self.target
        low = t0.utilisation < self.low_utilisation
        high = c.And(c.Not(low), t0.allocation > self.high_allocation)
        return {
            "exactly-one-store": c.events_are(c.event("store", t1, "demand", t1.demand)),
            "supply-x-low-scale-iff-utilisation-low": c.Implies(low, t1.demand == t0.supply * self.low_scale),
            "supply-x-high-scale-iff-only-allocation-high": c.Implies(high, t1.demand == t0.supply * self.high_scale),
            "supply-when-neither": c.Implies(c.And(c.Not(low), c.Not(high)), t1.demand == t0.supply),
            "only-demand-changes": c.unchanged(t1, "supply", "utilisation", "allocation"),
        }


@contract(REL + ":RelativeSupplyController.__init__", props=["C08"])
class relative_init:
    params = dict(self=Relative, target=Pool, low_utilisation=NumFin, high_allocation=NumFin, low_scale=NumFin, high_scale=NumFin, interval=NumFin)
    new_object = "self"

    def writes(c, self, **kw):
        return [(self, f) for f in ("target", "interval", "low_utilisation", "high_allocation", "low_scale", "high_scale")]

    def ensures(c, self, target, low_utilisation, high_allocation, low_scale, high_scale, interval):
        return {
            "accepted-parameters-are-valid": relative_valid(c, self),
            "fields": c.And(self.target == target, self.interval.same(interval), self.low_utilisation.same(low_utilisation),
                            self.high_allocation.same(high_allocation), self.low_scale.same(low_scale), self.high_scale.same(high_scale)),
        }

    raises = {
        "AssertionError": lambda c, self, target, low_utilisation, high_allocation, low_scale, high_scale, interval, exc:
            c.Not(c.And(low_utilisation <= high_allocation, low_scale < 1, high_scale > 1)),
    }


# ---------------------------------------------------------------------------------------- DemandSwitch
@contract("abstract:Controller.regulate", kind="abstract", skip_body=True)
class slave_regulate:
    """a slaved controller's regulate(interval): one `regulate` event; may change its target's demand"""
    params = dict(self=None, interval=NumFin)
    has_events = True

    def emits(c, ctx, self, interval):
        ctx.emit("regulate", self, interval)

    def writes(c, self, interval):
        return [(self.target, "demand")]


Slave = TAbs("Controller", fields=dict(target=TOpt(Pool)), methods=dict(regulate=slave_regulate))
Slave.isa = ["cobald.interfaces._controller:Controller"]
slave_regulate.params["self"] = Slave
SlavePair = TTuple(NumFin, Slave)
Switch = TObj(SW + ":DemandSwitch", target=Pool, _default=Slave, _slaves=TSeq(SlavePair, "tuple"), interval=NumFin)


def thr(slaves, j):
    return slaves[j][0]


def ctl(slaves, j):
    return slaves[j][1]


def selected(c, slaves, n, demand, default, chosen):
    """chosen = the slave with the greatest threshold not above demand, else the default"""
    return c.Or(
        c.And(chosen == default, c.forall("j", lambda j: c.Implies(c.And(0 <= j, j < n), c.Not(thr(slaves, j) <= demand)))),
        c.exists("k", lambda k: c.And(0 <= k, k < n, chosen == ctl(slaves, k), thr(slaves, k) <= demand,
                                      c.forall("j", lambda j: c.Implies(c.And(0 <= j, j < n, thr(slaves, j) <= demand), thr(slaves, j) <= thr(slaves, k))))),
    )


def ascending(c, slaves):
    return c.forall("a b", lambda a, b: c.Implies(c.And(0 <= a, a < b, b < slaves.len), thr(slaves, a) < thr(slaves, b)))


def _real_switch():
    from cobald.controller.switch import DemandSwitch
    from cobald.controller.linear import LinearController
    from pyvc.replay import make_stub_class

    p = make_stub_class(Pool)(supply=1.0, demand=0.0, utilisation=0.5, allocation=0.5)
    return DemandSwitch(p, LinearController(p), 10, LinearController(p), 2.5, LinearController(p))


@contract(SW + ":DemandSwitch.regulate", props=["C08", "C09"])
class switch_regulate:
    announce = True
    params = dict(self=Switch, interval=NumFin)
    has_events = True
    witness = lambda: dict(self=_real_switch(), interval=1)

    def requires(c, self, interval):
        # representation invariant established by __init__: thresholds strictly ascending (sorted; equal
        # thresholds are rejected by sorted() comparing controllers)
        return ascending(c, self._slaves)

    def writes(c, self, interval):
        return [("all", "demand", lambda x: True)]

    def ensures(c, self, interval):
        s0 = c.old(self)
        d = s0.target.demand
        ev = c.event_at(0)
        from pyvc.engine import Event
        import pyvc.z as Z
        chosen_t = Event.e_a(ev)
        chosen = c.view_term(chosen_t, Slave, c.old_heap)
        return {
            "delegates-exactly-once": c.And(c.n_events() == 1, Event.e_kind(ev) == c.ctx.E.event_kind("regulate"), Event.e_b(ev) == interval.t),
            "to-the-controller-with-the-greatest-threshold-not-above-demand-else-default":
                selected(c, s0._slaves, s0._slaves.len, d, s0._default, chosen),
        }

    loops = {
        0: Loop(
            inv=lambda c, L, i: {
                "chosen-is-last-match-so-far": c.Or(
                    c.And(L.chosen == c.old(L.self)._default, c.forall("j", lambda j: c.Implies(c.And(0 <= j, j < i), c.Not(thr(c.seq, j) <= L.self.target.demand)))),
                    c.exists("k", lambda k: c.And(0 <= k, k < i, L.chosen == ctl(c.seq, k), thr(c.seq, k) <= L.self.target.demand,
                                                  c.forall("j", lambda j: c.Implies(c.And(k < j, j < i), c.Not(thr(c.seq, j) <= L.self.target.demand))))),
                ),
                "no-events-yet": c.no_events(),
            },
            local_types={"chosen": Slave, "demand": NumFin, "slave": Slave},
        )
    }


# ---------------------------------------------------------------------------------------- Stepwise / RangeSelector
SPool = pool(supply=NumNonNeg, demand=NumX)     # the pool model: supply is never negative (stated precondition of C08/Stepwise)


@contract("abstract:ControlRule", kind="abstract", skip_body=True)
class rule_call:
    """a control rule rule(pool, interval) -> Optional[float]: one `rule` event; reads the pool, modifies nothing, raises nothing"""
    params = dict(self=None, pool=SPool, interval=NumFin)
    result = TOpt(NumX)

    def emits(c, ctx, self, pool, interval):
        ctx.emit("rule", self, pool, interval)


Rule = TFn(rule_call)
rule_call.params["self"] = Rule
Entry = TTuple(TTuple(NumX, NumX), Rule)
Selector = TObj(STEP + ":RangeSelector", _lookup=TSeq(Entry, "dict-items"))


def low(tbl, j):
    return tbl[j][0][0]


def high(tbl, j):
    return tbl[j][0][1]


def rule(tbl, j):
    return tbl[j][1]


def lookup_inv(c, tbl):
    """representation invariant of RangeSelector._lookup (established by _compile_lookup): consecutive half-open
    ranges [0,t1),[t1,t2),...,[tk,inf) with t1 < t2 < ... < tk, mapped to base, r1, ..., rk"""
    n = tbl.len
    return c.And(
        n >= 1,
        low(tbl, 0) == 0,
        high(tbl, n - 1).is_pinf,
        c.forall("j", lambda j: c.Implies(c.And(0 <= j, j < n - 1), c.And(high(tbl, j) == low(tbl, j + 1), high(tbl, j).finite))),
        c.forall("a b", lambda a, b: c.Implies(c.And(1 <= a, a < b, b < n), low(tbl, a) < low(tbl, b))),
    )


def rule_selected(c, tbl, supply, result):
    """result = the rule with the greatest threshold not above supply, else the base rule (entry 0)"""
    n = tbl.len
    return c.Or(
        c.And(result == rule(tbl, 0), c.forall("j", lambda j: c.Implies(c.And(1 <= j, j < n), c.Not(low(tbl, j) <= supply)))),
        c.exists("k", lambda k: c.And(1 <= k, k < n, result == rule(tbl, k), low(tbl, k) <= supply,
                                      c.forall("j", lambda j: c.Implies(c.And(1 <= j, j < n, low(tbl, j) <= supply), low(tbl, j) <= low(tbl, k))))),
    )


@contract(STEP + ":RangeSelector.get_rule", props=["C08", "C09"])
class get_rule:
    params = dict(self=Selector, supply=NumNonNeg)
    result = Rule
    witness = lambda: dict(self=_real_stepwise()._selector, supply=7)

    def requires(c, self, supply):
        return lookup_inv(c, self._lookup)

    def ensures(c, self, supply, result):
        return {"greatest-threshold-not-above-supply-else-base": rule_selected(c, self._lookup, supply, result)}

    loops = {
        0: Loop(inv=lambda c, L, i: {
            # stated at the indices the proof uses (i-1 and i) instead of "for all j < i": no quantifier to instantiate
            "supply-is-beyond-the-previous-range": c.Implies(i > 0, high(c.seq, i - 1) <= L.supply),
            "supply-is-not-below-the-next-range": c.Implies(i < c.seq.len, low(c.seq, i) <= L.supply),
        }, local_types={"low": NumX, "high": NumX, "rule": Rule})
    }


Stepw = TObj(STEP + ":Stepwise", target=SPool, interval=NumFin, _selector=Selector)


def _real_stepwise():
    from cobald.controller.stepwise import Stepwise
    from pyvc.replay import StubPool, make_stub_class

    p = make_stub_class(SPool)(supply=1.0, demand=0.0, utilisation=0.5, allocation=0.5)
    r = lambda pool, interval: None
    return Stepwise(p, r, (10, lambda pool, interval: 1), (5.5, lambda pool, interval: 2), interval=3)


@contract(STEP + ":Stepwise.run", props=["C08", "C09"])
class stepwise_run:
    params = dict(self=Stepw)
    has_events = True
    never_returns = True
    witness = lambda: dict(self=_real_stepwise())

    def requires(c, self):
        return c.And(lookup_inv(c, self._selector._lookup), self.interval >= 0)

    def writes(c, self):
        return [("all", f, lambda x: True) for f in ("supply", "demand", "utilisation", "allocation")]

    raises = {"trio.Cancelled": lambda c, self, exc: True}

    loops = {
        0: Loop(
            inv=lambda c, L, k: {
                "same-target-and-interval": c.And(L.target == c.old(L.self).target, L.self.target == L.target, L.interval.same(c.old(L.self).interval),
                                                  c.unchanged(L.self, "_selector", "target", "interval")),
            },
            # between two iterations the task sleeps: every pool's state may change meanwhile
            modifies=lambda c, L: [("all", f, lambda x: True) for f in ("supply", "demand", "utilisation", "allocation")] + [("trace",)],
            local_types={"current_rule": Rule, "demand": TOpt(NumX)},
            step=lambda c, L, L0: _stepwise_iteration(c, L, L0),
        )
    }


def _stepwise_iteration(c, L, L0):
    from pyvc.engine import Event
    s0 = c.old(L.self)
    tgt0 = c.old(L.target)
    tbl = s0._selector._lookup
    e0 = c.event_at(0)
    applied = c.view_term(Event.e_a(e0), Rule, c.old_heap)
    result = L.demand
    rule_ev = c.And(Event.e_kind(e0) == c.ctx.E.event_kind("rule"), Event.e_b(e0) == L.target.t, Event.e_c(e0) == L.interval.t)
    sleep_ev = lambda k: c.event_at(k) == c.event("sleep", L.interval)
    return {
        "exactly-one-rule-applied-to-target-and-interval": c.And(rule_ev, c.Implies(result == None, c.n_events() == 2), c.Implies(result != None, c.n_events() == 3)),
        "the-rule-with-greatest-threshold-not-above-supply-else-base": rule_selected(c, tbl, tgt0.supply, applied),
        # stated on the trace: the iteration's only effects are these events (the pool itself may move while the task sleeps)
        "no-demand-write-when-rule-returns-None": c.Implies(result == None, c.And(c.n_events() == 2, sleep_ev(1))),
        "demand-set-to-exactly-the-result-otherwise": c.Implies(result != None, c.And(c.event_at(1) == c.event("store", L.target, "demand", result), sleep_ev(2))),
        "step-then-one-sleep-of-interval": c.Or(sleep_ev(1), sleep_ev(2)),
    }


# ---------------------------------------------------------------------------------------- the two table constructors, per table size
# (all real thresholds, tables of <= 3 entries; larger tables only by the bounded stand-in bounded/c08_tables.py)
from pyvc.values import VTuple as _VT, VList as _VL, VDict as _VD, SV as _SV
from pyvc.engine import fresh_val as _fv


def _sym_slave(ctx, k):
    sv = ctx.typed(z3.Const("p_slaves_controller%d" % k, Z.Val), Slave)     # stable names: a counter-model is replayed in a fresh context
    ctx.assume(z3.And(Z.Val.id(sv.t) > 0, Z.Val.id(sv.t) < ctx.alloc0))
    ctx.assume_class(sv.t, Slave)
    ctx.touch(sv)
    return sv


def _mk_switch_init(n):
    class init:
        __doc__ = ("DemandSwitch over %d (threshold, controller) pair(s) given in ANY order with ANY real thresholds: the slave table is the pairs sorted by "
                   "ascending threshold (the representation invariant `ascending` that regulate relies on), every controller is re-targeted to the switch's "
                   "pool; equal thresholds are rejected (TypeError out of sorted)" % n)
        body_key = SW + ":DemandSwitch.__init__"
        new_object = "self"
        params = {"self": Switch, "target": Pool, "default": Slave,
                  "*slaves": lambda ctx: _VT([x for k in range(n) for x in (ctx.typed(z3.Const("p_slaves_threshold%d" % k, Z.Val), NumFin), _sym_slave(ctx, k))]), "interval": NumFin}
        has_events = True

        def requires(c, self, target, default, slaves, interval):
            ctls = [slaves[2 * k + 1] for k in range(n)]
            distinct = [ctls[a].t != ctls[b].t for a in range(n) for b in range(a + 1, n)] + [x.t != default.t for x in ctls]
            free = [c.Or(x.target.is_none if hasattr(x.target, "is_none") else Z.is_none(x.target.t), x.target.t == target.t) for x in ctls + [default]]
            return c.And(*distinct, *free)

        def writes(c, self, target, default, slaves, interval):
            return [(self, f) for f in ("target", "_default", "_slaves", "interval")] + [("all", "target", lambda x: True)]

        def ensures(c, self, target, default, slaves, interval):
            tbl = self._slaves
            ths = [slaves[2 * k] for k in range(n)]
            ctls = [slaves[2 * k + 1] for k in range(n)]
            facts = {"the-table-has-one-entry-per-pair": tbl.len == n,
                     "thresholds-ascend-strictly": ascending(c, tbl),
                     "every-pair-is-in-the-table-with-its-own-controller": c.And(*[c.Or(*[c.And(thr(tbl, j).same(ths[k]), ctl(tbl, j).t == ctls[k].t) for j in range(n)]) for k in range(n)]) if n else True,
                     "all-controllers-target-the-switchs-pool": c.And(default.target.t == target.t, *[x.target.t == target.t for x in ctls]),
                     "configured": c.And(self._default.t == default.t, self.target.t == target.t, self.interval.same(interval))}
            return facts

        raises = {"TypeError": lambda c, self, target, default, slaves, interval, exc: c.Or(*[slaves[2 * a].r == slaves[2 * b].r for a in range(n) for b in range(a + 1, n)]) if n > 1 else False}
    return init


for _n in (0, 1, 2, 3):
    contract(SW + ":DemandSwitch.__init__#pairs(%d)" % _n, props=["C08"])(_mk_switch_init(_n))


# ---- RangeSelector._compile_lookup: establishes lookup_inv --------------------------------------------------------------------------
Lookup = TSeq(Entry, "dict-items")


def _sym_rule(ctx, name):
    sv = ctx.typed(z3.Const("p_rules_%s" % name, Z.Val), Rule)
    return sv


def _lookup_post(c, tbl, base, ths, rls):
    n = len(ths)
    return {"ranges-start-at-zero-end-at-infinity-and-follow-each-other-with-ascending-thresholds": lookup_inv(c, tbl),
            "one-range-per-rule-plus-the-base-range": tbl.len == n + 1,
            "the-base-rule-has-the-first-range": rule(tbl, 0).t == base.t,
            "every-rule-sits-on-the-range-that-starts-at-its-own-threshold":
                c.And(*[c.Or(*[c.And(low(tbl, j) == ths[k], rule(tbl, j).t == rls[k].t) for j in range(1, n + 1)]) for k in range(n)]) if n else True}


def _mk_compile_lookup(n):
    class compile_lookup:
        __doc__ = ("RangeSelector._compile_lookup for %d (threshold, rule) pair(s) given in ANY order with ANY finite thresholds: the table it returns satisfies the "
                   "representation invariant `lookup_inv` that get_rule and Stepwise.run take as their precondition, and every rule sits on its own threshold; two equal "
                   "thresholds are a TypeError (sorted() compares the rules), a smallest threshold equal to the implicit lower bound 0 is a ValueError" % n)
        body_key = STEP + ":RangeSelector._compile_lookup"
        params = {"base": Rule,
                  "rules": lambda ctx: _VT([_VT([ctx.typed(z3.Const("p_rules_threshold%d" % k, Z.Val), NumFin), _sym_rule(ctx, "rule%d" % k)]) for k in range(n)])}
        result = Lookup

        def writes(c, base, rules):
            return []

        def ensures(c, base, rules, result):
            return _lookup_post(c, result, base, [rules[k][0] for k in range(n)], [rules[k][1] for k in range(n)])

        raises = {"TypeError": lambda c, base, rules, exc: c.Or(*[rules[a][0].r == rules[b][0].r for a in range(n) for b in range(a + 1, n)]) if n > 1 else False,
                  "ValueError": lambda c, base, rules, exc: c.Or(*[rules[k][0].r == 0 for k in range(n)]) if n else False}
    return compile_lookup


for _n in (0, 1, 2, 3):
    contract(STEP + ":RangeSelector._compile_lookup#rules(%d)" % _n, props=["C08"])(_mk_compile_lookup(_n))


# ---- Stepwise.__init__: the constructor establishes the precondition of Stepwise.run --------------------------------------------------
def _mk_stepwise_init(n):
    class init:
        __doc__ = ("Stepwise(target, base, *%d (threshold, rule) pair(s) in ANY order, interval=...): RangeSelector.__init__ and _compile_lookup are INLINED, so this is the "
                   "whole construction - afterwards the selector's table satisfies `lookup_inv` (the precondition of get_rule and Stepwise.run), holds the base rule first "
                   "and every rule on its own threshold, and the controller acts on the given target with the given interval" % n)
        body_key = STEP + ":Stepwise.__init__"
        new_object = "self"
        params = {"self": Stepw, "target": SPool, "base": Rule,
                  "*rules": lambda ctx: _VT([_VT([ctx.typed(z3.Const("p_rules_threshold%d" % k, Z.Val), NumFin), _sym_rule(ctx, "rule%d" % k)]) for k in range(n)]),
                  "interval": NumFin}

        def writes(c, self, target, base, rules, interval):
            return [(self, f) for f in ("target", "interval", "_selector")]

        def ensures(c, self, target, base, rules, interval):
            out = _lookup_post(c, self._selector._lookup, base, [rules[k][0] for k in range(n)], [rules[k][1] for k in range(n)])
            out["a-new-selector-of-its-own"] = c.And(self._selector.cls_is(STEP + ":RangeSelector"), Z.Val.id(self._selector.t) >= c.ctx.alloc0)
            out["acts-on-the-given-target-with-the-given-interval"] = c.And(self.target.t == target.t, self.interval.same(interval))
            return out

        raises = {"TypeError": lambda c, self, target, base, rules, interval, exc: c.Or(*[rules[a][0].r == rules[b][0].r for a in range(n) for b in range(a + 1, n)]) if n > 1 else False,
                  "ValueError": lambda c, self, target, base, rules, interval, exc: c.Or(*[rules[k][0].r == 0 for k in range(n)]) if n else False}
    return init


for _n in (0, 1, 2, 3):
    contract(STEP + ":Stepwise.__init__#rules(%d)" % _n, props=["C08"])(_mk_stepwise_init(_n))


# ---- the decorator interface: a skeleton called with a pool builds the controller from the rules registered so far -------------------
UStepw = TObj(STEP + ":UnboundStepwise", base=Rule, rules=TAny(), _thresholds=TAny())


def _mk_ustep_call(n, with_interval):
    class call:
        __doc__ = ("UnboundStepwise skeleton with %d registered rule(s) (ANY order, ANY finite thresholds) called with a pool%s: builds a NEW Stepwise on that pool from the "
                   "base rule and exactly the registered rules (whole construction inlined: its table satisfies `lookup_inv`, every rule on its own threshold); "
                   "interval is the given one, else Stepwise's default 1" % (n, " and an interval" if with_interval else ""))
        body_key = STEP + ":UnboundStepwise.__call__"
        params = {"self": UStepw, "target": SPool, "interval": NumFin if with_interval else TNone()}
        result = TAny()
        has_events = True

        def setup(ctx, I, bound):
            rules = _VL([_VT([ctx.typed(z3.Const("p_rules_threshold%d" % k, Z.Val), NumFin), _sym_rule(ctx, "rule%d" % k)]) for k in range(n)])
            I.setattr(bound["self"], "rules", rules)
            ctx.ghost["c08_rules"] = list(rules.items)
        setup = staticmethod(setup)

        def writes(c, self, target, interval):
            return []

        def ensures(c, self, target, interval, result):
            rules = c.ctx.ghost["c08_rules"]
            rv = c.view_term(result.t, Stepw, c.new_heap)
            ths = [c.view(p.items[0], c.new_heap) for p in rules]
            rls = [c.view(p.items[1], c.new_heap) for p in rules]
            out = _lookup_post(c, rv._selector._lookup, c.old(self).base, ths, rls)
            out["a-new-Stepwise-controller"] = c.And(rv.cls_is(STEP + ":Stepwise"), Z.Val.id(result.t) >= c.ctx.alloc0)
            out["on-the-given-pool-with-the-given-interval-else-the-default"] = c.And(rv.target.t == target.t, rv.interval.same(interval) if with_interval else rv.interval == 1)
            out["the-skeleton-is-not-modified"] = c.unchanged(self, "base", "rules", "_thresholds")
            return out

        raises = {"TypeError": lambda c, self, target, interval, exc: _ustep_ties(c, n), "ValueError": lambda c, self, target, interval, exc: _ustep_zero(c, n)}
    return call


def _ustep_ties(c, n):
    rules = c.ctx.ghost["c08_rules"]
    ths = [c.view(p.items[0], c.old_heap) for p in rules]
    return c.Or(*[ths[a].r == ths[b].r for a in range(n) for b in range(a + 1, n)]) if n > 1 else False


def _ustep_zero(c, n):
    rules = c.ctx.ghost["c08_rules"]
    ths = [c.view(p.items[0], c.old_heap) for p in rules]
    return c.Or(*[t.r == 0 for t in ths]) if n else False


for _n, _wi in [(0, False), (1, True), (2, False), (2, True), (3, False)]:
    contract(STEP + ":UnboundStepwise.__call__#rules(%d)%s" % (_n, "+interval" if _wi else ""), props=["C08"])(_mk_ustep_call(_n, _wi))


def _mk_ustep_add(n, with_rule):
    class add:
        __doc__ = ("UnboundStepwise.add on a skeleton with %d registered rule(s), %s: a threshold that is (numerically) already registered is a ValueError and nothing changes; "
                   "otherwise %s" % (n, "rule given" if with_rule else "no rule given (decorator form)",
                                     "the (threshold, rule) pair is APPENDED to the rules - all earlier pairs stay, in order - the threshold is recorded and the rule itself is returned"
                                     if with_rule else "nothing changes and the result is add with this threshold pre-set, to be applied to the rule"))
        body_key = STEP + ":UnboundStepwise.add"
        params = {"self": UStepw, "rule": Rule if with_rule else TNone(), "supply": NumFin}
        result = TAny()

        def setup(ctx, I, bound):
            ths = [ctx.typed(z3.Const("p_rules_threshold%d" % k, Z.Val), NumFin) for k in range(n)]
            rules = _VL([_VT([ths[k], _sym_rule(ctx, "rule%d" % k)]) for k in range(n)])
            from pyvc.values import VSet as _VS
            tset = _VS(list(ths))
            I.setattr(bound["self"], "rules", rules)
            I.setattr(bound["self"], "_thresholds", tset)
            ctx.ghost["c08_rules"] = list(rules.items)
            ctx.ghost["c08_displays"] = (rules, tset)
        setup = staticmethod(setup)

        def requires(c, self, rule, supply):
            rules = c.ctx.ghost["c08_rules"]
            ths = [c.view(p.items[0], c.old_heap) for p in rules]
            # representation invariant of the skeleton (established by __init__, kept by add): registered thresholds are pairwise different
            return c.And(*[ths[a].r != ths[b].r for a in range(n) for b in range(a + 1, n)])

        def writes(c, self, rule, supply):
            return []

        def ensures(c, self, rule, supply, result):
            ctx = c.ctx
            old = ctx.ghost["c08_rules"]
            rules, tset = ctx.ghost["c08_displays"]
            same_lists = c.And(_bb(ctx.from_val(_SV(self.rules.t, TAny())) is rules), _bb(ctx.from_val(_SV(self._thresholds.t, TAny())) is tset), c.unchanged(self, "base"))
            if not with_rule:
                from pyvc.values import PartialFn, BoundMethod
                r = ctx.from_val(_SV(result.t, TAny()))
                ok = isinstance(r, PartialFn) and isinstance(r.fn, BoundMethod) and r.fn.fn.key == STEP + ":UnboundStepwise.add" and not r.args and list(r.kwargs) == ["supply"]
                return {"a-threshold-already-registered-is-rejected-at-once": c.Not(_ustep_dup(c, n, supply)),
                        "nothing-is-registered-yet": c.And(_bb(len(rules.items) == n and all(a is b for a, b in zip(rules.items, old))), _bb(len(tset.items) == n), same_lists),
                        "the-result-is-add-of-this-skeleton-with-the-threshold-pre-set":
                            c.And(ctx.to_val(r.fn.self_val).t == self.t, ctx.to_val(r.kwargs["supply"]).t == supply.t) if ok else False}
            last = rules.items[-1] if rules.items else None
            appended = len(rules.items) == n + 1 and all(a is b for a, b in zip(rules.items, old)) and isinstance(last, _VT) and len(last.items) == 2
            return {"the-pair-is-appended-and-all-earlier-pairs-stay-in-order": c.And(ctx.to_val(last.items[0]).t == supply.t, ctx.to_val(last.items[1]).t == rule.t, same_lists) if appended else False,
                    "the-threshold-is-recorded": c.And(_bb(len(tset.items) == n + 1), ctx.to_val(tset.items[-1]).t == supply.t) if len(tset.items) == n + 1 else False,
                    "the-rule-itself-is-returned": result.t == rule.t,
                    "a-threshold-already-registered-is-never-registered-again": c.Not(_ustep_dup(c, n, supply))}

        raises = {"ValueError": lambda c, self, rule, supply, exc: c.And(_ustep_dup(c, n, supply), _bb(len(c.ctx.ghost["c08_displays"][0].items) == n), _bb(len(c.ctx.ghost["c08_displays"][1].items) == n))}
    return add


def _bb(x):
    return z3.BoolVal(bool(x)) if isinstance(x, bool) else x


def _ustep_dup(c, n, supply):
    rules = c.ctx.ghost["c08_rules"]
    ths = [c.view(p.items[0], c.old_heap) for p in rules]
    return c.Or(*[t.r == supply.r for t in ths]) if n else False


for _n, _wr in [(0, True), (1, True), (2, True), (3, True), (1, False), (2, False)]:
    contract(STEP + ":UnboundStepwise.add#rules(%d)%s" % (_n, "" if _wr else "+decorator-form"), props=["C08"])(_mk_ustep_add(_n, _wr))


@contract(STEP + ":UnboundStepwise.__init__", props=["C08"])
class ustep_init:
    """a fresh skeleton holds the base rule and NO registered rule or threshold (each instance its own empty list / set)"""
    new_object = "self"
    params = {"self": UStepw, "base": Rule}

    def writes(c, self, base):
        return [(self, f) for f in ("base", "rules", "_thresholds")]

    def ensures(c, self, base):
        from pyvc.values import VSet as _VS
        ctx = c.ctx
        rules = ctx.from_val(_SV(self.rules.t, TAny()))
        tset = ctx.from_val(_SV(self._thresholds.t, TAny()))
        return {"holds-the-base-rule": self.base.t == base.t,
                "no-rule-and-no-threshold-registered": _bb(isinstance(rules, _VL) and not rules.items and isinstance(tset, _VS) and not tset.items)}


# ---- DemandSwitch.__init__: what it refuses (slaves "are re-targeted and validated") -----------------------------------------------------
IE = "cobald.utility:InvariantError"
SwitchAnyTable = TObj(SW + ":DemandSwitch", target=Pool, _default=Slave, _slaves=TAny(), interval=NumFin)


def _mk_switch_rejects(what):
    class rejects:
        __doc__ = {"odd-1": "a threshold without a controller (1 positional after default)", "odd-3": "three positionals after default (one pair and a lone threshold)",
                   "text-threshold": "a (text, controller) pair", "controller-as-threshold": "a (controller, controller) pair",
                   "foreign-slave": "one pair whose controller already acts on ANOTHER pool", "foreign-default": "a default controller that already acts on ANOTHER pool",
                   "foreign-slave-of-2": "two pairs, one controller already acting on ANOTHER pool"}[what] + \
            ": InvariantError, never a switch; no controller that existed before is touched (nothing is re-targeted before validation ends)"
        body_key = SW + ":DemandSwitch.__init__"
        new_object = "self"
        never_returns = True
        has_events = True

        def _slaves(ctx):
            th = lambda k: ctx.typed(z3.Const("p_slaves_threshold%d" % k, Z.Val), NumFin)
            if what == "odd-1":
                return _VT([th(0)])
            if what == "odd-3":
                return _VT([th(0), _sym_slave(ctx, 0), th(1)])
            if what == "text-threshold":
                return _VT([ctx.typed(z3.Const("p_slaves_text", Z.Val), TStr()), _sym_slave(ctx, 0)])
            if what == "controller-as-threshold":
                return _VT([_sym_slave(ctx, 1), _sym_slave(ctx, 0)])
            if what == "foreign-slave-of-2":
                return _VT([th(0), _sym_slave(ctx, 0), th(1), _sym_slave(ctx, 1)])
            return _VT([th(0), _sym_slave(ctx, 0)])
        # (text / controller in a threshold's place: the table attribute holds, for a moment, pairs that are NOT (number, controller) - no shape is assumed for it)
        params = {"self": SwitchAnyTable if what in ("text-threshold", "controller-as-threshold") else Switch, "target": Pool, "default": Slave, "*slaves": _slaves, "interval": NumFin}

        def requires(c, self, target, default, slaves, interval):
            ctls = [x for x in slaves if getattr(getattr(x, "ty", None), "name", None) == "Controller"]
            distinct = [ctls[a].t != ctls[b].t for a in range(len(ctls)) for b in range(a + 1, len(ctls))] + [x.t != default.t for x in ctls]
            foreign = lambda x: c.And(c.Not(Z.is_none(x.target.t)), x.target.t != target.t)
            extra = []
            if what == "foreign-slave":
                extra = [foreign(ctls[0])]
            elif what == "foreign-default":
                extra = [foreign(default)]
            elif what == "foreign-slave-of-2":
                extra = [c.Or(foreign(ctls[0]), foreign(ctls[1]))]
            return c.And(*distinct, *extra)

        def writes(c, self, target, default, slaves, interval):
            return [(self, f) for f in ("target", "_default", "_slaves", "interval")]

        raises = {IE: lambda c, self, target, default, slaves, interval, exc: True}
        if what == "foreign-slave-of-2":
            raises["TypeError"] = lambda c, self, target, default, slaves, interval, exc: slaves[0].r == slaves[2].r
    return rejects


for _w in ("odd-1", "odd-3", "text-threshold", "controller-as-threshold", "foreign-slave", "foreign-default", "foreign-slave-of-2"):
    contract(SW + ":DemandSwitch.__init__#rejects-%s" % _w, props=["C08"])(_mk_switch_rejects(_w))
