"""C19 - nested __type__ mappings translate bottom-up with exact error locations (DESIGN.md section 5, C19).
The proof is the INDUCTIVE STEP of a structural induction over configuration trees, discharged for every node shape of
width <= 3 (mappings by key set, lists by length; children are arbitrary symbolic subtrees, so the depth is unbounded):
at the recursive call sites the function's own interface contract is assumed (children are strict subtrees), and the body
must establish the node-level facts below.  What is NOT proved is the comprehension loops for arbitrary width (they are
unrolled per shape); the evidence says so, a bounded native stand-in covers random wider trees."""
from .common import *
from .runtime_lib import amethod, ANYT
from pyvc.values import VDict, VSet, VTuple, VList, SV
from pyvc.engine import fresh_val, fresh, Event, Unsupported
import pyvc.z as Z

MAP = "cobald.daemon.config.mapping"
S = z3.StringVal
TR = TObj(MAP + ":Translator")
CE = MAP + ":ConfigurationError"


def _t(v):
    return v.t if hasattr(v, "t") else v


def sstr(v):
    return Z.Val.s(_t(v))


# ---- interface contract of translate_hierarchy: what a (recursive) call may be assumed to do -----------------------------
@contract(MAP + ":Translator.translate_hierarchy", props=["C19"])
class translate_interface:
    """one `translated(structure, where, result)` event after whatever its subtree does, or a LOCATED ConfigurationError whose
    location extends `where` (and a `translate-failed(structure, where)` marker); nothing else is known about the result"""
    params = {"self": TR, "structure": TAny(), "where": TStr(), "**construct_kwargs": None}
    result = TAny()
    has_events = True
    skip_body = True          # the body is proved shape by shape below (#...) against node-level postconditions

    def emits_after(c, ctx, outcome, value, self, structure, where, **kw):
        if outcome == "return":
            ctx.emit("translated", structure, where, value)
        else:
            ctx.emit("translate-failed", structure, where)
            ctx.ghost.setdefault("c19_child_errors", []).append(value)

    raises = {CE: lambda c, self, structure, where, exc, **kw: c.And(Z.is_strv(exc.where.t), z3.PrefixOf(sstr(where), sstr(exc.where)))}
                             # + see translate_interface_raises below (added after the class: needs the class for the second outcome)


def _unlocated_or_foreign(c, exc):
    """HYPOTHESIS on factories (DESIGN.md C19): an exception a factory raises is not itself a ConfigurationError that already
    carries a location - the code cannot tell such a foreign located error from one of its own children's"""
    return c.Or(c.Not(exc.isa(CE)), Z.is_none(exc.where.t))


translate_interface.raises["BaseException"] = lambda c, self, structure, where, exc, **kw: c.Not(exc.isa("Exception"))   # KeyboardInterrupt & co pass through untouched


# ---- factories: arbitrary callables -----------------------------------------------------------------------------------
def _factory_emits(c, ctx, self, args=None, kw=None, **rest):
    calls = ctx.ghost.setdefault("c19_factory_calls", [])
    calls.append({"factory": self, "args": list(args or []), "kwargs": dict(kw or {})})
    ctx.emit("factory-call", self, len(calls) - 1)


def _factory_after(c, ctx, outcome, value, self, **rest):
    ctx.emit("factory-returned" if outcome == "return" else "factory-raised", self, value)
    ctx.ghost.setdefault("c19_factory_outcomes", []).append((outcome, value))


factory_call = amethod("factory", {"self": None, "*args": None, "**kw": None}, doc="an arbitrary callable with an arbitrary outcome (hypothesis: never a LOCATED ConfigurationError)",
                       result=ANYT, emits=_factory_emits, emits_after=_factory_after, has_events=True,
                       raises={"BaseException": lambda c, exc, **k: _unlocated_or_foreign(c, exc)})
Factory = TFn(factory_call)
factory_call.params["self"] = Factory


# ---- construct / load_name interfaces ------------------------------------------------------------------------------------
@contract(MAP + ":Translator.load_name", props=["C19"])
class load_name_interface:
    """interface used by construct: one `load_name(name, result)` event; the result is the object the name denotes (a callable);
    a missing attribute is an UNLOCATED ConfigurationError, a missing root module an ImportError"""
    params = {"absolute_name": TAny()}
    result = Factory
    has_events = True
    skip_body = True

    def emits_after(c, ctx, outcome, value, absolute_name):
        ctx.emit("load_name" if outcome == "return" else "load_name-failed", absolute_name, value)
        ctx.ghost.setdefault("c19_load_outcomes", []).append((outcome, value))

    raises = {CE: lambda c, absolute_name, exc: Z.is_none(exc.where.t), "ImportError": lambda c, absolute_name, exc: True}
    exact_raises = False


@contract(MAP + ":Translator.construct", props=["C19"])
class construct_interface:
    """interface used by translate_hierarchy: one `construct(n)` event - the sidecar records the mapping content and keyword
    arguments that reached it; outcome: any value, an UNLOCATED ConfigurationError (from load_name), or whatever else the
    factory / the import system raises (hypothesis: never a located ConfigurationError)"""
    params = {"self": TR, "mapping": lambda ctx: VDict({}), "**kwargs": None}
    result = TAny()
    has_events = True
    skip_body = True

    def emits(c, ctx, self, mapping, kwargs=None, **rest):
        calls = ctx.ghost.setdefault("c19_constructs", [])
        calls.append({"mapping": dict(mapping), "kwargs": dict(kwargs or {})})
        ctx.emit("construct", self, len(calls) - 1)

    def emits_after(c, ctx, outcome, value, self, mapping, **rest):
        ctx.emit("constructed" if outcome == "return" else "construct-failed", self, value)
        ctx.ghost.setdefault("c19_construct_outcomes", []).append((outcome, value))

    raises = {"BaseException": lambda c, self, mapping, exc, **kw: _unlocated_or_foreign(c, exc)}


# ---- the node-level proof obligations ------------------------------------------------------------------------------------
def _child_where(where, step):
    return z3.Concat(sstr(where), S(step))


def _expect_translated(c, i, child, where, step):
    ev = c.event_at(i)
    return c.And(Event.e_kind(ev) == c.ctx.E.event_kind("translated"), Event.e_a(ev) == _t(child), Event.e_b(ev) == Z.mk_str(_child_where(where, step)))


def _kind_at(c, i, kind):
    return Event.e_kind(c.event_at(i)) == c.ctx.E.event_kind(kind)


def _mk_dict_shape(keys):
    has_type = "__type__" in keys

    class shape:
        __doc__ = ("mapping node with keys %r: every child translated exactly once, in key order, at `where.key`; %s; errors keep the innermost location"
                   % (list(keys), "then exactly ONE construct of the translated items (+ the extra keyword arguments), whose result is the result" if has_type
                      else "the result is the mapping of the translated children, no factory is called"))
        body_key = MAP + ":Translator.translate_hierarchy"
        params = {"self": TR, "structure": lambda ctx: VDict({k: SV(fresh_val("child%d" % n), TAny()) for n, k in enumerate(keys)}), "where": TStr(),
                  "**construct_kwargs": lambda ctx: VDict({"target": SV(fresh_val("extra_target"), TAny())})}
        has_events = True

        def ensures(c, self, structure, where, construct_kwargs, result):
            ctx = c.ctx
            n = len(keys)
            out = {"children-translated-once-each-in-key-order-at-where-dot-key": c.And(c.n_events() >= n, *[_expect_translated(c, i, structure[k], where, "." + k) for i, k in enumerate(keys)])}
            res = c.result
            res = ctx.from_val(res) if isinstance(res, SV) else res
            if not has_type:
                ok = isinstance(res, VDict) and list(res.items) == list(keys)
                out["nothing-else-happens"] = c.n_events() == n
                out["result-is-the-mapping-of-translated-children"] = c.And(*[_t(ctx.to_val(res.items[k])) == Event.e_c(c.event_at(i)) for i, k in enumerate(keys)]) if ok else False
                return out
            cons = ctx.ghost.get("c19_constructs", [])
            out["then-exactly-one-construct-and-nothing-else"] = c.And(c.n_events() == n + 2, _kind_at(c, n, "construct"), _kind_at(c, n + 1, "constructed")) if len(cons) == 1 else False
            if len(cons) == 1:
                m, kw = cons[0]["mapping"], cons[0]["kwargs"]
                out["constructed-from-the-translated-items"] = c.And(*[_t(m[k]) == Event.e_c(c.event_at(i)) for i, k in enumerate(keys)]) if list(m) == list(keys) else False
                out["extra-keyword-arguments-are-passed-on"] = (_t(kw["target"]) == _t(construct_kwargs["target"])) if list(kw) == ["target"] else False
                out["the-result-is-what-construct-returned"] = result.t == Event.e_b(c.event_at(n + 1))
            return out

        def _raise_clause(c, self, structure, where, construct_kwargs, exc):
            ctx = c.ctx
            n = len(keys)
            childs = ctx.ghost.get("c19_child_errors", [])
            cons = ctx.ghost.get("c19_construct_outcomes", [])
            if childs:
                # a child failed: its error - which carries the innermost location - propagates unchanged, nothing after it
                return c.And(exc.t == _t(childs[-1]), _kind_at(c, c.n_events() - 1, "translate-failed"), len(cons) == 0)
            if cons and cons[-1][0] == "raise":
                err = cons[-1][1]
                ev = ObjViewOf(c, err)
                return c.And(c.n_events() == n + 2, *[_expect_translated(c, i, structure[k], where, "." + k) for i, k in enumerate(keys)],
                             c.Or(c.And(ev.isa("Exception"), exc.cls_is(CE), sstr(exc.where) == sstr(where), Z.is_strv(exc.where.t),
                                        z3.If(ev.isa(CE), exc.what.t == ev.what.t, exc.what.t == ev.t)),
                                  c.And(c.Not(ev.isa("Exception")), exc.t == ev.t)))
            return False

        raises = {CE: lambda c, self, structure, where, construct_kwargs, exc: c.And(Z.is_strv(exc.where.t), z3.PrefixOf(sstr(where), sstr(exc.where)),
                                                                                   shape._raise_clause(c, self, structure, where, construct_kwargs, exc)),
                  "BaseException": lambda c, self, structure, where, construct_kwargs, exc: c.And(c.Not(exc.isa("Exception")), shape._raise_clause(c, self, structure, where, construct_kwargs, exc))}
    return shape


def ObjViewOf(c, sv):
    from pyvc.contracts import ObjView

    return ObjView(c, sv.t, sv.ty, c.new_heap)


DICT_SHAPES = [(), ("a",), ("a", "b"), ("b", "a", "c"), ("__type__",), ("__type__", "a"), ("a", "__type__", "b"), ("__type__", "__args__", "a"), ("__args__", "a")]
for _ks in DICT_SHAPES:
    contract(MAP + ":Translator.translate_hierarchy#mapping(%s)" % ",".join(_ks), props=["C19"])(_mk_dict_shape(_ks))


def _mk_list_shape(n):
    class shape:
        __doc__ = "list node of length %d: items translated exactly once each, LATER items before earlier ones, at `where[index]`; the result lists the translated items in the original order; no factory is called here" % n
        body_key = MAP + ":Translator.translate_hierarchy"
        params = {"self": TR, "structure": lambda ctx: VList([SV(fresh_val("item%d" % k), TAny()) for k in range(n)]), "where": TStr(),
                  "**construct_kwargs": lambda ctx: VDict({})}
        has_events = True

        def ensures(c, self, structure, where, construct_kwargs, result):
            ctx = c.ctx
            res = c.result
            res = ctx.from_val(res) if isinstance(res, SV) else res
            ok = isinstance(res, VList) and len(res.items) == n
            return {"items-translated-once-each-last-to-first-at-where-index": c.And(c.n_events() == n, *[_expect_translated(c, n - 1 - k, structure[k], where, "[%d]" % k) for k in range(n)]),
                    "result-lists-the-translated-items-in-the-original-order": c.And(*[_t(ctx.to_val(res.items[k])) == Event.e_c(c.event_at(n - 1 - k)) for k in range(n)]) if ok else False,
                    "the-input-list-is-not-modified": len(structure) == n}

        def _raise_clause(c, exc):
            childs = c.ctx.ghost.get("c19_child_errors", [])
            return c.And(exc.t == _t(childs[-1]), _kind_at(c, c.n_events() - 1, "translate-failed")) if childs else False

        raises = {CE: lambda c, self, structure, where, construct_kwargs, exc: c.And(Z.is_strv(exc.where.t), z3.PrefixOf(sstr(where), sstr(exc.where)), shape._raise_clause(c, exc)),
                  "BaseException": lambda c, self, structure, where, construct_kwargs, exc: c.And(c.Not(exc.isa("Exception")), shape._raise_clause(c, exc))}
    return shape


for _n in range(4):
    contract(MAP + ":Translator.translate_hierarchy#list(%d)" % _n, props=["C19"])(_mk_list_shape(_n))


@contract(MAP + ":Translator.translate_hierarchy#scalar", props=["C19"])
class scalar_shape:
    """plain data (str, number, bool, None) comes back unchanged; nothing is called and nothing can fail"""
    body_key = MAP + ":Translator.translate_hierarchy"
    params = {"self": TR, "structure": TAny(), "where": TStr(), "**construct_kwargs": lambda ctx: VDict({"target": SV(fresh_val("extra_target"), TAny())})}
    result = TAny()

    def requires(c, self, structure, where, construct_kwargs):
        return c.Not(Z.is_refv(structure.t))

    def ensures(c, self, structure, where, construct_kwargs, result):
        return {"unchanged": result.t == structure.t}
