"""C19 - nested __type__ mappings translate bottom-up with exact error locations (DESIGN.md section 5, C19).
The proof is the INDUCTIVE STEP of a structural induction over configuration trees, discharged for every node shape of
width <= 3 (mappings by key set, lists by length; children are arbitrary symbolic subtrees, so the depth is unbounded):
at the recursive call sites the function's own interface contract is assumed (children are strict subtrees), and the body
must establish the node-level facts below.  What is NOT proved is the comprehension loops for arbitrary width (they are
unrolled per shape); the evidence says so, a bounded native stand-in covers random wider trees."""
from .common import *
from .runtime_lib import amethod, ANYT
from pyvc.values import VDict, VSet, VTuple, VList, SV
from pyvc.engine import fresh_val, fresh, Event, Unsupported, PyRaise
from pyvc.repo import ExternalRef
import pyvc.z as Z

MAP = "cobald.daemon.config.mapping"
S = z3.StringVal
TR = TObj(MAP + ":Translator")
CE = MAP + ":ConfigurationError"


def _t(v):
    return v.t if hasattr(v, "t") else v


def sstr(v):
    return Z.Val.s(_t(v))


# ---- interface contract of translate_hierarchy: what a (recursive) call may be assumed to do -----------------------------
@contract(MAP + ":Translator.translate_hierarchy", props=["C19"])
class translate_interface:
    """one `translated(structure, where, result)` event after whatever its subtree does, or a LOCATED ConfigurationError whose
    location extends `where` (and a `translate-failed(structure, where)` marker); nothing else is known about the result"""
    params = {"self": TR, "structure": TAny(), "where": TStr(), "**construct_kwargs": None}
    result = TAny()
    has_events = True
    skip_body = True          # the body is proved shape by shape below (#...) against node-level postconditions

    def emits_after(c, ctx, outcome, value, self, structure, where, **kw):
        if outcome == "return":
            ctx.emit("translated", structure, where, value)
        else:
            ctx.emit("translate-failed", structure, where)
            ctx.ghost.setdefault("c19_child_errors", []).append(value)
        # ghost: what exactly was handed on (C05 reads the extra keyword arguments, e.g. target=)
        ctx.ghost.setdefault("c05_translations", []).append({"structure": structure, "where": where, "kwargs": dict(kw.get("construct_kwargs") or {}), "outcome": outcome, "value": value})

    def ensures(c, self, structure, where, result, **kw):
        is_none = Z.is_none(_t(structure)) if hasattr(structure, "t") else z3.BoolVal(structure is None)     # a display is not None
        return {"only-None-translates-to-None": c.Implies(c.Not(is_none), c.Not(Z.is_none(result.t)))}

    raises = {CE: lambda c, self, structure, where, exc, **kw: c.And(Z.is_strv(exc.where.t), z3.PrefixOf(sstr(where), sstr(exc.where)))}
                             # + see translate_interface_raises below (added after the class: needs the class for the second outcome)


def _unlocated_or_foreign(c, exc):
    """HYPOTHESIS on factories (DESIGN.md C19): an exception a factory raises is not itself a ConfigurationError that already
    carries a location - the code cannot tell such a foreign located error from one of its own children's"""
    return c.Or(c.Not(exc.isa(CE)), Z.is_none(exc.where.t))


translate_interface.raises["BaseException"] = lambda c, self, structure, where, exc, **kw: c.Not(exc.isa("Exception"))   # KeyboardInterrupt & co pass through untouched


# ---- factories: arbitrary callables -----------------------------------------------------------------------------------
def _factory_emits(c, ctx, self, args=None, kw=None, **rest):
    calls = ctx.ghost.setdefault("c19_factory_calls", [])
    calls.append({"factory": self, "args": list(args or []), "kwargs": dict(kw or {})})
    ctx.emit("factory-call", self, len(calls) - 1)


def _factory_after(c, ctx, outcome, value, self, **rest):
    ctx.emit("factory-returned" if outcome == "return" else "factory-raised", self, value)
    ctx.ghost.setdefault("c19_factory_outcomes", []).append((outcome, value))


factory_call = amethod("factory", {"self": None, "*args": None, "**kw": None}, doc="an arbitrary callable with an arbitrary outcome (hypothesis: never a LOCATED ConfigurationError)",
                       result=ANYT, emits=_factory_emits, emits_after=_factory_after, has_events=True,
                       ensures=lambda c, result, **k: {"hypothesis-a-factory-returns-an-object-not-None": c.Not(Z.is_none(result.t))},
                       raises={"BaseException": lambda c, exc, **k: _unlocated_or_foreign(c, exc)})
Factory = TFn(factory_call)
factory_call.params["self"] = Factory


# ---- construct / load_name interfaces ------------------------------------------------------------------------------------
@contract(MAP + ":Translator.load_name", props=["C19"])
class load_name_interface:
    """interface used by construct: one `load_name(name, result)` event; the result is the object the name denotes (a callable);
    a missing attribute is an UNLOCATED ConfigurationError, a missing root module an ImportError"""
    params = {"absolute_name": TAny()}
    result = Factory
    has_events = True
    skip_body = True

    def emits_after(c, ctx, outcome, value, absolute_name):
        ctx.emit("load_name" if outcome == "return" else "load_name-failed", absolute_name, value)
        ctx.ghost.setdefault("c19_load_outcomes", []).append((outcome, value))

    raises = {CE: lambda c, absolute_name, exc: Z.is_none(exc.where.t), "ImportError": lambda c, absolute_name, exc: True}
    exact_raises = True


@contract(MAP + ":Translator.construct", props=["C19"])
class construct_interface:
    """interface used by translate_hierarchy: one `construct(n)` event - the sidecar records the mapping content and keyword
    arguments that reached it; outcome: any value, an UNLOCATED ConfigurationError (from load_name), or whatever else the
    factory / the import system raises (hypothesis: never a located ConfigurationError)"""
    params = {"self": TR, "mapping": lambda ctx: VDict({}), "**kwargs": None}
    result = TAny()
    has_events = True
    skip_body = True

    def emits(c, ctx, self, mapping, kwargs=None, **rest):
        calls = ctx.ghost.setdefault("c19_constructs", [])
        calls.append({"mapping": dict(mapping), "kwargs": dict(kwargs or {})})
        ctx.emit("construct", self, len(calls) - 1)

    def emits_after(c, ctx, outcome, value, self, mapping, **rest):
        ctx.emit("constructed" if outcome == "return" else "construct-failed", self, value)
        ctx.ghost.setdefault("c19_construct_outcomes", []).append((outcome, value))

    def ensures(c, self, mapping, result, **kw):
        return {"a-constructed-object-is-not-None": c.Not(Z.is_none(result.t))}

    raises = {"BaseException": lambda c, self, mapping, exc, **kw: _unlocated_or_foreign(c, exc)}


# ---- the node-level proof obligations ------------------------------------------------------------------------------------
def _child_where(where, step):
    return z3.Concat(sstr(where), S(step))


def _expect_translated(c, i, child, where, step):
    ev = c.event_at(i)
    return c.And(Event.e_kind(ev) == c.ctx.E.event_kind("translated"), Event.e_a(ev) == _t(child), Event.e_b(ev) == Z.mk_str(_child_where(where, step)))


def _kind_at(c, i, kind):
    return Event.e_kind(c.event_at(i)) == c.ctx.E.event_kind(kind)


def _mk_dict_shape(keys):
    has_type = "__type__" in keys

    class shape:
        __doc__ = ("mapping node with keys %r: every child translated exactly once, in key order, at `where.key`; %s; errors keep the innermost location"
                   % (list(keys), "then exactly ONE construct of the translated items (+ the extra keyword arguments), whose result is the result" if has_type
                      else "the result is the mapping of the translated children, no factory is called"))
        body_key = MAP + ":Translator.translate_hierarchy"
        params = {"self": TR, "structure": lambda ctx: VDict({k: SV(fresh_val("child%d" % n), TAny()) for n, k in enumerate(keys)}), "where": TStr(),
                  "**construct_kwargs": lambda ctx: VDict({"target": SV(fresh_val("extra_target"), TAny())})}
        has_events = True

        def ensures(c, self, structure, where, construct_kwargs, result):
            ctx = c.ctx
            n = len(keys)
            out = {"children-translated-once-each-in-key-order-at-where-dot-key": c.And(c.n_events() >= n, *[_expect_translated(c, i, structure[k], where, ".%s" % (k,)) for i, k in enumerate(keys)]),
                   "the-extra-keyword-arguments-go-to-THIS-nodes-construction-only-not-to-the-children": all(not tr["kwargs"] for tr in ctx.ghost.get("c05_translations", []))}
            res = c.result
            res = ctx.from_val(res) if isinstance(res, SV) else res
            if not has_type:
                ok = isinstance(res, VDict) and list(res.items) == list(keys)
                out["nothing-else-happens"] = c.n_events() == n
                out["result-is-the-mapping-of-translated-children"] = c.And(*[_t(ctx.to_val(res.items[k])) == Event.e_c(c.event_at(i)) for i, k in enumerate(keys)]) if ok else False
                return out
            cons = ctx.ghost.get("c19_constructs", [])
            out["then-exactly-one-construct-and-nothing-else"] = c.And(c.n_events() == n + 2, _kind_at(c, n, "construct"), _kind_at(c, n + 1, "constructed")) if len(cons) == 1 else False
            if len(cons) == 1:
                m, kw = cons[0]["mapping"], cons[0]["kwargs"]
                out["constructed-from-the-translated-items"] = c.And(*[_t(m[k]) == Event.e_c(c.event_at(i)) for i, k in enumerate(keys)]) if list(m) == list(keys) else False
                out["extra-keyword-arguments-are-passed-on"] = (_t(kw["target"]) == _t(construct_kwargs["target"])) if list(kw) == ["target"] else False
                out["the-result-is-what-construct-returned"] = result.t == Event.e_b(c.event_at(n + 1))
                out["the-result-is-not-None"] = c.Not(Z.is_none(result.t))
            return out

        def _raise_clause(c, self, structure, where, construct_kwargs, exc):
            ctx = c.ctx
            n = len(keys)
            childs = ctx.ghost.get("c19_child_errors", [])
            cons = ctx.ghost.get("c19_construct_outcomes", [])
            if childs:
                # a child failed: its error - which carries the innermost location - propagates unchanged, nothing after it
                return c.And(exc.t == _t(childs[-1]), _kind_at(c, c.n_events() - 1, "translate-failed"), len(cons) == 0)
            if cons and cons[-1][0] == "raise":
                err = cons[-1][1]
                ev = ObjViewOf(c, err)
                return c.And(c.n_events() == n + 2, *[_expect_translated(c, i, structure[k], where, ".%s" % (k,)) for i, k in enumerate(keys)],
                             c.Or(c.And(ev.isa("Exception"), exc.cls_is(CE), sstr(exc.where) == sstr(where), Z.is_strv(exc.where.t),
                                        z3.If(ev.isa(CE), exc.what.t == ev.what.t, exc.what.t == ev.t)),
                                  c.And(c.Not(ev.isa("Exception")), exc.t == ev.t)))
            return False

        raises = {CE: lambda c, self, structure, where, construct_kwargs, exc: c.And(Z.is_strv(exc.where.t), z3.PrefixOf(sstr(where), sstr(exc.where)),
                                                                                   shape._raise_clause(c, self, structure, where, construct_kwargs, exc)),
                  "BaseException": lambda c, self, structure, where, construct_kwargs, exc: c.And(c.Not(exc.isa("Exception")), shape._raise_clause(c, self, structure, where, construct_kwargs, exc))}
    return shape


def ObjViewOf(c, sv):
    from pyvc.contracts import ObjView

    return ObjView(c, sv.t, sv.ty, c.new_heap)


# keys are whatever YAML allows as a mapping key: strings, but also numbers and booleans (`80: http`)
DICT_SHAPES = [(), ("a",), ("a", "b"), ("b", "a", "c"), ("__type__",), ("__type__", "a"), ("a", "__type__", "b"), ("__type__", "__args__", "a"), ("__args__", "a"),
               (80,), ("a", 7, True), ("__type__", 443)]
for _ks in DICT_SHAPES:
    contract(MAP + ":Translator.translate_hierarchy#mapping(%s)" % ",".join(repr(k) if not isinstance(k, str) else k for k in _ks), props=["C19"])(_mk_dict_shape(_ks))


def _mk_list_shape(n):
    class shape:
        __doc__ = "list node of length %d: items translated exactly once each, LATER items before earlier ones, at `where[index]`; the result lists the translated items in the original order; no factory is called here" % n
        body_key = MAP + ":Translator.translate_hierarchy"
        params = {"self": TR, "structure": lambda ctx: VList([SV(fresh_val("item%d" % k), TAny()) for k in range(n)]), "where": TStr(),
                  "**construct_kwargs": lambda ctx: VDict({})}
        has_events = True

        def ensures(c, self, structure, where, construct_kwargs, result):
            ctx = c.ctx
            res = c.result
            res = ctx.from_val(res) if isinstance(res, SV) else res
            ok = isinstance(res, VList) and len(res.items) == n
            return {"items-translated-once-each-last-to-first-at-where-index": c.And(c.n_events() == n, *[_expect_translated(c, n - 1 - k, structure[k], where, "[%d]" % k) for k in range(n)]),
                    "no-extra-keyword-arguments-reach-the-items": all(not tr["kwargs"] for tr in ctx.ghost.get("c05_translations", [])),
                    "result-lists-the-translated-items-in-the-original-order": c.And(*[_t(ctx.to_val(res.items[k])) == Event.e_c(c.event_at(n - 1 - k)) for k in range(n)]) if ok else False,
                    "the-input-list-is-not-modified": len(structure) == n}

        def _raise_clause(c, exc):
            childs = c.ctx.ghost.get("c19_child_errors", [])
            return c.And(exc.t == _t(childs[-1]), _kind_at(c, c.n_events() - 1, "translate-failed")) if childs else False

        raises = {CE: lambda c, self, structure, where, construct_kwargs, exc: c.And(Z.is_strv(exc.where.t), z3.PrefixOf(sstr(where), sstr(exc.where)), shape._raise_clause(c, exc)),
                  "BaseException": lambda c, self, structure, where, construct_kwargs, exc: c.And(c.Not(exc.isa("Exception")), shape._raise_clause(c, exc))}
    return shape


for _n in range(4):
    contract(MAP + ":Translator.translate_hierarchy#list(%d)" % _n, props=["C19"])(_mk_list_shape(_n))


def _mk_scalar(name, ty):
    class scalar_shape:
        __doc__ = "plain data (%s) comes back unchanged; nothing is called and nothing can fail" % name
        body_key = MAP + ":Translator.translate_hierarchy"
        params = {"self": TR, "structure": ty, "where": TStr(), "**construct_kwargs": lambda ctx: VDict({"target": SV(fresh_val("extra_target"), TAny())})}
        result = TAny()

        def ensures(c, self, structure, where, construct_kwargs, result):
            return {"unchanged": result.t == structure.t, "only-None-translates-to-None": c.Implies(c.Not(Z.is_none(structure.t)), c.Not(Z.is_none(result.t)))}
    return scalar_shape


for _name, _ty in (("str", TStr()), ("number", TNum(inf=True, nan=True)), ("bool", TBool()), ("None", TNone())):
    contract(MAP + ":Translator.translate_hierarchy#scalar(%s)" % _name, props=["C19"])(_mk_scalar(_name, _ty))


# ---- construct -------------------------------------------------------------------------------------------------------------
def _mk_construct(keys, nargs, kwkeys):
    class shape:
        __doc__ = ("mapping keys %r (__args__ of length %s), extra keyword arguments %r: the name under __type__ is resolved once, the factory is called exactly once with "
                   "__args__ as positional and the remaining items + extra keywords as keyword arguments; its outcome is the outcome; the mapping given is not modified"
                   % (list(keys), nargs, list(kwkeys)))
        body_key = MAP + ":Translator.construct"
        params = {"self": TR,
                  "mapping": lambda ctx: VDict({k: (VList([SV(fresh_val("arg%d" % j), TAny()) for j in range(nargs)]) if k == "__args__" else SV(fresh_val("m_%d" % n), TAny())) for n, k in enumerate(keys)}),
                  "**kwargs": lambda ctx: VDict({k: SV(fresh_val("kw_%d" % n), TAny()) for n, k in enumerate(kwkeys)})}
        result = TAny()
        has_events = True

        def _expected_call(c, mapping, kwargs):
            merged = dict(mapping)
            merged.update(kwargs)
            fq = merged.pop("__type__")
            args = merged.pop("__args__", [])
            return fq, list(args), merged

        def _calls_ok(c, mapping, kwargs, upto_call):
            ctx = c.ctx
            fq, args, kw = shape._expected_call(c, mapping, kwargs)
            loads = ctx.ghost.get("c19_load_outcomes", [])
            calls = ctx.ghost.get("c19_factory_calls", [])
            out = [len(loads) == 1, Event.e_kind(c.event_at(0)) == ctx.E.event_kind("load_name" if loads and loads[0][0] == "return" else "load_name-failed"), Event.e_a(c.event_at(0)) == _t(fq)]
            if upto_call:
                out.append(len(calls) == 1)
                if len(calls) == 1:
                    call = calls[0]
                    out += [_t(call["factory"]) == _t(loads[0][1]), len(call["args"]) == len(args), list(call["kwargs"]) == list(kw)]
                    out += [_t(a) == _t(b) for a, b in zip(call["args"], args)]
                    out += [_t(call["kwargs"][k]) == _t(kw[k]) for k in kw if k in call["kwargs"]]
            else:
                out.append(len(calls) == 0)
            return c.And(*[z3.BoolVal(x) if isinstance(x, bool) else x for x in out])

        def ensures(c, self, mapping, kwargs, result):
            outs = c.ctx.ghost.get("c19_factory_outcomes", [])
            return {"one-lookup-then-one-call-with-args-positional-and-the-rest-as-keywords": shape._calls_ok(c, mapping, kwargs, True),
                    "the-result-is-what-the-factory-returned": (result.t == _t(outs[0][1])) if len(outs) == 1 and outs[0][0] == "return" else False,
                    "nothing-else-happens": c.n_events() == 3,
                    "the-result-is-not-None": c.Not(Z.is_none(result.t)),
                    "the-mapping-given-is-not-modified": list(mapping) == list(keys) and (("__args__" not in keys) or len(mapping["__args__"]) == nargs)}

        def _raise(c, self, mapping, kwargs, exc):
            ctx = c.ctx
            loads = ctx.ghost.get("c19_load_outcomes", [])
            outs = ctx.ghost.get("c19_factory_outcomes", [])
            same_mapping = list(mapping) == list(keys)
            if loads and loads[0][0] == "raise":
                return c.And(exc.t == _t(loads[0][1]), shape._calls_ok(c, mapping, kwargs, False), c.n_events() == 1, same_mapping)
            if outs and outs[0][0] == "raise":
                return c.And(exc.t == _t(outs[0][1]), shape._calls_ok(c, mapping, kwargs, True), c.n_events() == 3, same_mapping)
            return False

        raises = {"BaseException": lambda c, self, mapping, kwargs, exc: c.And(_unlocated_or_foreign(c, exc), shape._raise(c, self, mapping, kwargs, exc))}
    return shape


for _keys, _nargs, _kw in [(("__type__",), 0, ()), (("__type__", "a"), 0, ("target",)), (("a", "__type__", "__args__", "b"), 2, ()), (("__args__", "__type__"), 1, ("target", "x")),
                           (("__type__", "target"), 0, ("target",))]:
    contract(MAP + ":Translator.construct#mapping(%s)+kwargs(%s)" % (",".join(_keys), ",".join(_kw)), props=["C19"])(_mk_construct(_keys, _nargs, _kw))


@contract(MAP + ":Translator.construct#reserved-keyword", props=["C19"])
class construct_reserved:
    """__type__ / __args__ cannot be smuggled in as extra keyword arguments"""
    body_key = MAP + ":Translator.construct"
    params = {"self": TR, "mapping": lambda ctx: VDict({"__type__": SV(fresh_val("m0"), TAny())}), "**kwargs": lambda ctx: VDict({"__args__": SV(fresh_val("kw0"), TAny())})}

    def ensures(c, self, mapping, kwargs, result):
        return {"never-returns-normally": False}
    raises = {"AssertionError": lambda c, self, mapping, kwargs, exc: True}


# ---- load_name: against an abstract import system ---------------------------------------------------------------------------
PyObj = TAbs("python-object", fields={}, events=False)
PyObj.open_attrs = True
SysModules = TMap(val=PyObj, key=TStr())


def _sys_modules(I):
    ctx = I.ctx
    sv = ctx.ghost.get("c19_sys_modules")
    if sv is None:
        t = z3.Const("sys_modules", Z.Val)
        sv = ctx.typed(t, SysModules)
        ctx.assume(z3.And(Z.Val.id(t) > 0, Z.Val.id(t) < ctx.alloc0))
        ctx.assume_class(t, SysModules)
        ctx.touch(sv)
        ctx.ghost["c19_sys_modules"] = sv
    return sv


def _import(I, args, kwargs):
    """__import__(name) (assumed contract of the import system): either the module `name` gets imported - then sys.modules[name]
    exists - or an ImportError (possibly a subclass) is raised; importing has no effect this code observes otherwise"""
    ctx = I.ctx
    ctx.ghost["nondet"] = True
    name = ctx.to_val(args[0])
    mods = _sys_modules(I)
    if ctx.choose(2, "__import__") == 1:
        ctx.ghost["c19_import"] = "failed"
        raise PyRaise(I.sym_exception(ExternalRef("ImportError"), "ImportError"))
    ctx.ghost["c19_import"] = "ok"
    ctx.assume(z3.Select(z3.Select(ctx.field_array("$mhas"), ctx.ref_id(mods)), name.t))
    return SV(fresh_val("module"), PyObj)


_sig_bind = amethod("Signature.bind", {"self": None, "*args": None, "**kw": None},
                    doc="inspect (assumed): raises TypeError iff these arguments do not bind to the signature's parameters", result=ANYT,
                    raises={"TypeError": lambda c, exc, **k: True}, exact_raises=True)
SigAny = TAbs("inspect.Signature(any callable)", fields={}, methods={"bind": _sig_bind, "bind_partial": _sig_bind}, events=False)
_sig_bind.params["self"] = SigAny


def _inspect_signature(I, args, kwargs):
    """inspect.signature(f) (assumed): the signature of f - or ValueError / TypeError, because many callables (built-in types and functions, C
    extensions) have none that inspect can find.  A caller that asks for it on an ARBITRARY factory must expect that."""
    from pyvc.ext_libs import fresh_abstract

    ctx = I.ctx
    ctx.ghost["nondet"] = True
    d = ctx.choose(3, "inspect.signature")
    if d == 1:
        raise PyRaise(I.make_exception(ExternalRef("ValueError"), ["no signature found"]))
    if d == 2:
        raise PyRaise(I.make_exception(ExternalRef("TypeError"), ["not a callable object"]))
    I.E.shared_types.setdefault(SigAny.name, SigAny)
    return fresh_abstract(I, SigAny.name)


def install(E):
    E.externals["builtins.__import__"] = _import
    E.externals["value:sys.modules"] = _sys_modules
    E.externals.setdefault("inspect.signature", _inspect_signature)
    E.shared_types.setdefault(SigAny.name, SigAny)


def _mk_load_name(name):
    path = name.split(".")

    class shape:
        __doc__ = ("name %r: the imported module if the whole name is importable; else the attribute chain %s below the root module sys.modules[%r]; a missing attribute is an "
                   "UNLOCATED ConfigurationError naming the object, a missing root module an ImportError" % (name, ".".join(path[1:]) or "(none)", path[0]))
        body_key = MAP + ":Translator.load_name"
        params = {"absolute_name": lambda ctx: name}
        result = TAny()

        def _mods(c):
            return c.ctx.ghost.get("c19_sys_modules")

        def ensures(c, absolute_name, result):
            ctx = c.ctx
            mods = shape._mods(c)
            if mods is None:
                return {"the-import-system-is-consulted": False}
            mval = lambda key: z3.Select(z3.Select(ctx.rd(c.old_heap, "$mval"), Z.Val.id(mods.t)), Z.mk_str(S(key)))
            if ctx.ghost.get("c19_import") == "ok":
                return {"an-importable-name-is-its-module": result.t == mval(name)}
            t = mval(path[0])
            for comp in path[1:]:
                t = Z.attr_of(t, S(comp))
            return {"else-the-attribute-chain-below-the-root-module": result.t == t}

        def _root_missing(c):
            ctx = c.ctx
            mods = shape._mods(c)
            return z3.Not(z3.Select(z3.Select(ctx.rd(c.old_heap, "$mhas"), Z.Val.id(mods.t)), Z.mk_str(S(path[0])))) if mods is not None else False

        raises = {"ImportError": lambda c, absolute_name, exc: c.And(exc.cls_is("ImportError"), shape._root_missing(c), c.ctx.ghost.get("c19_import") == "failed"),
                  CE: lambda c, absolute_name, exc: c.And(exc.cls_is(CE), Z.is_none(exc.where.t), c.Not(shape._root_missing(c)), c.ctx.ghost.get("c19_import") == "failed", len(path) > 1)}
    return shape


for _nm in ("pkg", "pkg.mod", "pkg.mod.factory", "pkg.mod.Class.method"):
    contract(MAP + ":Translator.load_name#name(%s)" % _nm, props=["C19"])(_mk_load_name(_nm))


@contract(MAP + ":ConfigurationError.__init__", props=["C19"])
class conf_error_init:
    """the location and the cause are stored as given"""
    params = {"self": TObj(CE, where=TAny(), what=TAny()), "what": TAny(), "where": TAny()}
    new_object = "self"

    def writes(c, self, what, where):
        return [(self, "where"), (self, "what")]

    def ensures(c, self, what, where):
        return {"location-stored": self.where.t == where.t, "cause-stored": self.what.t == what.t}
