"""C17 - monitoring output is well-formed and lossless (DESIGN.md section 5, C17).
Proved here: escaping PER CHARACTER on the real escape functions (with the assumed contract that str.replace with a
one-character pattern is a character homomorphism, the whole-string claim follows by induction on the string), the assembly
of a line from its parts, record splitting into tags/fields over a bounded key universe with symbolic values, the timestamp
arithmetic, the JSON merge order.  The whole-line round trip against a reference parser is a BOUNDED stand-in."""
from .common import *
from .runtime_lib import amethod, ANYT
from pyvc.values import VDict, VSet, VTuple, VList, SV
from pyvc.engine import Unsupported
from pyvc.engine import fresh_val, Event
from pyvc.builtins_ import replace_all, str_of
import pyvc.z as Z

FL = "cobald.monitor.format_line"
FJ = "cobald.monitor.format_json"
S = z3.StringVal


def one_char(s):
    return z3.Length(Z.Val.s(s.t)) == 1


def esc_key_spec(x):
    """line protocol: in keys, tag values (and, without '=', the measurement) a comma, equals sign or space gets a backslash"""
    return z3.If(z3.Or(x == S(","), x == S("="), x == S(" ")), z3.Concat(S("\\"), x), x)


def esc_str_field_spec(x):
    """a string field value is double-quoted; inside, a backslash and a double quote get a backslash; NOTHING else changes"""
    return z3.If(x == S("\\"), S("\\\\"), z3.If(x == S('"'), S('\\"'), x))


def EK(x):
    """the text escape_key produces, as a term over the whole string: the real replace chain"""
    return replace_all(replace_all(replace_all(x, S(","), S("\\,")), S("="), S("\\=")), S(" "), S("\\ "))


def EN(x):
    """measurement name: comma and space only (an equals sign is literal in a measurement name)"""
    return replace_all(replace_all(x, S(","), S("\\,")), S(" "), S("\\ "))


def EF(x):
    return z3.Concat(S('"'), replace_all(replace_all(x, S("\\"), S("\\\\")), S('"'), S('\\"')), S('"'))


@contract(FL + ":escape_key", props=["C17"])
class escape_key:
    """interface used at call sites: the whole-string text; what that text MEANS is pinned per character below"""
    params = dict(key=TStr())
    result = TStr()

    def ensures(c, key, result):
        return {"is-the-escape-of-the-whole-key": Z.Val.s(result.t) == EK(Z.Val.s(key.t))}


@contract(FL + ":escape_key#char", props=["C17"])
class escape_key_char:
    """per character (whole strings by the homomorphism property of str.replace with 1-character patterns)"""
    body_key = FL + ":escape_key"
    params = dict(key=TStr())
    result = TStr()

    def requires(c, key):
        return one_char(key)

    def ensures(c, key, result):
        x, r = Z.Val.s(key.t), Z.Val.s(result.t)
        return {"delimiters-get-a-backslash-everything-else-is-unchanged": r == esc_key_spec(x),
                "agrees-with-the-interface-text": r == EK(x),
                "no-bare-delimiter-in-the-output": z3.Or(z3.Length(r) == 2, z3.And(r != S(","), r != S("="), r != S(" "))),
                "decodes-back": z3.If(z3.Length(r) == 2, z3.And(z3.SubString(r, 0, 1) == S("\\"), z3.SubString(r, 1, 1) == x), r == x)}


@contract(FL + ":escape_key#not-a-string", props=["C17"])
class escape_key_nonstr:
    body_key = FL + ":escape_key"
    params = dict(key=TAny())

    def requires(c, key):
        return c.Not(Z.is_strv(key.t))

    def ensures(c, key, result):
        return {"never-returns-normally": False}
    raises = {"AssertionError": lambda c, key, exc: True}


@contract(FL + ":escape_field", props=["C17"])
class escape_field:
    params = dict(field=TAny())
    result = TAny()

    def ensures(c, field, result):
        return {"a-string-is-quoted-and-escaped": c.Implies(Z.is_strv(field.t), c.And(Z.is_strv(result.t), Z.Val.s(result.t) == EF(Z.Val.s(field.t)))),
                "any-other-value-is-passed-through-unchanged": c.Implies(c.Not(Z.is_strv(field.t)), result.t == field.t)}


@contract(FL + ":escape_field#char", props=["C17"])
class escape_field_char:
    body_key = FL + ":escape_field"
    params = dict(field=TStr())
    result = TStr()

    def requires(c, field):
        return one_char(field)

    def ensures(c, field, result):
        x, r = Z.Val.s(field.t), Z.Val.s(result.t)
        return {"a-string-is-quoted-with-backslash-and-quote-escaped-and-NOTHING-else-rewritten": r == z3.Concat(S('"'), esc_str_field_spec(x), S('"')),
                "agrees-with-the-interface-text": r == EF(x),
                "no-bare-quote-inside-the-quotes": z3.Not(z3.And(z3.Length(r) == 3, z3.SubString(r, 1, 1) == S('"'))),
                "no-bare-backslash-inside-the-quotes": z3.Not(z3.And(z3.Length(r) == 3, z3.SubString(r, 1, 1) == S('\\'))),
                "decodes-back": z3.If(z3.Length(r) == 4, z3.And(z3.SubString(r, 1, 1) == S("\\"), z3.SubString(r, 2, 1) == x), z3.SubString(r, 1, 1) == x)}


def text_of(v):
    """str(v): the string itself / the (assumed, delimiter-free for numbers and bools) text of another value"""
    return z3.If(Z.is_strv(v), Z.Val.s(v), str_of(v))


def field_text(v):
    return z3.If(Z.is_strv(v), EF(Z.Val.s(v)), str_of(v))


def ns_int(timestamp):
    """the integer "%d" prints for timestamp * 1e9 (truncation toward zero), as the code computes it"""
    r9 = Z.Val.r(timestamp.t) * 1000000000
    return z3.ToInt(z3.If(r9 >= 0, z3.ToReal(z3.ToInt(r9)), -z3.ToReal(z3.ToInt(-r9))))


def ns_tail(timestamp):
    k = ns_int(timestamp)
    return z3.If(Z.is_none(timestamp.t), S("\n"), z3.Concat(S(" "), z3.If(k >= 0, z3.IntToStr(k), z3.Concat(S("-"), z3.IntToStr(-k))), S("\n")))


def ns_is_floor(c, timestamp):
    """for a time since the epoch the printed integer is the whole number of nanoseconds (no sign, no fraction)"""
    k = ns_int(timestamp)
    r9 = Z.Val.r(timestamp.t) * 1000000000
    return c.Implies(c.Not(Z.is_none(timestamp.t)), c.And(k >= 0, z3.ToReal(k) <= r9, r9 < z3.ToReal(k) + 1))


def value_ok(c, v):
    return c.Or(Z.is_strv(v), Z.is_numv(v), Z.is_boolv(v))


def ts_ok(c, timestamp):
    return c.Or(Z.is_none(timestamp.t), c.And(Z.is_numv(timestamp.t), Z.Val.r(timestamp.t) >= 0))


def _t(v):
    return v.t if hasattr(v, "t") else v


def lp_text(c, name_s, tags, fields, ts_tail):
    """THE SPEC of a line: for python-level dicts with known keys (any number, any order) and symbolic values -
        esc(name) [, esc(key)=esc(text of value)]* SPACE [esc(key)=field-text ,]* tail
    keys in sorted order; key escapes are computed on the constant keys by the same term"""
    parts = [EN(name_s)]
    for k in sorted(tags.keys()):
        parts += [S(","), EK(S(k)), S("="), EK(text_of(_t(tags[k])))]
    parts.append(S(" "))
    for n, k in enumerate(sorted(fields.keys())):
        parts += ([S(",")] if n else []) + [EK(S(k)), S("="), field_text(_t(fields[k]))]
    parts.append(ts_tail)
    return z3.Concat(*parts)


class _LP:
    result = TStr()

    def emits(c, ctx, name, tags, fields, timestamp):
        """ghost only (no event): remember the timestamp term of the call so that a caller's postcondition can name it"""
        ctx.ghost["c17_lp_timestamp"] = timestamp

    def requires(c, name, tags, fields, timestamp):
        return c.And(*[value_ok(c, _t(d[k])) for d in (tags, fields) for k in d.keys()], ts_ok(c, timestamp))

    def ensures(c, name, tags, fields, timestamp, result):
        return {"exactly-the-escaped-parts-in-line-protocol-order": Z.Val.s(result.t) == lp_text(c, Z.Val.s(name.t), tags, fields, ns_tail(timestamp)),
                "timestamp-is-whole-nanoseconds": ns_is_floor(c, timestamp)}


def _sym_dict(prefix, keys):
    return lambda ctx: VDict({k: SV(fresh_val("%s%d" % (prefix, n)), TAny()) for n, k in enumerate(keys)})


@contract(FL + ":line_protocol", props=["C17"])
class line_protocol(_LP):
    """assembly of one line; proved on the body for TWO tags and TWO fields given out of key order, keys containing
    delimiters, symbolic values of any length and kind (and below: no tags; one field); callers get the same spec for the
    dict shapes they pass"""
    params = {"name": TStr(), "tags": _sym_dict("tag", ["u=", "t t"]), "fields": _sym_dict("field", ["g,", "f"]), "timestamp": TOpt(TNum())}
    requires, ensures, result, emits = _LP.requires, _LP.ensures, _LP.result, _LP.emits


@contract(FL + ":line_protocol#no-tags", props=["C17"])
class line_protocol_notags(_LP):
    """without tags there is no comma after the measurement"""
    body_key = FL + ":line_protocol"
    params = {"name": TStr(), "tags": _sym_dict("tag", []), "fields": _sym_dict("field", ["f"]), "timestamp": TOpt(TNum())}
    requires, ensures, result, emits = _LP.requires, _LP.ensures, _LP.result, _LP.emits


@contract(FL + ":line_protocol#three", props=["C17"])
class line_protocol_three(_LP):
    body_key = FL + ":line_protocol"
    params = {"name": TStr(), "tags": _sym_dict("tag", ["b", "a", "c"]), "fields": _sym_dict("field", ["z", "y\"", "x"]), "timestamp": TOpt(TNum())}
    requires, ensures, result, emits = _LP.requires, _LP.ensures, _LP.result, _LP.emits


# ================================================================================ LineProtocolFormatter
from pyvc.builtins_ import opaque_str
from pyvc.engine import fresh
import itertools

MSG = z3.Function("record_getMessage", Z.Val, z3.StringSort())      # LogRecord.getMessage(): msg % args (assumed: a function of the record)
FTIME = z3.Function("formatter_formatTime", Z.Val, Z.Val, z3.StringSort())

_getmsg = amethod("LogRecord.getMessage", {"self": None}, doc="assumed: total, pure, returns the text msg % args", result=TStr(),
                  ensures=lambda c, self, result: Z.Val.s(result.t) == MSG(self.t))
Record = TAbs("LogRecord", fields=dict(args=TAny(), msg=TStr(), created=TNum(lo=0), asctime=TAny(), message=TAny()), methods=dict(getMessage=_getmsg), events=False)
_getmsg.params["self"] = Record


def _formatter_init(I, args, kwargs):
    """logging.Formatter.__init__(fmt=None, datefmt=None, style='%') (assumed): stores datefmt; the rest is not read by cobald"""
    obj = args[0]
    datefmt = kwargs.get("datefmt", args[2] if len(args) > 2 else None)
    I.setattr(obj, "datefmt", datefmt)
    return None


def _formatter_format_time(I, args, kwargs):
    """Formatter.formatTime(record, datefmt) (assumed): total, pure, a text that is a function of (record, datefmt)"""
    ctx = I.ctx
    ctx.ghost["nondet"] = True
    rec, df = ctx.to_val(args[1]), ctx.to_val(args[2] if len(args) > 2 else kwargs.get("datefmt"))
    return SV(Z.mk_str(FTIME(rec.t, df.t)), TStr())


def install(E):
    E.externals["logging.Formatter.__init__"] = _formatter_init
    E.externals["logging.Formatter.formatTime"] = _formatter_format_time


LPF = TObj(FL + ":LineProtocolFormatter", _default_tags=TAny(), _tags_whitelist=TAny(), _fields_blacklist=TAny(), _resolution=TOpt(TNum(only="int", lo=1)), datefmt=TAny())
LPF.extra_fields = ("datefmt",)      # assigned by the (external) base class logging.Formatter.__init__
RECORD_ATTRIBUTES = ("args", "asctime", "created", "exc_info", "exc_text", "filename", "funcName", "levelname", "levelno", "lineno", "message", "module", "msecs", "msg", "name",
                     "pathname", "process", "processName", "relativeCreated", "stack_info", "thread", "threadName")

# configurations of the formatter: name -> (constructor argument, expected default tags (keys), expected whitelist)
CONFIGS = {"none": (None, (), ()), "whitelist-set": (("set", ("a",)), (), ("a",)), "default-mapping": (("map", ("a", "c")), ("a", "c"), ("a", "c"))}
ARG_KEYS = [ks for n in range(4) for ks in itertools.combinations(("a", "b", "d e"), n)]


def _cfg_tags_value(cfg):
    kind = CONFIGS[cfg][0]
    if kind is None:
        return None
    if kind[0] == "set":
        return VSet(list(kind[1]))
    return VDict({k: SV(fresh_val("default_%s" % k), TAny()) for k in kind[1]})


def _expected_state(cfg, tags_value):
    _, dkeys, wl = CONFIGS[cfg]
    defaults = {k: tags_value[k] for k in dkeys} if dkeys else {}
    return defaults, set(wl), set(wl) | set(RECORD_ATTRIBUTES)


def _pyset(v):
    return set(v.items) if isinstance(v, VSet) else None


def _same_dict(ctx, v, expect):
    v = ctx.from_val(v) if isinstance(v, SV) else v
    return isinstance(v, VDict) and sorted(v.items) == sorted(expect.keys()) and all(z3.eq(_t(ctx.to_val(v.items[k])), _t(expect[k])) for k in expect)


def _mk_init(cfg):
    class init:
        __doc__ = "configuration %r: default tags, whitelist and field blacklist (whitelist + LogRecord attribute names)" % cfg
        body_key = FL + ":LineProtocolFormatter.__init__"
        new_object = "self"
        params = {"self": LPF, "tags": lambda ctx: _cfg_tags_value(cfg), "resolution": TOpt(TNum(only="int", lo=1))}

        def writes(c, self, tags, resolution):
            return [(self, f) for f in ("_default_tags", "_tags_whitelist", "_fields_blacklist", "_resolution", "datefmt")]

        def ensures(c, self, tags, resolution):
            ctx = c.ctx
            defaults, wl, bl = _expected_state(cfg, tags)
            got = {f: ctx.from_val(SV(getattr(self, f).t, TAny())) for f in ("_default_tags", "_tags_whitelist", "_fields_blacklist")}
            return {"default-tags-are-the-mapping-given-else-empty": _same_dict(ctx, got["_default_tags"], defaults),
                    "whitelist-is-the-keys-given": _pyset(got["_tags_whitelist"]) == wl,
                    "field-blacklist-is-whitelist-plus-record-attributes": _pyset(got["_fields_blacklist"]) == bl,
                    "resolution-stored": self._resolution.t == resolution.t}
    return init


for _cfg in CONFIGS:
    contract(FL + ":LineProtocolFormatter.__init__#" + _cfg, props=["C17"])(_mk_init(_cfg))


# ---- format: record splitting + timestamp + hand-over to line_protocol ------------------------------------------------
def _setup_formatter(cfg, keys, shape):
    def setup(ctx, I, bound):
        args = VDict({k: SV(fresh_val("arg_%d" % n), TAny()) for n, k in enumerate(keys)})
        ctx.ghost["c17_args"] = VDict(dict(args.items))
        I.setattr(bound["record"], "args", VTuple([VDict({})]) if shape == "empty-tuple" else args)
        tv = _cfg_tags_value(cfg)
        defaults, wl, bl = _expected_state(cfg, tv.items if isinstance(tv, VDict) else {})
        ctx.ghost["c17_defaults"] = defaults
        I.setattr(bound["self"], "_default_tags", VDict(dict(defaults)))
        I.setattr(bound["self"], "_tags_whitelist", VSet(sorted(wl)))
        I.setattr(bound["self"], "_fields_blacklist", VSet(sorted(bl)))
    return setup


def _mk_format(cfg, keys, shape="mapping"):
    _, dkeys, wl = CONFIGS[cfg]

    class fmt:
        __doc__ = ("configuration %r, record data with keys %r: tags = defaults overridden by whitelisted record values; fields = the rest; time rounded down "
                   "to the resolution (omitted without one); the line is line_protocol's text for exactly these" % (cfg, keys))
        body_key = FL + ":LineProtocolFormatter.format"
        params = {"self": LPF, "record": Record}
        result = TStr()
        setup = staticmethod(_setup_formatter(cfg, keys, shape))

        def requires(c, self, record):
            ctx = c.ctx
            vals = list(ctx.ghost["c17_args"].items.values()) + list(ctx.ghost["c17_defaults"].values())
            return c.And(*[value_ok(c, v.t) for v in vals])

        def writes(c, self, record):
            return [(record, "asctime"), (record, "message")]

        def ensures(c, self, record, result):
            ctx = c.ctx
            args, defaults = ctx.ghost["c17_args"].items, ctx.ghost["c17_defaults"]
            tags = dict(defaults)
            tags.update({k: v for k, v in args.items() if k in wl})                       # record values override defaults
            fields = {k: v for k, v in args.items() if k not in wl and k not in RECORD_ATTRIBUTES}
            r0 = c.old(record)
            name = z3.If(len(args) > 0, MSG(record.t), Z.Val.s(r0.msg.t)) if True else None
            res, created = Z.Val.r(self._resolution.t), Z.Val.r(r0.created.t)
            T = ctx.ghost.get("c17_lp_timestamp")         # the time handed to line_protocol (ghost witness; no call = no witness = fails)
            if T is None:
                return {"the-line-comes-from-line_protocol": False}
            q = z3.Int("c17_q")
            return {"the-line-for-exactly-these-tags-fields-and-time": Z.Val.s(result.t) == lp_text(c, name, tags, fields, ns_tail(T)),
                    "no-time-without-a-resolution": Z.is_none(self._resolution.t) == Z.is_none(T.t),
                    "the-formatters-default-tags-are-not-modified": _same_dict(ctx, ctx.from_val(SV(self._default_tags.t, TAny())), defaults),
                    "time-is-the-record-time-rounded-down-to-the-resolution": c.Implies(c.Not(Z.is_none(self._resolution.t)), c.And(
                        Z.is_numv(T.t), Z.Val.r(T.t) <= created, created < Z.Val.r(T.t) + res, z3.Exists([q], Z.Val.r(T.t) == z3.ToReal(q) * res)))}
    return fmt


for _cfg in CONFIGS:
    for _keys in ARG_KEYS:
        contract(FL + ":LineProtocolFormatter.format#%s/%s" % (_cfg, "+".join(_keys) or "no-data"), props=["C17"])(_mk_format(_cfg, _keys))
contract(FL + ":LineProtocolFormatter.format#none/empty-tuple", props=["C17"])(_mk_format("none", (), "empty-tuple"))


def _mk_format_rejects(what):
    class fmt:
        __doc__ = "record data that is %s is rejected by the assertion, nothing is emitted" % what
        body_key = FL + ":LineProtocolFormatter.format"
        params = {"self": LPF, "record": Record}

        def setup(ctx, I, bound):
            _setup_formatter("none", (), "mapping")(ctx, I, bound)
            I.setattr(bound["record"], "args", VDict({"a": None}) if what == "a None value" else VTuple([1, 2]))
        setup = staticmethod(setup)

        def ensures(c, self, record, result):
            return {"never-returns-normally": False}
        raises = {"AssertionError": lambda c, self, record, exc: True}
    return fmt


contract(FL + ":LineProtocolFormatter.format#rejects-none-value", props=["C17"])(_mk_format_rejects("a None value"))
contract(FL + ":LineProtocolFormatter.format#rejects-non-mapping", props=["C17"])(_mk_format_rejects("not a mapping"))


# ================================================================================ JsonFormatter
JF = TObj(FJ + ":JsonFormatter", _defaults=TAny(), _add_time=TAny(), datefmt=TAny())
JF.extra_fields = ("datefmt",)
JSON = z3.Function("json_dumps", z3.IntSort(), z3.StringSort())


def _json_dumps(I, args, kwargs):
    """json.dumps(obj) (assumed): for a dict of JSON-serialisable values the JSON object with exactly these items; the text is
    a function of the dict's content - the sidecar records WHICH dict content reached it"""
    ctx = I.ctx
    d = ctx.from_val(args[0]) if isinstance(args[0], SV) else args[0]
    if not isinstance(d, VDict) or getattr(d, "sym", None) is not None:
        raise Unsupported("json.dumps of something that is not a dict with known keys")
    ctx.ghost["nondet"] = True
    n = len(ctx.ghost.setdefault("c17_json_calls", []))
    ctx.ghost["c17_json_calls"].append(dict(d.items))
    t = Z.mk_str(JSON(z3.IntVal(n)))
    ctx.ghost.setdefault("c17_json_results", []).append(t)
    return SV(t, TStr())


_install0 = install


def install(E):
    _install0(E)
    E.externals["json.dumps"] = _json_dumps


JCONFIGS = {"no-defaults": (), "defaults": ("a", "c", "message", "time")}


def _mk_json_init(cfg, datefmt_kind):
    class init:
        __doc__ = "defaults %r, datefmt %s: defaults stored; time is added iff datefmt is None or truthy" % (cfg, datefmt_kind)
        body_key = FJ + ":JsonFormatter.__init__"
        new_object = "self"
        params = {"self": JF, "fmt": (lambda ctx: None) if cfg == "none" else _sym_dict("jd", JCONFIGS[cfg]),
                  "datefmt": {"none": TNone(), "empty": (lambda ctx: ""), "text": TStr()}[datefmt_kind]}

        def requires(c, self, fmt, datefmt):
            return Z.Val.s(datefmt.t) != S("") if datefmt_kind == "text" else True

        def writes(c, self, fmt, datefmt):
            return [(self, f) for f in ("_defaults", "_add_time", "datefmt")]

        def ensures(c, self, fmt, datefmt):
            ctx = c.ctx
            got = ctx.from_val(SV(self._defaults.t, TAny()))
            expect = {k: fmt[k] for k in JCONFIGS.get(cfg, ())}
            return {"defaults-are-the-mapping-given-else-empty": _same_dict(ctx, got, expect),
                    "time-is-added-iff-datefmt-is-None-or-truthy": ctx.truth(SV(self._add_time.t, TAny())) == (datefmt_kind != "empty")}
    return init


for _cfg in ("none",) + tuple(JCONFIGS):
    for _dk in ("none", "empty", "text"):
        contract(FJ + ":JsonFormatter.__init__#%s/datefmt-%s" % (_cfg, _dk), props=["C17"])(_mk_json_init(_cfg, _dk))


@contract(FJ + ":JsonFormatter.__init__#not-a-mapping", props=["C17"])
class json_init_rejects:
    body_key = FJ + ":JsonFormatter.__init__"
    new_object = "self"
    params = {"self": JF, "fmt": lambda ctx: VList([1]), "datefmt": TNone()}

    def writes(c, self, fmt, datefmt):
        return [(self, f) for f in ("_defaults", "_add_time", "datefmt")]

    def ensures(c, self, fmt, datefmt):
        return {"never-returns-normally": False}
    raises = {"TypeError": lambda c, self, fmt, datefmt, exc: True}


def _mk_json_format(cfg, keys, add_time):
    class fmt:
        __doc__ = "defaults %r, record data keys %r, time %s: ONE json.dumps of defaults < time < message < record data" % (cfg, keys, "on" if add_time else "off")
        body_key = FJ + ":JsonFormatter.format"
        params = {"self": JF, "record": Record}
        result = TStr()

        def setup(ctx, I, bound):
            d = VDict({k: SV(fresh_val("jd_%d" % n), TAny()) for n, k in enumerate(JCONFIGS[cfg])})
            a = VDict({k: SV(fresh_val("arg_%d" % n), TAny()) for n, k in enumerate(keys)})
            ctx.ghost["c17_defaults"], ctx.ghost["c17_args"] = dict(d.items), dict(a.items)
            I.setattr(bound["self"], "_defaults", d)
            I.setattr(bound["self"], "_add_time", add_time)
            I.setattr(bound["record"], "args", a)
        setup = staticmethod(setup)

        def writes(c, self, record):
            return []

        def ensures(c, self, record, result):
            ctx = c.ctx
            calls = ctx.ghost.get("c17_json_calls", [])
            if len(calls) != 1:
                return {"exactly-one-json-object": False}
            args, defaults = ctx.ghost["c17_args"], ctx.ghost["c17_defaults"]
            r0 = c.old(record)
            expect = dict(defaults)
            if add_time:
                expect["time"] = SV(Z.mk_str(FTIME(record.t, c.old(self).datefmt.t)), TStr())
            expect["message"] = SV(Z.mk_str(MSG(record.t)) if args else r0.msg.t, TStr())
            expect.update(args)
            got = calls[0]
            same = c.And(*[_t(ctx.to_val(got[k])) == _t(ctx.to_val(expect[k])) for k in expect]) if sorted(got) == sorted(expect) else False
            return {"exactly-one-json-object": True, "the-object-is-defaults-then-time-then-message-then-data-later-overriding-earlier": same,
                    "the-result-is-that-objects-json-text": result.t == ctx.ghost["c17_json_results"][0],
                    "the-defaults-are-not-modified": _same_dict(ctx, ctx.from_val(SV(self._defaults.t, TAny())), defaults)}
    return fmt


def _eq_terms(ctx, a, b):
    return z3.eq(z3.simplify(_t(ctx.to_val(a))), z3.simplify(_t(ctx.to_val(b))))


for _cfg in JCONFIGS:
    for _keys in [(), ("a",), ("b", "time"), ("message", "a", "b")]:
        for _at in (True, False):
            contract(FJ + ":JsonFormatter.format#%s/%s/time-%s" % (_cfg, "+".join(_keys) or "no-data", "on" if _at else "off"), props=["C17"])(_mk_json_format(_cfg, _keys, _at))
