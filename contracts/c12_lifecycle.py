"""C12 - runtime lifecycle: exclusive accept, shutdown, restart (DESIGN.md section 5, C12).
Liveness ("shutdown returns within bounded time") is NOT decidable by contracts; what is proved are its sequential
safety ingredients: exclusivity and release of the guard on every exit path, the flag/event protocol of the accept loop."""
from .common import *
from .runtime_lib import *
from pyvc.values import VTuple, VDict, SV
from pyvc.engine import fresh_val, Event
import pyvc.z as Z

GUARD = "cobald.daemon.runners.guard"
Fnc = payload_type("call", arity=2)


def _sym(ctx, name, ty):
    t = fresh_val(name)
    sv = ctx.typed(t, ty)
    if isinstance(ty, TRef):
        ctx.assume(Z.Val.id(t) < ctx.alloc0)
        ctx.touch(sv)
    return sv


def _parts(c):
    env = c.ctx.ghost["closure"]
    g0 = c.view(env["fnc_guard"], c.old_heap)
    g1 = c.view(env["fnc_guard"], c.new_heap)
    return env, g0, g1


@contract(GUARD + ":exclusive.make_exclusive.exclusive_call", props=["C12"])
class exclusive_call:
    """the wrapper that `@exclusive()` puts around ServiceRunner.accept; verified with an arbitrary wrapped callable and
    a representative argument list (2 positional, 1 keyword: the wrapper forwards *args/**kwargs without looking at them)"""
    params = {"args": lambda ctx: VTuple([SV(fresh_val("a0")), SV(fresh_val("a1"))]), "kwargs": lambda ctx: VDict({"k": SV(fresh_val("kv"))})}
    result = TAny()
    has_events = True
    transparent = True         # a caller that holds the real closure (accept as decorated, below in runtime.py) executes the wrapper's body itself

    def closure_env(ctx, I, bound):
        env = {"fnc": _sym(ctx, "fnc", Fnc), "fnc_guard": _sym(ctx, "guard", Lock)}
        ctx.ghost["closure"] = env
        return [env]

    def writes(c, args, kwargs):
        g = c.view(c.ctx.ghost["closure"]["fnc_guard"])
        return [(g, "held")]

    def ensures(c, args, kwargs, result):
        env, g0, g1 = _parts(c)
        fnc = env["fnc"]
        return {
            "only-returns-when-the-guard-was-free": c.Not(flag(g0, "held")),
            "wrapped-callable-called-exactly-once-with-the-same-arguments-and-its-result-passed-through": c.events_are(
                c.event("acquire", g1), c.event("call", fnc, args[0], args[1], kwargs["k"]), c.event("returned", fnc, result), c.event("release", g1)),
            "guard-released": c.Not(flag(g1, "held")),
        }

    def _raises(c, args, kwargs, exc):
        env, g0, g1 = _parts(c)
        fnc = env["fnc"]
        busy = flag(g0, "held")
        return {
            "busy-guard-raises-RuntimeError-without-calling-and-leaves-the-holder-undisturbed": c.Implies(
                busy, c.And(exc.isa("RuntimeError"), c.events_are(c.event("acquire", g1)), flag(g1, "held"))),
            "free-guard-passes-the-callables-own-exception-through-and-releases": c.Implies(
                c.Not(busy), c.And(c.events_are(c.event("acquire", g1), c.event("call", fnc, args[0], args[1], kwargs["k"]), c.event("raised", fnc, exc), c.event("release", g1)),
                                   c.Not(flag(g1, "held")))),
        }

    raises = {"BaseException": _raises}
