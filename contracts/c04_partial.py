"""C04 - a >> chain builds exactly the nested pipeline, however grouped or curried (DESIGN.md section 5, C04).
Denotation (spec, written from the statement): a pending chain value denotes a list of templates -
    flat(Partial p)               = [p]
    flat(PartialBind(parent, ts)) = [parent] ++ flat(t1) ++ ... ++ flat(tk)
The per-function contracts below are the step cases of the induction over the expression tree of t1 >> ... >> tn >> tail:
  * x >> y with y pending            : nothing is constructed, flat(result) = flat(x) ++ flat(y)
  * x >> y with y a leaf template    : as x >> y.__construct__() (the tail is constructed once)
  * x >> pool                        : the templates of flat(x) are bound last to first, each exactly once, each receiving the
                                       result of the next one as its target; the head's result is returned
Each is proved per shape (argument lists / target lists of length <= 3 with symbolic elements); nested templates inside a
PartialBind are abstract templates whose own >> obeys the interface contract (the induction hypothesis)."""
from .common import *
from .runtime_lib import amethod, ANYT
from pyvc.values import VDict, VSet, VTuple, VList, SV
from pyvc.engine import fresh_val, fresh, Event, Unsupported, PyRaise
from pyvc.repo import ExternalRef
import pyvc.z as Z
from pyvc.contracts import ListView as _ListView, DictView as _DictView

PM = "cobald.interfaces._partial"
S = z3.StringVal
PartialT = TObj(PM + ":Partial", ctor=TAny(), args=TAny(), kwargs=TAny(), leaf=TBool())
BindT = TObj(PM + ":PartialBind", parent=PartialT, targets=TAny())


def _t(v):
    return v.t if hasattr(v, "t") else v


# ---- arbitrary constructors -------------------------------------------------------------------------------------------------
def _ctor_emits(c, ctx, self, args=None, kw=None, **rest):
    calls = ctx.ghost.setdefault("c04_ctor_calls", [])
    calls.append({"ctor": self, "args": list(args or []), "kwargs": dict(kw or {})})
    ctx.emit("ctor-call", self, len(calls) - 1)


def _ctor_after(c, ctx, outcome, value, self, **rest):
    ctx.emit("ctor-returned" if outcome == "return" else "ctor-raised", self, value)
    ctx.ghost.setdefault("c04_ctor_outcomes", []).append((outcome, value))


ctor_call = amethod("constructor", {"self": None, "*args": None, "**kw": None}, doc="an arbitrary constructor: any result, any exception", result=ANYT,
                    emits=_ctor_emits, emits_after=_ctor_after, has_events=True, raises={"BaseException": lambda c, exc, **k: True},
                    ensures=lambda c, result, **k: {"hypothesis-a-constructor-returns-an-object-not-None": c.Not(Z.is_none(result.t))})
Ctor = TFn(ctor_call)
ctor_call.params["self"] = Ctor
PartialT.fields["ctor"] = Ctor


# ---- abstract templates (induction hypothesis for nested elements) and pools ---------------------------------------------------
def _bound_after(c, ctx, outcome, value, self, other):
    ctx.emit("bound" if outcome == "return" else "bind-failed", self, other, value)
    ctx.ghost.setdefault("c04_bind_outcomes", []).append((outcome, value, self, other))


_tmpl_rshift = amethod("template.__rshift__", {"self": None, "other": ANYT}, doc="a pending template / bind applied to a target: `bound(template, target, result)`; any outcome",
                       result=ANYT, ensures=lambda c, result, **k: {"never-None": c.Not(Z.is_none(result.t))}, emits_after=_bound_after, has_events=True, raises={"BaseException": lambda c, exc, **k: True})
Tmpl = TAbs("template", fields={}, methods={"__rshift__": _tmpl_rshift}, events=False)
Tmpl.not_isa = ["cobald.interfaces._pool:Pool"]
Tmpl.undeclared_may_be_missing = True       # "some template" is a Partial or a PartialBind: they share `>>` and nothing else
_tmpl_rshift.params["self"] = Tmpl
PoolObj = TAbs("pool-instance", fields={}, events=False)
PoolObj.isa = ["cobald.interfaces._pool:Pool"]
PoolObj.not_isa = [PM + ":Partial", PM + ":PartialBind"]
OtherObj = TAbs("constructed-object", fields={}, events=False)      # e.g. a controller instance: neither a Pool nor a template
OtherObj.not_isa = ["cobald.interfaces._pool:Pool", PM + ":Partial", PM + ":PartialBind"]
Tmpl.not_isa = ["cobald.interfaces._pool:Pool", PM + ":Partial", PM + ":PartialBind"]


# ---- interface contracts (what a call may be assumed to do) ------------------------------------------------------------------
@contract(PM + ":Partial.__construct__", props=["C04", "C05"])
class construct_interface:
    """one `construct(template, n)` event - the sidecar records the arguments -, then any outcome"""
    params = {"self": PartialT, "*args": None, "**kwargs": None}
    result = TAny()
    has_events = True
    skip_body = True

    def emits(c, ctx, self, args=None, kwargs=None, **rest):
        calls = ctx.ghost.setdefault("c04_constructs", [])
        calls.append({"template": self, "args": list(args or []), "kwargs": dict(kwargs or {})})
        ctx.emit("construct", self, len(calls) - 1)

    def emits_after(c, ctx, outcome, value, self, **rest):
        ctx.emit("constructed" if outcome == "return" else "construct-failed", self, value)
        ctx.ghost.setdefault("c04_construct_outcomes", []).append((outcome, value))

    def ensures(c, self, result, **k):
        return {"never-None": c.Not(Z.is_none(result.t))}

    raises = {"BaseException": lambda c, exc, **k: True}


@contract(PM + ":Partial.__rshift__", props=["C04", "C05"])
class partial_rshift_interface:
    params = {"self": PartialT, "other": TAny()}
    result = TAny()
    has_events = True
    skip_body = True
    emits_after = staticmethod(_bound_after)
    ensures = staticmethod(lambda c, self, other, result: {"never-None": c.Not(Z.is_none(result.t))})
    raises = {"BaseException": lambda c, exc, **k: True}


@contract(PM + ":PartialBind.__rshift__", props=["C04", "C05"])
class bind_rshift_interface:
    params = {"self": BindT, "other": TAny()}
    result = TAny()
    has_events = True
    skip_body = True
    emits_after = staticmethod(_bound_after)
    ensures = staticmethod(lambda c, self, other, result: {"never-None": c.Not(Z.is_none(result.t))})
    raises = {"BaseException": lambda c, exc, **k: True}


# ---- helpers -------------------------------------------------------------------------------------------------------------------
def _sym_tuple(prefix, n, ty=None):
    return VTuple([SV(fresh_val("%s%d" % (prefix, k)), ty or TAny()) for k in range(n)])


def _sym_kw(prefix, keys):
    return VDict({k: SV(fresh_val("%s_%s" % (prefix, k)), TAny()) for k in keys})


def _mk_partial(ctx, I, sv, nargs, kwkeys, prefix="self"):
    """fill a symbolic Partial with displays of the given shape"""
    I.setattr(sv, "args", _sym_tuple(prefix + "_arg", nargs))
    I.setattr(sv, "kwargs", _sym_kw(prefix + "_kw", kwkeys))


def _field(ctx, view, name):
    return ctx.from_val(SV(getattr(view, name).t, TAny()))


def _tm(ctx, x):
    if z3.is_expr(x):
        return x
    if isinstance(x, (_ListView, _DictView)):
        return ctx.to_val(x.raw).t          # a display seen through a spec view: its own (interned) identity
    return x.t if hasattr(x, "t") else ctx.to_val(x).t


def _sym_obj(ctx, name, ty):
    """a symbolic pre-existing object of the given shape"""
    sv = ctx.typed(fresh_val(name), ty)
    ctx.assume(z3.And(Z.Val.id(sv.t) > 0, Z.Val.id(sv.t) < ctx.alloc0))
    ctx.assume_class(sv.t, ty)
    ctx.touch(sv)
    return sv


def _same_seq(ctx, got, expect):
    got = ctx.from_val(got) if isinstance(got, SV) else got
    if not isinstance(got, (VTuple, VList)) or len(got.items) != len(expect):
        return False
    return z3.And(*[_tm(ctx, a) == _tm(ctx, b) for a, b in zip(got.items, expect)]) if expect else True


def _same_kw(ctx, got, expect):
    got = ctx.from_val(got) if isinstance(got, SV) else got
    if not isinstance(got, VDict) or sorted(got.items) != sorted(expect):
        return False
    return z3.And(*[_tm(ctx, got.items[k]) == _tm(ctx, expect[k]) for k in expect]) if expect else True


def _b(x):
    return z3.BoolVal(x) if isinstance(x, bool) else x


# ---- Partial.__construct__ -------------------------------------------------------------------------------------------------------
def _mk_construct(nself, selfkw, ncall, callkw):
    class shape:
        __doc__ = ("template with %d stored positional and keywords %r, constructed with %d positional and keywords %r: the constructor is called exactly once with the "
                   "call's positionals FIRST (the target), then the stored ones, and all keywords; its outcome is the outcome" % (nself, list(selfkw), ncall, list(callkw)))
        body_key = PM + ":Partial.__construct__"
        params = {"self": PartialT, "*args": lambda ctx: _sym_tuple("call_arg", ncall), "**kwargs": lambda ctx: _sym_kw("call_kw", callkw)}
        result = TAny()
        has_events = True

        def setup(ctx, I, bound):
            _mk_partial(ctx, I, bound["self"], nself, selfkw)
            ctx.ghost["c04_self_args"] = list(ctx.from_val(I.getattr(bound["self"], "args")).items)
            ctx.ghost["c04_self_kw"] = dict(ctx.from_val(I.getattr(bound["self"], "kwargs")).items)
        setup = staticmethod(setup)

        def _one_call(c, self, args, kwargs):
            ctx = c.ctx
            calls = ctx.ghost.get("c04_ctor_calls", [])
            if len(calls) != 1:
                return False
            exp_args = list(args) + ctx.ghost["c04_self_args"]
            exp_kw = dict(kwargs)
            exp_kw.update(ctx.ghost["c04_self_kw"])
            call = calls[0]
            return c.And(_t(call["ctor"]) == c.old(self).ctor.t, _b(_same_seq(ctx, VTuple(call["args"]), exp_args)), _b(_same_kw(ctx, VDict(call["kwargs"]), exp_kw)))

        def ensures(c, self, args, kwargs, result):
            outs = c.ctx.ghost.get("c04_ctor_outcomes", [])
            return {"exactly-one-constructor-call-target-first-then-stored-arguments": shape._one_call(c, self, args, kwargs),
                    "nothing-else-happens": c.n_events() == 2,
                    "never-None": c.Not(Z.is_none(result.t)),
                    "the-result-is-the-constructors": (result.t == _t(outs[0][1])) if len(outs) == 1 else False,
                    "the-template-is-not-modified": c.unchanged(self, "args", "kwargs", "ctor", "leaf")}

        raises = {"BaseException": lambda c, self, args, kwargs, exc: c.And(shape._one_call(c, self, args, kwargs), c.n_events() == 2,
                                                                          (exc.t == _t(c.ctx.ghost["c04_ctor_outcomes"][0][1])) if c.ctx.ghost.get("c04_ctor_outcomes") else False)}
    return shape


for _a in [(0, (), 1, ()), (2, ("k",), 1, ()), (1, ("a", "b"), 0, ()), (3, (), 1, ("x",)), (0, ("k",), 2, ("y",))]:
    contract(PM + ":Partial.__construct__#stored(%d,%s)+call(%d,%s)" % (_a[0], ",".join(_a[1]), _a[2], ",".join(_a[3])), props=["C04"])(_mk_construct(*_a))


# ---- Partial._check_signature interface + PartialBind / Partial construction -------------------------------------------------------
@contract(PM + ":Partial._check_signature", props=["C04", "C05"])
class check_signature_interface:
    """interface for callers (Partial.__init__): one `check_signature(template)` event; returns or raises TypeError"""
    params = {"self": PartialT}
    has_events = True
    skip_body = True

    def emits(c, ctx, self):
        ctx.emit("check_signature", self)
        # which arguments the template held when it was checked
        ctx.ghost.setdefault("c04_checked", []).append(self)

    raises = {"TypeError": lambda c, self, exc: True}
    exact_raises = True


def _flat_targets(ctx, bind_view):
    """python-level: (parent term, [target terms]) of a PartialBind whose targets field holds a display"""
    targets = _field(ctx, bind_view, "targets")
    return bind_view.parent.t, (list(targets.items) if isinstance(targets, (VTuple, VList)) else None)


def _flat_of(c, bind_view, expand):
    """flat(bind) as a list of terms: [parent] ++ flat(t) for each target; a target is expanded iff it is one of the binds in
    `expand` (term -> view) whose own targets are a display - every other element (abstract template, Partial) is an atom"""
    ctx = c.ctx
    p, ts = _flat_targets(ctx, bind_view)
    if ts is None:
        return None
    out = [p]
    for t in ts:
        tt = z3.simplify(_tm(ctx, t))
        hit = [v for k, v in expand if z3.eq(z3.simplify(k), tt)]
        if hit:
            sub = _flat_of(c, hit[0], expand)
            if sub is None:
                return None
            out += sub
        else:
            out.append(tt)
    return out


def _denotes(c, result, expected_terms, expand):
    """result is a NEW bind whose denotation flat(result) is exactly the expected list of templates"""
    ctx = c.ctx
    rv = c.view_term(result.t, BindT, c.new_heap)
    got = _flat_of(c, rv, expand)
    if got is None or len(got) != len(expected_terms):
        return False
    return c.And(rv.cls_is(PM + ":PartialBind"), Z.Val.id(result.t) >= ctx.alloc0, *[a == b for a, b in zip(got, expected_terms)])


def _is_new_bind(c, result, parent_t, target_terms):
    """result is a PartialBind created by this call holding exactly (parent, *targets)"""
    ctx = c.ctx
    rv = c.view_term(result.t, BindT, c.new_heap)
    p, ts = _flat_targets(ctx, rv)
    if ts is None or len(ts) != len(target_terms):
        return False
    return c.And(rv.cls_is(PM + ":PartialBind"), Z.Val.id(result.t) >= ctx.alloc0, p == parent_t, *[_tm(ctx, a) == b for a, b in zip(ts, target_terms)])


def _never_none(shape):
    """add the interface's own postcondition (the result is an object, never None) to a shape's proof obligations"""
    inner = shape.ensures

    def ensures(c, self, other, result):
        out = dict(inner(c, self, other, result))
        out["never-None"] = c.Not(Z.is_none(result.t))
        return out
    shape.ensures = ensures
    return shape


def _mk_partial_rshift(kind, k=0):
    other_ty = {"bind": BindT, "leaf": PartialT, "pending": PartialT, "pool": PoolObj, "object": OtherObj}[kind]

    class shape:
        __doc__ = {"bind": "template >> bind of %d targets: nothing is constructed; the result is a new bind denoting [template] ++ flat(bind) = (template, bind.parent, *bind.targets)" % k,
                   "leaf": "template >> leaf template (a pool template): the pool is constructed exactly once, then the template is applied to it - as template >> pool",
                   "pending": "template >> pending template: nothing is constructed; the result is a new bind (template, other)",
                   "pool": "template >> pool instance: the template is constructed exactly once with the pool as its target; that is the result",
                   "object": "template >> any other object (e.g. an already built controller): constructed exactly once with it as target"}[kind]
        body_key = PM + ":Partial.__rshift__"
        params = {"self": PartialT, "other": other_ty}
        result = TAny()
        has_events = True

        def setup(ctx, I, bound):
            if kind == "bind":
                I.setattr(bound["other"], "targets", VTuple([_sym_obj(ctx, "target%d" % j, Tmpl) for j in range(k)]))
        setup = staticmethod(setup)

        def requires(c, self, other):
            if kind == "leaf":
                return Z.Val.b(other.leaf.t)
            if kind == "pending":
                return c.Not(Z.Val.b(other.leaf.t))
            return True

        def ensures(c, self, other, result):
            ctx = c.ctx
            if kind == "bind":
                p, ts = _flat_targets(ctx, c.old(other))
                return {"nothing-is-constructed": c.no_events(), "result-denotes-template-then-the-binds-templates": _b(_is_new_bind(c, result, self.t, [p] + [_tm(ctx, x) for x in ts]))}
            if kind == "pending":
                return {"nothing-is-constructed": c.no_events(), "result-denotes-template-then-other": _b(_is_new_bind(c, result, self.t, [other.t]))}
            cons = ctx.ghost.get("c04_constructs", [])
            outs = ctx.ghost.get("c04_construct_outcomes", [])
            binds = ctx.ghost.get("c04_bind_outcomes", [])
            if kind == "leaf":
                ok = len(cons) == 1 and len(outs) == 1 and len(binds) == 1 and not cons[0]["args"] and not cons[0]["kwargs"]
                return {"the-pool-template-is-constructed-exactly-once-without-a-target": c.And(_tm(ctx, cons[0]["template"]) == other.t, c.n_events() == 3) if ok else False,
                        "then-the-template-is-applied-to-that-pool": c.And(_tm(ctx, binds[0][2]) == self.t, _tm(ctx, binds[0][3]) == _tm(ctx, outs[0][1]), result.t == _tm(ctx, binds[0][1])) if ok else False}
            ok = len(cons) == 1 and len(outs) == 1 and len(cons[0]["args"]) == 1 and not cons[0]["kwargs"] and not binds
            return {"constructed-exactly-once-with-the-target-as-only-argument": c.And(_tm(ctx, cons[0]["template"]) == self.t, _tm(ctx, cons[0]["args"][0]) == other.t, c.n_events() == 2) if ok else False,
                    "the-result-is-the-constructed-object": (result.t == _tm(ctx, outs[0][1])) if ok else False}

        def _raise(c, self, other, exc):
            ctx = c.ctx
            outs = ctx.ghost.get("c04_construct_outcomes", [])
            binds = ctx.ghost.get("c04_bind_outcomes", [])
            last = binds[-1][:2] if binds else (outs[-1] if outs else None)
            return (exc.t == _tm(ctx, last[1])) if last is not None and last[0] == "raise" else False      # only a constructor's own failure, unchanged

        raises = {"BaseException": lambda c, self, other, exc: shape._raise(c, self, other, exc)}
    return shape


for _kind, _k in [("bind", 1), ("bind", 2), ("bind", 3), ("leaf", 0), ("pending", 0), ("pool", 0), ("object", 0)]:
    contract(PM + ":Partial.__rshift__#other=%s%s" % (_kind, "(%d)" % _k if _kind == "bind" else ""), props=["C04"])(_never_none(_mk_partial_rshift(_kind, _k)))


def _mk_bind_rshift(kind, k):
    other_ty = {"bind": BindT, "leaf": PartialT, "pending": PartialT, "pool": PoolObj, "object": OtherObj}[kind]

    class shape:
        __doc__ = {"pool": "bind of %d targets >> pool instance: the LAST target is applied to the pool, each earlier one to the result of the next, the parent to the result of "
                           "the first - every element exactly once, last to first; the parent's result is returned" % k,
                   "leaf": "bind >> leaf template: the pool template is constructed exactly once, then the bind is applied to that pool",
                   "pending": "bind of %d targets >> pending template: nothing is constructed; the result is a new bind denoting flat(bind) ++ [other]" % k,
                   "bind": "bind of %d targets >> bind: nothing is constructed; the result is a new bind denoting flat(bind) ++ flat(other) (other kept as one nested element)" % k,
                   "object": "bind of %d targets >> an object that is not a pool: stays pending, (parent, *targets, other)" % k}[kind]
        body_key = PM + ":PartialBind.__rshift__"
        params = {"self": BindT, "other": other_ty}
        result = TAny()
        has_events = True

        def setup(ctx, I, bound):
            I.setattr(bound["self"], "targets", VTuple([_sym_obj(ctx, "target%d" % j, Tmpl) for j in range(k)]))
            I.setattr(bound["self"], "parent", _sym_obj(ctx, "parent", PartialT))
            if kind == "bind":
                ctx.assume(Z.Val.id(bound["self"].t) != Z.Val.id(bound["other"].t))     # a bind applied to ANOTHER bind
                I.setattr(bound["other"], "targets", VTuple([_sym_obj(ctx, "other_target%d" % j, Tmpl) for j in range(2)]))
                I.setattr(bound["other"], "parent", _sym_obj(ctx, "other_parent", PartialT))
        setup = staticmethod(setup)

        def requires(c, self, other):
            if kind == "leaf":
                return Z.Val.b(other.leaf.t)
            if kind == "pending":
                return c.Not(Z.Val.b(other.leaf.t))
            return True

        def ensures(c, self, other, result):
            ctx = c.ctx
            p, ts = _flat_targets(ctx, c.old(self))
            ts = [_tm(ctx, x) for x in ts]
            cons = ctx.ghost.get("c04_constructs", [])
            outs = ctx.ghost.get("c04_construct_outcomes", [])
            binds = ctx.ghost.get("c04_bind_outcomes", [])
            if kind == "bind":
                op, ots = _flat_targets(ctx, c.old(other))
                expected = [p] + ts + [op] + [_tm(ctx, x) for x in ots]
                return {"nothing-is-constructed": c.no_events(),
                        "result-denotes-flat-of-the-bind-followed-by-flat-of-other": _b(_denotes(c, result, expected, [(other.t, c.new(other))])),
                        "neither-bind-is-modified": c.And(c.unchanged(self, "targets", "parent"), c.unchanged(other, "targets", "parent"))}
            if kind in ("pending", "object"):
                return {"nothing-is-constructed": c.no_events(), "result-denotes-the-binds-templates-then-other": _b(_is_new_bind(c, result, p, ts + [other.t])),
                        "the-bind-itself-is-not-modified": c.unchanged(self, "targets", "parent")}
            if kind == "leaf":
                ok = len(cons) == 1 and len(outs) == 1 and len(binds) == 1 and not cons[0]["args"] and not cons[0]["kwargs"]
                return {"the-pool-template-is-constructed-exactly-once-without-a-target": c.And(_tm(ctx, cons[0]["template"]) == other.t, c.n_events() == 3) if ok else False,
                        "then-the-bind-is-applied-to-that-pool": c.And(_tm(ctx, binds[0][2]) == self.t, _tm(ctx, binds[0][3]) == _tm(ctx, outs[0][1]), result.t == _tm(ctx, binds[0][1])) if ok else False}
            # pool: k+1 applications, last target first
            order = list(reversed(ts)) + [p]
            if len(binds) != k + 1 or cons:
                return {"every-element-applied-exactly-once-last-to-first": False}
            facts = [c.n_events() == k + 1]
            prev = other.t
            for j, el in enumerate(order):
                facts += [_tm(ctx, binds[j][2]) == el, _tm(ctx, binds[j][3]) == prev, binds[j][0] == "return"]
                prev = _tm(ctx, binds[j][1])
            return {"every-element-applied-exactly-once-last-to-first-each-to-the-result-of-the-next": c.And(*[_b(f) for f in facts]),
                    "the-heads-result-is-returned": result.t == prev}

        def _raise(c, self, other, exc):
            ctx = c.ctx
            outs = ctx.ghost.get("c04_construct_outcomes", [])
            binds = ctx.ghost.get("c04_bind_outcomes", [])
            last = binds[-1][:2] if binds else (outs[-1] if outs else None)
            if last is None or last[0] != "raise":
                return False
            # nothing is applied after a failure; the elements before it were applied in order (prefix of the chain)
            return c.And(exc.t == _tm(ctx, last[1]), *[_b(b[0] == "return") for b in binds[:-1]])

        raises = {"BaseException": lambda c, self, other, exc: shape._raise(c, self, other, exc)}
    return shape


for _kind, _k in [("pool", 1), ("pool", 2), ("pool", 3), ("leaf", 2), ("pending", 1), ("pending", 3), ("bind", 2), ("object", 1)]:
    contract(PM + ":PartialBind.__rshift__#targets(%d)>>%s" % (_k, _kind), props=["C04"])(_never_none(_mk_bind_rshift(_kind, _k)))


# ---- signature check -----------------------------------------------------------------------------------------------------------
def _bp_emits(c, ctx, self, args=None, kw=None, **rest):
    calls = ctx.ghost.setdefault("c04_bind_partial", [])
    calls.append({"signature": self, "args": list(args or []), "kwargs": dict(kw or {})})
    ctx.emit("bind_partial", self, len(calls) - 1)


_bind_partial = amethod("Signature.bind_partial", {"self": None, "*args": None, "**kw": None},
                        doc="inspect (assumed): raises TypeError iff these arguments can never bind to the signature's parameters - too many, unknown or duplicated names",
                        result=ANYT, emits=_bp_emits, has_events=True, raises={"TypeError": lambda c, exc, **k: True}, exact_raises=True)
SigT = TAbs("inspect.Signature", fields=dict(of=TAny()), methods={"bind_partial": _bind_partial}, events=False)
_bind_partial.params["self"] = SigT


def _from_callable(I, args, kwargs):
    """Signature.from_callable(ctor) (assumed): the parameter list of the constructor, as Python's call binding sees it"""
    ctx = I.ctx
    from pyvc.ext_libs import fresh_abstract

    sig = fresh_abstract(I, "inspect.Signature")
    ctx.store_raw(ctx.ref_id(sig), "of", ctx.to_val(args[0]).t)
    return sig


def install(E):
    E.shared_types["inspect.Signature"] = SigT
    E.externals["inspect.Signature.from_callable"] = _from_callable


def _mk_check(nargs, kwkeys, first):
    """first: what the first stored positional is ('pool' | 'other' | None when nargs == 0)"""
    rejects_target = "target" in kwkeys or first == "pool"

    class shape:
        __doc__ = ("template with %d positional (first: %s) and keywords %r: %s" % (nargs, first, list(kwkeys),
                   "an attempt to pass the target by calling is rejected with TypeError, nothing is bound" if rejects_target else
                   "exactly one bind_partial against the constructor's signature - with a placeholder for the target first unless the template is a leaf -; TypeError iff that raises"))
        body_key = PM + ":Partial._check_signature"
        params = {"self": PartialT}
        has_events = True

        def setup(ctx, I, bound):
            items = [_sym_obj(ctx, "first", PoolObj if first == "pool" else OtherObj)] if nargs else []
            items += [SV(fresh_val("arg%d" % j), TAny()) for j in range(1, nargs)]
            I.setattr(bound["self"], "args", VTuple(items))
            I.setattr(bound["self"], "kwargs", _sym_kw("kw", kwkeys))
            ctx.ghost["c04_self_args"], ctx.ghost["c04_self_kw"] = list(items), dict(ctx.from_val(I.getattr(bound["self"], "kwargs")).items)
        setup = staticmethod(setup)

        def _one_check(c, self):
            ctx = c.ctx
            calls = ctx.ghost.get("c04_bind_partial", [])
            if len(calls) != 1:
                return False
            call = calls[0]
            sig_of = z3.Select(ctx.rd(c.new_heap, "of"), Z.Val.id(_tm(ctx, call["signature"])))
            leaf = Z.Val.b(c.old(self).leaf.t)
            args = ctx.ghost["c04_self_args"]
            got = call["args"]
            with_placeholder = (len(got) == len(args) + 1) and c.And(Z.is_none(_tm(ctx, got[0])), *[_tm(ctx, a) == _tm(ctx, b) for a, b in zip(got[1:], args)])
            without = (len(got) == len(args)) and c.And(*[_tm(ctx, a) == _tm(ctx, b) for a, b in zip(got, args)])
            return c.And(sig_of == c.old(self).ctor.t, _b(_same_kw(ctx, VDict(call["kwargs"]), ctx.ghost["c04_self_kw"])),
                         z3.If(leaf, _b(without), _b(with_placeholder)), c.n_events() == 1)

        def ensures(c, self):
            if rejects_target:
                return {"never-accepted": False}
            return {"checked-exactly-once-against-the-constructors-signature": shape._one_check(c, self), "the-template-is-not-modified": c.unchanged(self, "args", "kwargs", "ctor", "leaf")}

        def _raise(c, self, exc):
            if rejects_target:
                return c.And(c.no_events(), exc.cls_is("TypeError"))
            return c.And(shape._one_check(c, self), exc.cls_is("TypeError"))     # only because bind_partial said so

        raises = {"TypeError": lambda c, self, exc: shape._raise(c, self, exc)}
    return shape


for _n, _kw, _first in [(0, (), None), (2, ("k",), "other"), (1, ("a", "b"), "other"), (0, ("target",), None), (2, ("k", "target"), "other"), (1, (), "pool"), (3, ("x",), "pool")]:
    contract(PM + ":Partial._check_signature#args(%d,first=%s)+kw(%s)" % (_n, _first, ",".join(_kw)), props=["C04"])(_mk_check(_n, _kw, _first))


# ---- Partial.__init__ / __call__ / the .s factories ------------------------------------------------------------------------------
def _is_new_partial(c, result, ctor_t, leaf, exp_args, exp_kw):
    """result is a Partial created by this call with exactly these constructor, arguments and leaf flag, whose signature was checked once"""
    ctx = c.ctx
    rv = c.view_term(result.t, PartialT, c.new_heap)
    checked = ctx.ghost.get("c04_checked", [])
    leaf_f = (Z.Val.b(rv.leaf.t) == leaf) if z3.is_expr(leaf) else (Z.Val.b(rv.leaf.t) if leaf else c.Not(Z.Val.b(rv.leaf.t)))
    return c.And(rv.cls_is(PM + ":Partial"), Z.Val.id(result.t) >= ctx.alloc0, rv.ctor.t == ctor_t, leaf_f,
                 _b(_same_seq(ctx, _field(ctx, rv, "args"), exp_args)), _b(_same_kw(ctx, _field(ctx, rv, "kwargs"), exp_kw)),
                 _b(len(checked) == 1 and z3.eq(z3.simplify(_tm(ctx, checked[0])), z3.simplify(result.t))), c.n_events() == 1)


def _mk_call(nself, selfkw, ncall, callkw):
    dup = sorted(set(selfkw) & set(callkw))

    class shape:
        __doc__ = ("template holding %d positional + keywords %r, called with %d positional + keywords %r: %s" % (nself, list(selfkw), ncall, list(callkw),
                   "a keyword given twice is rejected with TypeError" if dup else
                   "a NEW template with the same constructor and leaf flag, positional = stored ++ new, keywords = stored + new, whose signature is checked at once; the original is unchanged"))
        body_key = PM + ":Partial.__call__"
        params = {"self": PartialT, "*args": lambda ctx: _sym_tuple("new_arg", ncall), "**kwargs": lambda ctx: _sym_kw("new_kw", callkw)}
        result = TAny()
        has_events = True

        def setup(ctx, I, bound):
            _mk_partial(ctx, I, bound["self"], nself, selfkw)
            ctx.ghost["c04_self_args"] = list(ctx.from_val(I.getattr(bound["self"], "args")).items)
            ctx.ghost["c04_self_kw"] = dict(ctx.from_val(I.getattr(bound["self"], "kwargs")).items)
        setup = staticmethod(setup)

        def ensures(c, self, args, kwargs, result):
            ctx = c.ctx
            if dup:
                return {"never-accepted": False}
            kw = dict(ctx.ghost["c04_self_kw"])
            kw.update(kwargs)
            return {"a-new-template-with-the-arguments-appended-checked-at-once": _is_new_partial(c, result, c.old(self).ctor.t, Z.Val.b(c.old(self).leaf.t), ctx.ghost["c04_self_args"] + list(args), kw),
                    "the-original-is-not-modified": c.unchanged(self, "args", "kwargs", "ctor", "leaf")}

        raises = {"TypeError": lambda c, self, args, kwargs, exc: c.And(c.unchanged(self, "args", "kwargs", "ctor", "leaf"),
                                                                      c.no_events() if dup else c.n_events() == 1)}     # duplicate keyword / the eager signature check
    return shape


for _a in [(0, (), 0, ()), (1, ("k",), 2, ("x",)), (2, (), 1, ()), (0, ("a", "b"), 0, ("c",)), (1, ("k",), 0, ("k",))]:
    contract(PM + ":Partial.__call__#stored(%d,%s)+new(%d,%s)" % (_a[0], ",".join(_a[1]), _a[2], ",".join(_a[3])), props=["C04"])(_mk_call(*_a))


def _mk_s(cls_key, leaf, nargs, kwkeys):
    mod, name = cls_key.split(":")

    class shape:
        __doc__ = "%s.s(%d positional, keywords %r): a new template for THIS class (cls), %s, holding exactly the arguments, signature checked at once" % (
            name, nargs, list(kwkeys), "marked as chain tail (leaf)" if leaf else "not a leaf")
        body_key = cls_key + ".s"
        params = {"cls": lambda ctx: ctx.repo.get(cls_key), "*args": lambda ctx: _sym_tuple("arg", nargs), "**kwargs": lambda ctx: _sym_kw("kw", kwkeys)}
        result = TAny()
        has_events = True

        def ensures(c, cls, args, kwargs, result):
            ctx = c.ctx
            return {"a-new-template-of-this-class": _is_new_partial(c, result, ctx.to_val(ctx.repo.get(cls_key)).t, leaf, list(args), dict(kwargs))}

        raises = {"TypeError": lambda c, cls, args, kwargs, exc: c.n_events() == 1}
    return shape


for _ck, _leaf in [("cobald.interfaces._pool:Pool", True), ("cobald.interfaces._controller:Controller", False), ("cobald.interfaces._proxy:PoolDecorator", False)]:
    for _n, _kw in [(0, ()), (2, ("k",))]:
        contract(_ck + ".s#args(%d)+kw(%s)" % (_n, ",".join(_kw)), props=["C04", "C05"])(_mk_s(_ck, _leaf, _n, _kw))


# ---- the eager check needs the constructor's real signature: transparency of @service ---------------------------------------------
import ast as _ast


@contract("static:service-decorator-is-signature-transparent", props=["C04"], kind="static")
class service_transparency:
    """Partial._check_signature asks inspect for the signature of the CLASS.  Assumed inspect contract: for a class that defines
    __new__, Signature.from_callable reports the parameters of that __new__ (minus cls) unless it carries __signature__ /
    __wrapped__.  The @service decorator replaces __new__ of every service class; the eager check is only meaningful if that
    replacement reports the class's real constructor parameters."""

    def static(E):
        fi = E.repo.get("cobald.daemon.runners.service:service")
        out = {"the-service-decorator-exists": fi is not None}
        if fi is None:
            return out
        repl = [n for n in _ast.walk(fi.node) if isinstance(n, _ast.Assign) and any(isinstance(t, _ast.Attribute) and t.attr == "__new__" for t in n.targets)]
        out["the-decorator-replaces-__new__-at-one-site"] = len(repl) == 1
        news = [n for n in _ast.walk(fi.node) if isinstance(n, _ast.FunctionDef) and repl and isinstance(repl[0].value, _ast.Name) and n.name == repl[0].value.id]
        if len(news) == 1:
            a = news[0].args
            generic = a.vararg is not None and a.kwarg is not None and len(a.args) + len(a.posonlyargs) == 1 and not a.kwonlyargs
            declares = any(isinstance(n, _ast.Attribute) and n.attr in ("__signature__", "__wrapped__") for n in _ast.walk(fi.node)) or \
                any(isinstance(n, _ast.Name) and n.id in ("wraps", "update_wrapper") for n in _ast.walk(fi.node))
            out["the-replaced-__new__-reports-the-constructors-real-parameters"] = (not generic) or declares
        return out

    known = {"the-replaced-__new__-reports-the-constructors-real-parameters": ("C04-service-classes-accept-any-arguments-eagerly", lambda c: z3.BoolVal(True))}


# ---- UnboundStepwise: the rule table a template is built from -------------------------------------------------------------------------
STEP = "cobald.controller.stepwise"
UStep = TObj(STEP + ":UnboundStepwise", base=TAny(), rules=TAny(), _thresholds=TAny())


def _mk_ustep_s(nrules, nargs, kwkeys):
    class shape:
        __doc__ = ("skeleton with %d rule(s): .s(%d positional, keywords %r) is a NEW leaf template of Stepwise holding the base rule, the rules registered SO FAR "
                   "(in registration order), then the arguments; signature checked at once" % (nrules, nargs, list(kwkeys)))
        body_key = STEP + ":UnboundStepwise.s"
        params = {"self": UStep, "*args": lambda ctx: _sym_tuple("arg", nargs), "**kwargs": lambda ctx: _sym_kw("kw", kwkeys)}
        result = TAny()
        has_events = True

        def setup(ctx, I, bound):
            rules = VList([VTuple([SV(fresh_val("threshold%d" % k), TNum()), SV(fresh_val("rule%d" % k), TAny())]) for k in range(nrules)])
            I.setattr(bound["self"], "rules", rules)
            ctx.ghost["c04_rules"] = list(rules.items)
        setup = staticmethod(setup)

        def ensures(c, self, args, kwargs, result):
            ctx = c.ctx
            rv = c.view_term(result.t, PartialT, c.new_heap)
            got = _field(ctx, rv, "args")
            rules = ctx.ghost["c04_rules"]
            ok = isinstance(got, (VTuple, VList)) and len(got.items) == 1 + nrules + nargs
            facts = []
            if ok:
                facts.append(_tm(ctx, got.items[0]) == c.old(self).base.t)
                for k in range(nrules):
                    pair = ctx.from_val(got.items[1 + k]) if isinstance(got.items[1 + k], SV) else got.items[1 + k]
                    facts.append(_b(isinstance(pair, VTuple) and len(pair.items) == 2))
                    if isinstance(pair, VTuple) and len(pair.items) == 2:
                        facts += [_tm(ctx, pair.items[0]) == _tm(ctx, rules[k].items[0]), _tm(ctx, pair.items[1]) == _tm(ctx, rules[k].items[1])]
                facts += [_tm(ctx, a) == _tm(ctx, b) for a, b in zip(got.items[1 + nrules:], list(args))]
            stepwise_cls = ctx.to_val(ctx.repo.get(STEP + ":Stepwise")).t
            checked = ctx.ghost.get("c04_checked", [])
            return {"a-new-leaf-template-of-Stepwise": c.And(rv.cls_is(PM + ":Partial"), Z.Val.id(result.t) >= ctx.alloc0, rv.ctor.t == stepwise_cls, Z.Val.b(rv.leaf.t)),
                    "holding-base-then-the-rules-registered-so-far-then-the-arguments": c.And(*[_b(f) for f in facts]) if ok else False,
                    "keywords-as-given": _b(_same_kw(ctx, _field(ctx, rv, "kwargs"), dict(kwargs))),
                    # (the template handed out is among the templates whose signature was checked - how many intermediate ones were checked too is not the property's business)
                    "its-signature-is-checked-at-once": _b(any(z3.eq(z3.simplify(_tm(ctx, x)), z3.simplify(result.t)) for x in checked)),
                    "the-skeleton-is-not-modified": c.unchanged(self, "base", "rules", "_thresholds")}

        raises = {"TypeError": lambda c, self, args, kwargs, exc: c.n_events() >= 1}       # only out of a signature check (how many templates were checked on the way is not the point)
    return shape


for _a in [(0, 0, ()), (2, 0, ("interval",)), (1, 1, ())]:
    contract(STEP + ":UnboundStepwise.s#rules(%d)+args(%d)+kw(%s)" % (_a[0], _a[1], ",".join(_a[2])), props=["C04"])(_mk_ustep_s(*_a))
