"""C18 - YAML loading never instantiates anything that is not a registered plugin (DESIGN.md section 5, C18).
What contracts on cobald can say: cobald reads the document with a loader that satisfies the ASSUMED PyYAML safe-loader
contract, and the only constructors it adds are plugin factories under `!name` tags.  The universal quantifier over
documents is carried entirely by that assumed contract; the check proves the wiring and says so."""
import ast

from .common import *
from .runtime_lib import amethod, ANYT
from pyvc.engine import Event
from pyvc.repo import ExternalRef, FunctionInfo, ClassInfo
import pyvc.z as Z

CORE = "cobald.daemon.core.config"
YAML = "cobald.daemon.config.yaml"
SAFE = {"yaml.SafeLoader", "yaml.CSafeLoader"}
FORBIDDEN_NAMES = {"Loader", "UnsafeLoader", "FullLoader", "CLoader", "CFullLoader", "CUnsafeLoader", "unsafe_load", "full_load", "load_all", "unsafe_load_all", "full_load_all"}
TABLES = {"yaml_constructors", "yaml_multi_constructors", "yaml_implicit_resolvers", "yaml_path_resolvers", "yaml_representers", "yaml_multi_representers"}
PERMISSIVE_PARTS = {"FullConstructor", "UnsafeConstructor", "Constructor", "FullLoader", "UnsafeLoader", "Loader", "CLoader", "CFullLoader", "CUnsafeLoader"}
REGISTRARS = {"add_constructor", "add_multi_constructor", "add_implicit_resolver", "add_path_resolver", "add_representer"}


def _calls_in(fn_node):
    return [n for n in ast.walk(fn_node) if isinstance(n, ast.Call)]


@contract("static:yaml-loader-wiring", props=["C18"], kind="static")
class wiring:
    """decided on the AST of src/cobald: which loader class reads the document and which constructors it can ever gain"""

    def static(E):
        out = {}
        repo = E.repo
        m = repo.modules[CORE]
        cls = repo.get(CORE + ":COBalDLoader")
        ok_cls = isinstance(cls, ClassInfo)
        out["COBalDLoader-exists"] = ok_cls
        if ok_cls:
            bases = repo.mro(cls)[1:]
            ext = [b.dotted for b in bases if isinstance(b, ExternalRef)]
            out["every-base-of-COBalDLoader-is-a-safe-loader"] = bool(ext) and all(b in SAFE for b in ext) and all(isinstance(b, ExternalRef) for b in bases)
            body = [s for s in cls.node.body if not (isinstance(s, ast.Expr) and isinstance(s.value, ast.Constant)) and not isinstance(s, ast.Pass)]
            out["COBalDLoader-body-adds-nothing"] = not body and not cls.node.decorator_list and not cls.node.keywords
        # (2) registrars: only add_constructor_plugins, with tag "!" + entry.name
        sites = []
        forbidden = []
        yaml_load_calls = []
        for name, mod in repo.modules.items():
            for node in ast.walk(mod.tree):
                if isinstance(node, ast.Call) and isinstance(node.func, ast.Attribute) and node.func.attr in REGISTRARS:
                    sites.append((name, node))
                if isinstance(node, ast.Attribute) and isinstance(node.value, ast.Name) and node.value.id == "yaml" and node.attr in FORBIDDEN_NAMES | {"load"}:
                    forbidden.append((name, node.attr))
                if isinstance(node, ast.ImportFrom) and node.module == "yaml":
                    for a in node.names:
                        if a.name in FORBIDDEN_NAMES | {"load"}:
                            forbidden.append((name, a.name))
        out["the-only-constructor-registration-is-in-add_constructor_plugins"] = len(sites) == 1 and sites[0][0] == CORE and sites[0][1].func.attr == "add_constructor"
        if len(sites) == 1:
            call = sites[0][1]
            kw = {k.arg: k.value for k in call.keywords}
            tag = kw.get("tag") or (call.args[0] if call.args else None)
            out["registered-tags-are-exclamation-mark-plus-plugin-name"] = tag is not None and ast.unparse(tag) in ('"!" + entry.name', "'!' + entry.name")
            ctor = kw.get("constructor") or (call.args[1] if len(call.args) > 1 else None)
            out["registered-constructors-are-yaml_constructor-of-the-plugin-factory"] = ctor is not None and isinstance(ctor, ast.Call) and ast.unparse(ctor.func) == "yaml_constructor" and ast.unparse(ctor.args[0]) == "pipeline_factory"
            fn = repo.get(CORE + ":add_constructor_plugins")
            assigns = [ast.unparse(n.value) for n in ast.walk(fn.node) if isinstance(n, ast.Assign) and any(isinstance(t, ast.Name) and t.id == "pipeline_factory" for t in n.targets)]
            out["the-plugin-factory-is-the-entry-points-object-or-its-.s"] = sorted(assigns) == ["entry.load()", "entry.load().s"]
            out["registration-targets-the-loader-argument"] = ast.unparse(call.func.value) == "loader"
        out["no-permissive-yaml-entry-point-is-named-anywhere-in-src"] = not forbidden
        # (2b) PyYAML's constructor / resolver tables are class attributes that add_constructor() copies on write; touching them
        # directly (or importing a permissive Constructor class to borrow its methods) bypasses every fact above
        tables = []
        for name, mod in repo.modules.items():
            for node in ast.walk(mod.tree):
                if isinstance(node, ast.Attribute) and node.attr in TABLES:
                    tables.append((name, node.attr))
                if isinstance(node, ast.ImportFrom) and (node.module or "").split(".")[0] == "yaml":
                    for a in node.names:
                        if a.name in PERMISSIVE_PARTS or a.name == "*":
                            tables.append((name, a.name))
                if isinstance(node, ast.Attribute) and node.attr in PERMISSIVE_PARTS:
                    tables.append((name, node.attr))
        out["no-constructor-or-resolver-table-of-PyYAML-is-touched-directly"] = not tables
        # (3) load(): yaml/yml goes through COBalDLoader and nothing else
        fn = repo.get(CORE + ":load")
        ok = isinstance(fn, FunctionInfo)
        out["load-exists"] = ok
        if ok:
            calls = [c for c in _calls_in(fn.node) if ast.unparse(c.func) == "load_yaml_configuration"]
            kws = {k.arg: ast.unparse(k.value) for c in calls for k in c.keywords}
            out["load-reads-yaml-with-COBalDLoader-only"] = len(calls) == 1 and kws.get("loader") == "COBalDLoader"
            acp = [c for c in _calls_in(fn.node) if ast.unparse(c.func) == "add_constructor_plugins"]
            out["plugins-are-registered-on-COBalDLoader"] = len(acp) == 1 and len(acp[0].args) >= 2 and ast.unparse(acp[0].args[1]) == "COBalDLoader"
            b = repo.modules[CORE].bindings.get("load_yaml_configuration")
            out["load_yaml_configuration-is-cobalds-own-yaml-loader"] = b == ("import", YAML, "load_configuration")
        # (5) factory_constructor calls only the factory and the loader's own construct_mapping / construct_sequence
        fc = repo.get(YAML + ":yaml_constructor.factory_constructor")
        out["factory_constructor-exists"] = isinstance(fc, FunctionInfo)
        if isinstance(fc, FunctionInfo):
            called = sorted({ast.unparse(c.func) for c in _calls_in(fc.node)})
            out["factory_constructor-calls-only-factory-and-the-loaders-own-constructors"] = set(called) <= {"factory", "loader.construct_mapping", "loader.construct_sequence", "isinstance", "ConfigurationError", "type"}
        return out


# ---- yaml.load_configuration: the data comes from exactly the given loader's get_single_data() -----------------------
LoaderInst = TAbs("yaml.LoaderInstance", fields={}, events=False)
def _gsd():
    from . import c14_config as C14

    return amethod("loader.get_single_data", {"self": LoaderInst}, result=C14.Config, fresh_result=True,
                   doc="PyYAML: constructs the single document with THIS loader's constructor tables (here: a top-level mapping without a `logging` section)",
                   ensures=lambda c, self, result: c.Not(result.has("logging")),
                   emits=lambda c, ctx, self: ctx.emit("get_single_data", self), has_events=True, raises={"Exception": lambda c, self, exc: True})


LoaderInst.methods["get_single_data"] = _gsd()
LoaderInst.methods["dispose"] = amethod("loader.dispose", {"self": LoaderInst}, emits=lambda c, ctx, self: ctx.emit("dispose", self), has_events=True)
_lc = amethod("loader-class", {"self": None, "stream": ANYT}, doc="instantiating the loader class on the stream", result=LoaderInst, fresh_result=True,
              emits=lambda c, ctx, self, stream: ctx.emit("loader-instantiated", self, stream), has_events=True)
LoaderCls = TFn(_lc)
_lc.params["self"] = LoaderCls


from . import c14_config as C14


@contract(YAML + ":load_configuration", props=["C18"])
class yaml_load_configuration:
    """the configuration data is obtained ONLY from `loader(stream).get_single_data()` for the loader class that was passed in,
    on the opened file; the loader instance is disposed on every path; the data then goes to the section loader"""
    params = dict(path=TStr(), loader=LoaderCls, plugins=C14.Plugins)
    has_events = True
    result = TAny()

    def requires(c, path, loader, plugins):
        return plugins.distinct()

    def writes(c, path, loader, plugins):
        return [("all", f, lambda x: True) for f in ("$mhas", "$mval", "$len", "$item")]

    def ensures(c, path, loader, plugins, result):
        return {"data-comes-from-the-given-loaders-get_single_data-and-the-loader-is-disposed": _prefix18(c, path, loader)}

    raises = {"BaseException": lambda c, path, loader, plugins, exc: _prefix18(c, path, loader)}


def _prefix18(c, path, loader):
    inst = Event.e_a(c.event_at(2))
    return c.And(c.n_events() >= 5, c.event_at(0) == c.event("open", path), Event.e_kind(c.event_at(1)) == c.ctx.E.event_kind("loader-instantiated"),
                 Event.e_a(c.event_at(1)) == loader.t, Event.e_kind(c.event_at(2)) == c.ctx.E.event_kind("get_single_data"),
                 Event.e_kind(c.event_at(3)) == c.ctx.E.event_kind("dispose"), Event.e_a(c.event_at(3)) == inst, c.event_at(4) == c.event("close", path))
