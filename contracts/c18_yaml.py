"""C18 - YAML loading never instantiates anything that is not a registered plugin (DESIGN.md section 5, C18).
What contracts on cobald can say: cobald reads the document with a loader that satisfies the ASSUMED PyYAML safe-loader
contract, and the only constructors it adds are plugin factories under `!name` tags.  The universal quantifier over
documents is carried entirely by that assumed contract; the check proves the wiring and says so."""
import ast

from .common import *
from .runtime_lib import amethod, ANYT
from pyvc.engine import Event
from pyvc.repo import ExternalRef, FunctionInfo, ClassInfo
import pyvc.z as Z

CORE = "cobald.daemon.core.config"
YAML = "cobald.daemon.config.yaml"
SAFE = {"yaml.SafeLoader", "yaml.CSafeLoader"}
FORBIDDEN_NAMES = {"Loader", "UnsafeLoader", "FullLoader", "CLoader", "CFullLoader", "CUnsafeLoader", "unsafe_load", "full_load", "load_all", "unsafe_load_all", "full_load_all"}
TABLES = {"yaml_constructors", "yaml_multi_constructors", "yaml_implicit_resolvers", "yaml_path_resolvers", "yaml_representers", "yaml_multi_representers"}
PERMISSIVE_PARTS = {"FullConstructor", "UnsafeConstructor", "Constructor", "FullLoader", "UnsafeLoader", "Loader", "CLoader", "CFullLoader", "CUnsafeLoader"}
REGISTRARS = {"add_constructor", "add_multi_constructor", "add_implicit_resolver", "add_path_resolver", "add_representer"}


def _calls_in(fn_node):
    return [n for n in ast.walk(fn_node) if isinstance(n, ast.Call)]


@contract("static:yaml-loader-wiring", props=["C18"], kind="static")
class wiring:
    """decided on the AST of src/cobald: which loader class reads the document and which constructors it can ever gain"""

    def static(E):
        out = {}
        repo = E.repo
        m = repo.modules[CORE]
        cls = repo.get(CORE + ":COBalDLoader")
        ok_cls = isinstance(cls, ClassInfo)
        out["COBalDLoader-exists"] = ok_cls
        if ok_cls:
            bases = repo.mro(cls)[1:]
            ext = [b.dotted for b in bases if isinstance(b, ExternalRef)]
            out["every-base-of-COBalDLoader-is-a-safe-loader"] = bool(ext) and all(b in SAFE for b in ext) and all(isinstance(b, ExternalRef) for b in bases)
            body = [s for s in cls.node.body if not (isinstance(s, ast.Expr) and isinstance(s.value, ast.Constant)) and not isinstance(s, ast.Pass)]
            out["COBalDLoader-body-adds-nothing"] = not body and not cls.node.decorator_list and not cls.node.keywords
        # (2) registrars: only add_constructor_plugins, with tag "!" + entry.name
        sites = []
        forbidden = []
        yaml_load_calls = []
        for name, mod in repo.modules.items():
            for node in ast.walk(mod.tree):
                if isinstance(node, ast.Call) and isinstance(node.func, ast.Attribute) and node.func.attr in REGISTRARS:
                    sites.append((name, node))
                if isinstance(node, ast.Attribute) and isinstance(node.value, ast.Name) and node.value.id == "yaml" and node.attr in FORBIDDEN_NAMES | {"load"}:
                    forbidden.append((name, node.attr))
                if isinstance(node, ast.ImportFrom) and node.module == "yaml":
                    for a in node.names:
                        if a.name in FORBIDDEN_NAMES | {"load"}:
                            forbidden.append((name, a.name))
        out["the-only-constructor-registration-is-in-add_constructor_plugins"] = len(sites) == 1 and sites[0][0] == CORE and sites[0][1].func.attr == "add_constructor"
        # WHAT is registered there (tag '!' + name, yaml_constructor of the plugin's factory, on the loader passed in) is no longer a fact about
        # the syntax: it is the contract of add_constructor_plugins itself (contracts/c18_registration.py) - the syntactic version raised a
        # false alarm on a refactoring that only introduced two intermediate variables (DESIGN.md section 9, row 23)
        out["no-permissive-yaml-entry-point-is-named-anywhere-in-src"] = not forbidden
        # (2b) PyYAML's constructor / resolver tables are class attributes that add_constructor() copies on write; touching them
        # directly (or importing a permissive Constructor class to borrow its methods) bypasses every fact above
        tables = []
        for name, mod in repo.modules.items():
            for node in ast.walk(mod.tree):
                if isinstance(node, ast.Attribute) and node.attr in TABLES:
                    tables.append((name, node.attr))
                if isinstance(node, ast.ImportFrom) and (node.module or "").split(".")[0] == "yaml":
                    for a in node.names:
                        if a.name in PERMISSIVE_PARTS or a.name == "*":
                            tables.append((name, a.name))
                if isinstance(node, ast.Attribute) and node.attr in PERMISSIVE_PARTS:
                    tables.append((name, node.attr))
        out["no-constructor-or-resolver-table-of-PyYAML-is-touched-directly"] = not tables
        # (3) load(): yaml/yml goes through COBalDLoader and nothing else
        fn = repo.get(CORE + ":load")
        ok = isinstance(fn, FunctionInfo)
        out["load-exists"] = ok
        if ok:
            pass      # WHICH loader reads the document, and that the plugins were registered on that very class, is the contract of `load` itself (core_load below)
        # (5) factory_constructor calls only the factory and the loader's own construct_mapping / construct_sequence
        fc = repo.get(YAML + ":yaml_constructor.factory_constructor")
        out["factory_constructor-exists"] = isinstance(fc, FunctionInfo)
        if isinstance(fc, FunctionInfo):
            called = sorted({ast.unparse(c.func) for c in _calls_in(fc.node)})
            out["factory_constructor-calls-only-factory-and-the-loaders-own-constructors"] = set(called) <= {"factory", "loader.construct_mapping", "loader.construct_sequence", "isinstance", "ConfigurationError", "type"}
        return out


# ---- yaml.load_configuration: the data comes from exactly the given loader's get_single_data() -----------------------
LoaderInst = TAbs("yaml.LoaderInstance", fields={}, events=False)
def _gsd():
    from . import c14_config as C14

    return amethod("loader.get_single_data", {"self": LoaderInst}, result=C14.Config, fresh_result=True,
                   doc="PyYAML: constructs the single document with THIS loader's constructor tables (here: a top-level mapping without a `logging` section)",
                   ensures=lambda c, self, result: c.Not(result.has("logging")),
                   emits=lambda c, ctx, self: ctx.emit("get_single_data", self), has_events=True, raises={"Exception": lambda c, self, exc: True})


LoaderInst.methods["get_single_data"] = _gsd()
LoaderInst.methods["dispose"] = amethod("loader.dispose", {"self": LoaderInst}, emits=lambda c, ctx, self: ctx.emit("dispose", self), has_events=True)
_lc = amethod("loader-class", {"self": None, "stream": ANYT}, doc="instantiating the loader class on the stream", result=LoaderInst, fresh_result=True,
              emits=lambda c, ctx, self, stream: ctx.emit("loader-instantiated", self, stream), has_events=True)
LoaderCls = TFn(_lc)
_lc.params["self"] = LoaderCls


from . import c14_config as C14


@contract(YAML + ":load_configuration", props=["C18"])
class yaml_load_configuration:
    """the configuration data is obtained ONLY from `loader(stream).get_single_data()` for the loader class that was passed in,
    on the opened file; the loader instance is disposed on every path; the data then goes to the section loader"""
    params = dict(path=TStr(), loader=LoaderCls, plugins=C14.Plugins)
    has_events = True
    result = TAny()

    def requires(c, path, loader, plugins):
        return plugins.distinct()

    def writes(c, path, loader, plugins):
        return [("all", f, lambda x: True) for f in ("$mhas", "$mval", "$len", "$item")]

    def ensures(c, path, loader, plugins, result):
        return {"data-comes-from-the-given-loaders-get_single_data-and-the-loader-is-disposed": _prefix18(c, path, loader)}

    raises = {"BaseException": lambda c, path, loader, plugins, exc: _prefix18(c, path, loader)}

    def ghost_call(c, ctx, path, loader, plugins):
        ctx.ghost.setdefault("c18_load_steps", []).append(("load_yaml_configuration", path, loader, plugins))
    ghost_call = staticmethod(ghost_call)


def _prefix18(c, path, loader):
    inst = Event.e_a(c.event_at(2))
    return c.And(c.n_events() >= 5, c.event_at(0) == c.event("open", path), Event.e_kind(c.event_at(1)) == c.ctx.E.event_kind("loader-instantiated"),
                 Event.e_a(c.event_at(1)) == _t18(c, loader), Event.e_kind(c.event_at(2)) == c.ctx.E.event_kind("get_single_data"),
                 Event.e_kind(c.event_at(3)) == c.ctx.E.event_kind("dispose"), Event.e_a(c.event_at(3)) == inst, c.event_at(4) == c.event("close", path))


# ---- core.config.load: which loader reads the document, and where its constructors come from -------------------------------------------
@contract(CORE + ":load_section_plugins", props=["C18"], skip_body=True, kind="abstract")
class load_section_plugins_iface:
    """interface only (the function itself: bounded stand-in of C14): some tuple of section plugins with pairwise different sections"""
    params = dict(entry_point_group=TStr())
    result = C14.Plugins
    fresh_result = True

    def ensures(c, entry_point_group, result):
        return result.distinct()

    def ghost_call(c, ctx, entry_point_group):
        ctx.ghost.setdefault("c18_load_steps", []).append(("load_section_plugins", entry_point_group))
    ghost_call = staticmethod(ghost_call)

    raises = {"BaseException": lambda c, entry_point_group, exc: True}


@contract("cobald.daemon.config.python:load_configuration", props=["C18"], skip_body=True, kind="abstract")
class load_python_configuration_iface:
    """interface only: executes the given Python file as a module (outside C18: a .py configuration IS code)"""
    params = dict(path=TStr())
    result = TAny()

    def ghost_call(c, ctx, path):
        ctx.ghost.setdefault("c18_load_steps", []).append(("load_python_configuration", path))
    ghost_call = staticmethod(ghost_call)

    raises = {"BaseException": lambda c, path, exc: True}


def _suffix_is(c, path, *exts):
    """the path's extension (after its last '.', with no '/' behind it) is one of exts"""
    p = Z.Val.s(path.t)
    return c.Or(*[z3.SuffixOf(z3.StringVal(e), p) for e in exts])


@contract(CORE + ":load", props=["C18"])
class core_load:
    """core.config.load(path), the daemon's only way to read a configuration: a .yaml/.yml path is read by load_yaml_configuration with
    exactly COBalDLoader - the class add_constructor_plugins("cobald.config.yaml_constructors", ...) was applied to just before - and the
    section plugins of "cobald.config.sections"; a .py path is executed as a module; anything else is a ValueError and nothing is read.
    (A generator for @contextmanager: the body is run through its single yield.)"""
    params = dict(config_path=TStr())
    has_events = True

    def writes(c, config_path):
        return [("all", f, lambda x: True) for f in ("$mhas", "$mval", "$len", "$item")]

    def ensures(c, config_path):
        ctx = c.ctx
        steps = ctx.ghost.get("c18_load_steps", [])
        yielded = ctx.ghost.get("yielded", [])
        loader = ctx.to_val(ctx.repo.get(CORE + ":COBalDLoader")).t
        kinds = [s[0] for s in steps]
        S = z3.StringVal
        if kinds == ["add_constructor_plugins", "load_section_plugins", "load_yaml_configuration"]:
            acp, lsp, lyc = steps
            plugins_result = ctx.ghost.get("c18_section_plugins")
            shape = c.And(Z.Val.s(_t18(c, acp[1])) == S("cobald.config.yaml_constructors"), _t18(c, acp[2]) == loader,
                          Z.Val.s(_t18(c, lsp[1])) == S("cobald.config.sections"),
                          _t18(c, lyc[1]) == config_path.t, _t18(c, lyc[2]) == loader)
            return {"a-yaml-path-is-read-with-COBalDLoader-after-the-constructor-plugins-were-registered-on-it": c.And(shape, _suffix_is(c, config_path, ".yaml", ".yml")),
                    "one-value-is-handed-to-the-with-block": _bb18(len(yielded) == 1)}
        if kinds == ["load_python_configuration"]:
            return {"only-a-py-path-is-executed-as-a-module": c.And(_t18(c, steps[0][1]) == config_path.t, _suffix_is(c, config_path, ".py")),
                    "one-value-is-handed-to-the-with-block": _bb18(len(yielded) == 1)}
        return {"the-configuration-is-read-in-one-of-the-two-documented-ways": False}

    # an exception either comes out of one of the steps (then that step was one of the documented ones, in the documented order), or it is the
    # ValueError for an extension that is none of the three - raised before anything was read
    raises = {"ValueError": lambda c, config_path, exc: _bb18(_documented_prefix(c)),
              "BaseException": lambda c, config_path, exc: _bb18(bool(c.ctx.ghost.get("c18_load_steps")) and _documented_prefix(c))}


def _documented_prefix(c):
    kinds = [s[0] for s in c.ctx.ghost.get("c18_load_steps", [])]
    full = ["add_constructor_plugins", "load_section_plugins", "load_yaml_configuration"]
    return kinds == full[:len(kinds)] or kinds == ["load_python_configuration"]


def _t18(c, x):
    return x.t if hasattr(x, "t") else c.ctx.to_val(x).t


def _bb18(x):
    return z3.BoolVal(bool(x)) if isinstance(x, bool) else x
