"""C16 - decorators are transparent except for what they are meant to change (DESIGN.md section 5, C16)."""
from .common import *
from pyvc import ext_libs as X
import pyvc.z as Z
from pyvc.engine import Event
from pyvc.repo import FunctionInfo, PropertyInfo

Pool = pool(demand=NumX)
PROXY = "cobald.interfaces._proxy"
LOG = "cobald.decorator.logger"

Deco = TObj(PROXY + ":PoolDecorator", target=Pool)


def _getter(attr):
    class G:
        params = dict(self=Deco)
        result = NumX

        def ensures(c, self, result):
            return {"returns-the-targets-%s" % attr: result.same(getattr(self.target, attr))}

    G.__name__ = "deco_" + attr
    return G


for _a in ("supply", "utilisation", "allocation", "demand"):
    contract(PROXY + ":PoolDecorator.%s.getter" % _a, props=["C16"])(_getter(_a))


@contract(PROXY + ":PoolDecorator.demand.setter", props=["C16"])
class deco_set_demand:
    params = dict(self=Deco, value=NumX)
    has_events = True

    def writes(c, self, value):
        return [(self.target, "demand")]

    def ensures(c, self, value):
        return {"passes-the-write-through-unchanged": c.And(self.target.demand.same(value), c.events_are(c.event("store", self.target, "demand", value))),
                "nothing-else-changes": c.unchanged(self.target, "supply", "utilisation", "allocation")}


@contract(PROXY + ":PoolDecorator.__init__", props=["C16"])
class deco_init:
    params = dict(self=Deco, target=Pool)
    new_object = "self"

    def writes(c, self, target):
        return [(self, "target")]

    def ensures(c, self, target):
        return {"wraps-the-given-pool": self.target == target}


# ---- class resolution: every shipped decorator reports supply/utilisation/allocation through PoolDecorator's getters
DECORATORS = {
    "PoolDecorator": PROXY + ":PoolDecorator",
    "Logger": LOG + ":Logger",
    "Standardiser": "cobald.decorator.standardiser:Standardiser",
    "Buffer": "cobald.decorator.buffer:Buffer",
    "Limiter": "cobald.decorator.limiter:Limiter",
    "Coarser": "cobald.decorator.coarser:Coarser",
}


@contract("static:decorator-class-resolution", props=["C16"], kind="static")
class resolution:
    """decided on the AST: through the real MRO of each shipped decorator, supply/utilisation/allocation resolve to
    PoolDecorator's own getters (the ones under contract above) and the class body does not shadow them"""

    def static(E):
        out = {}
        base = E.repo.get(PROXY + ":PoolDecorator")
        for nm, key in DECORATORS.items():
            mod, cname = key.split(":")
            cls = E.repo.resolve_global(E.repo.modules[mod], cname)
            ok_cls = cls is not None and hasattr(cls, "members")
            out["%s-is-a-class" % nm] = bool(ok_cls)
            if not ok_cls:
                continue
            for attr in ("supply", "utilisation", "allocation"):
                owner, mem = E.repo.lookup_member(cls, attr)
                out["%s.%s-is-PoolDecorators-getter" % (nm, attr)] = owner is base and isinstance(mem, PropertyInfo) and mem.setter is None
        lg = E.repo.get(LOG + ":Logger")
        owner, mem = E.repo.lookup_member(lg, "demand")
        out["Logger.demand-is-its-own-property"] = owner is lg and isinstance(mem, PropertyInfo)
        return out


# ---- Logger ------------------------------------------------------------------------------------------
Lg = TObj(LOG + ":Logger", target=Pool, _logger=PyLogger, message=TStr(), level=TAny())
FIELDS = ["value", "demand", "supply", "utilisation", "allocation", "consumption", "target"]   # the documented + deprecated fields


def template_ok(msg):
    return X.names_within(Z.Val.s(msg.t), FIELDS)


@contract(LOG + ":Logger.demand.getter", props=["C16"])
class logger_get:
    params = dict(self=Lg)
    result = NumX

    def ensures(c, self, result):
        return {"returns-the-targets-demand": result.same(self.target.demand)}


@contract(LOG + ":Logger.demand.setter", props=["C16"])
class logger_set:
    params = dict(self=Lg, value=NumX)
    has_events = True

    def requires(c, self, value):
        # established by __init__ (its postcondition): the template only names known fields
        return template_ok(self.message)

    def writes(c, self, value):
        return [(self.target, "demand")]

    def ensures(c, self, value):
        t0 = c.old(self.target)
        e0, e1 = c.event_at(0), c.event_at(1)
        rec = Z.Val.id(Event.e_d(e0))

        def rf(name):
            return z3.Select(c.ctx.rd(c.new_heap, "rec:" + name), rec)

        return {
            "exactly-one-record-then-the-write": c.And(c.n_events() == 2, Event.e_kind(e0) == c.ctx.E.event_kind("log"),
                                                       e1 == c.event("store", self.target, "demand", value)),
            "on-the-configured-logger-level-and-template": c.And(Event.e_a(e0) == self._logger.t, Event.e_b(e0) == self.level.t, Event.e_c(e0) == self.message.t),
            "record-carries-new-value-and-the-targets-state-before-the-write": c.And(
                rf("value") == value.t, rf("demand") == t0.demand.t, rf("supply") == t0.supply.t,
                rf("utilisation") == t0.utilisation.t, rf("allocation") == t0.allocation.t, rf("target") == self.target.t),
            "write-passes-through-unchanged": self.target.demand.same(value),
            "nothing-else-changes": c.unchanged(self.target, "supply", "utilisation", "allocation"),
        }


@contract(LOG + ":Logger.name.setter", props=["C16"])
class logger_set_name:
    params = dict(self=Lg, value=TOpt(TStr()))

    def writes(c, self, value):
        return [(self, "_logger")]

    def ensures(c, self, value):
        from pyvc.builtins_ import cls_name_of
        nm = z3.If(value.is_none, cls_name_of(self.target.id), Z.Val.s(value.t))
        return {"logger-is-getLogger-of-the-name-or-of-the-targets-class-name": self._logger.id == X.logger_of(nm)}


@contract(LOG + ":Logger.__init__", props=["C16"])
class logger_init:
    params = dict(self=Lg, target=Pool, name=TOpt(TStr()), message=TStr(), level=TAny())
    new_object = "self"

    def writes(c, self, **kw):
        return [(self, f) for f in ("target", "_logger", "message", "level")]

    def ensures(c, self, target, name, message, level):
        from pyvc.builtins_ import cls_name_of
        nm = z3.If(name.is_none, cls_name_of(target.id), Z.Val.s(name.t))
        return {
            "accepted-template-names-only-known-fields": template_ok(message),
            "configured": c.And(self.target == target, self.message == message, self.level == level, self._logger.id == X.logger_of(nm)),
        }

    raises = {
        # a template naming an unknown field is rejected at construction
        "RuntimeError": lambda c, self, target, name, message, level, exc: c.Not(template_ok(message)),
        # a malformed conversion specifier is reported by %-formatting itself (property is silent about it)
        "TypeError": lambda c, self, target, name, message, level, exc: True,
        "ValueError": lambda c, self, target, name, message, level, exc: True,
    }
