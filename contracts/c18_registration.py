"""C18 / C05 - how YAML tags get registered (add_constructor_plugins) and how section plugins are read from entry points
(SectionPlugin.load), as contracts on the real functions instead of pattern facts about their syntax.

add_constructor_plugins: for EVERY entry point of the group, in order - a name starting with '!' is a RuntimeError and nothing further is
registered; otherwise exactly ONE add_constructor on the loader that was passed in, under the tag '!' + name, with the constructor
yaml_constructor(<the plugin's .s template factory if it has one, else the plugin itself>, eager=<the plugin's tag settings>)."""
from .common import *
from .runtime_lib import amethod, ANYT
from pyvc.values import VDict, VSet, VTuple, VList, SV, Closure
from pyvc.engine import fresh_val, fresh, Event, Unsupported, PyRaise
from pyvc.repo import ExternalRef
import pyvc.z as Z

CORE = "cobald.daemon.core.config"
YAML = "cobald.daemon.config.yaml"
PLG = "cobald.daemon.plugins"
MAP = "cobald.daemon.config.mapping"
S = z3.StringVal

LOADED = z3.Function("entry_point_load", Z.Val, Z.Val)          # what entry.load() returns: a function of the entry point (assumed)

# ---- tag settings (a NamedTuple instance) and the loaded plugin object ------------------------------------------------------------------
TAG = "__cobald_yaml_tag__"
Settings = TObj(PLG + ":YAMLTagSettings", eager=TBool())
# the loaded plugin: may or may not have a `.s` template factory (open attribute), may or may not be marked with tag settings
PluginObj = TAbs("loaded-plugin", fields={}, events=False, optional={TAG: Settings})
PluginObj.open_attrs = True          # `.s` either exists (attr_of(plugin, "s")) or raises AttributeError - both explored


def eager_of(c, t, heap):
    """the eagerness the tag settings of object `t` stand for in `heap`: its mark's `eager` if it is marked, else the default False"""
    v = c.view_term(t, PluginObj, heap)
    return z3.If(v.has(TAG), Z.Val.b(v.field(TAG).eager.t), z3.BoolVal(False))


def _load_after(c, ctx, outcome, value, self):
    pass


_ep_load = amethod("EntryPoint.load", {"self": None}, doc="entrypoints (assumed): imports and returns the object the entry point names - a function of the entry point",
                   result=PluginObj, ensures=lambda c, self, result: result.t == LOADED(self.t), raises={"BaseException": lambda c, self, exc: True})
EntryPoint = TAbs("EntryPoint", fields=dict(name=TStr(), extras=TAny(), module_name=TStr(), object_name=TStr()), methods={"load": _ep_load}, events=False)
_ep_load.params["self"] = EntryPoint
EntryPoints = TSeq(EntryPoint, "list")


def _get_entrypoints(I, args, kwargs):
    """entrypoints.get_group_all(group) (assumed): the installed entry points of the group, as a list"""
    ctx = I.ctx
    seq = ctx.typed(fresh_val("entry_points"), EntryPoints)
    ctx.assume(z3.And(Z.Val.id(seq.t) > 0, Z.Val.id(seq.t) < ctx.alloc0))
    ctx.assume_class(seq.t, EntryPoints)
    ctx.touch(seq)
    ctx.ghost["c18_entry_points"] = seq
    ctx.emit("get_entrypoints", ctx.to_val(args[0]))
    return seq


# ---- YAMLTagSettings.fetch / .mark / yaml_tag: real bodies -------------------------------------------------------------------------------
@contract(PLG + ":YAMLTagSettings.fetch", props=["C05", "C18"])
class settings_fetch:
    """the settings a plugin was marked with (its `__cobald_yaml_tag__`), else NEW default settings (lazy); nothing is modified"""
    params = {"cls": lambda ctx: ctx.repo.get(PLG + ":YAMLTagSettings"), "plugin": PluginObj}
    result = Settings

    def writes(c, cls, plugin):
        return []

    def ensures(c, cls, plugin, result):
        marked = c.old(plugin).has(TAG)
        return {"a-marked-plugin-yields-its-own-settings": c.Implies(marked, result.t == c.old(plugin).field(TAG).t),
                "an-unmarked-plugin-yields-new-default-settings-which-are-lazy": c.Implies(c.Not(marked), c.And(Z.Val.id(result.t) >= c.ctx.alloc0, c.Not(Z.Val.b(result.eager.t)))),
                "so-the-eagerness-is-the-marks-else-lazy": Z.Val.b(result.eager.t) == eager_of(c, plugin.t, c.old_heap)}


@contract(PLG + ":YAMLTagSettings.mark", props=["C05"])
class settings_mark:
    """marks the plugin with THESE settings (and touches nothing else)"""
    params = {"self": Settings, "plugin": PluginObj}

    def writes(c, self, plugin):
        return [(plugin, TAG), (plugin, "has:" + TAG)]

    def ensures(c, self, plugin):
        return {"the-plugin-now-carries-these-settings": c.And(plugin.has(TAG), plugin.field(TAG).t == self.t),
                "the-settings-are-unchanged": c.unchanged(self, "eager")}


@contract(PLG + ":yaml_tag.mark_settings", props=["C05"])
class yaml_tag_mark:
    """the decorator returned by yaml_tag(eager=e): marks the plugin with NEW settings whose eagerness is e, and returns the plugin itself"""
    params = {"plugin": PluginObj}
    result = TAny()

    def closure_env(ctx, I, bound):
        e = ctx.typed(z3.Const("p_env_eager", Z.Val), TBool())
        ctx.ghost["c05_env_eager"] = e
        return [{"eager": e}]
    closure_env = staticmethod(closure_env)

    def writes(c, plugin):
        return [(plugin, TAG), (plugin, "has:" + TAG)]

    def ensures(c, plugin, result):
        e = c.ctx.ghost["c05_env_eager"]
        return {"returns-the-plugin-itself": result.t == plugin.t,
                "marked-with-new-settings-of-the-requested-eagerness": c.And(plugin.has(TAG), Z.Val.id(plugin.field(TAG).t) >= c.ctx.alloc0, plugin.field(TAG).eager.t == e.t),
                "so-fetch-will-report-that-eagerness": eager_of(c, plugin.t, c.new_heap) == Z.Val.b(e.t)}


# ---- the loader class that receives the constructors -------------------------------------------------------------------------------------
def _add_ctor_emits(c, ctx, self, tag=None, constructor=None, **rest):
    regs = ctx.ghost.setdefault("c18_registrations", [])
    regs.append({"loader": self, "tag": tag, "constructor": constructor})
    ctx.emit("add_constructor", self, tag)


_add_ctor = amethod("Loader.add_constructor", {"self": None, "tag": ANYT, "constructor": ANYT}, doc="PyYAML (assumed): registers `constructor` for exactly `tag` on this loader class",
                    emits=_add_ctor_emits, has_events=True)
LoaderClass = TAbs("yaml-loader-class", fields={}, methods={"add_constructor": _add_ctor}, events=False)
_add_ctor.params["self"] = LoaderClass


def install(E):
    E.externals["entrypoints.get_group_all"] = _get_entrypoints


def _registered_right(c, L, entry):
    """the registration made for `entry` in this iteration (python-level record + terms)"""
    ctx = c.ctx
    regs = ctx.ghost.get("c18_registrations", [])
    if len(regs) != 1:
        return False
    reg = regs[0]
    ctor = reg["constructor"]
    ctor = ctx.from_val(SV(ctor.t, TAny())) if hasattr(ctor, "t") else ctor
    if not isinstance(ctor, Closure) or ctor.fi.key != YAML + ":yaml_constructor.factory_constructor":
        return False
    env = {}
    for fr in ctor.env:
        env.update(fr)
    factory, eager = env.get("factory"), env.get("eager")
    if factory is None or eager is None:
        return False
    plugin = LOADED(entry.t)
    has_s = ctx.ghost.get("c18_has_s")          # which way the `.s` lookup went on this path (recorded by the open attribute model)
    ft = ctx.to_val(factory).t
    return c.And(reg["loader"].t == L.loader.t,
                 Z.Val.s(reg["tag"].t) == z3.Concat(S("!"), Z.Val.s(entry.name.t)),
                 z3.Or(ft == plugin, ft == Z.attr_of(plugin, S("s"))),
                 Z.Val.b(ctx.to_val(eager).t) == eager_of(c, ft, c.old_heap))


@contract(CORE + ":add_constructor_plugins", props=["C18", "C05"])
class add_constructor_plugins:
    """see module docstring; proved through an iteration contract over the (arbitrarily long) list of entry points"""
    params = {"entry_point_group": TStr(), "loader": LoaderClass}
    has_events = True

    def writes(c, entry_point_group, loader):
        return []

    def ensures(c, entry_point_group, loader):
        eps = c.ctx.ghost.get("c18_entry_points")
        done = c.loop_done(0)
        if getattr(c, "mode", None) != "prove" or getattr(c.ctx, "concrete", False):
            return {}         # at a call site: the per-entry-point facts live in the iteration contract; a caller learns nothing it could misuse
        return {"the-groups-entry-points-are-read-once-and-every-one-gets-its-iteration": c.And(c.event_at(0) == c.event("get_entrypoints", entry_point_group), done == eps.t) if done is not None and eps is not None else False}

    raises = {"RuntimeError": lambda c, entry_point_group, loader, exc: True, "BaseException": lambda c, entry_point_group, loader, exc: True}

    def ghost_call(c, ctx, entry_point_group, loader):
        ctx.ghost.setdefault("c18_load_steps", []).append(("add_constructor_plugins", entry_point_group, loader))
    ghost_call = staticmethod(ghost_call)

    loops = {0: Loop(
        inv=lambda c, L, i: {"same-loader": L.loader.t == c.old(L.loader).t},
        modifies=lambda c, L: [("trace",)],
        local_types={"entry": EntryPoint, "pipeline_factory": TAny(), "settings": Settings},
        step=lambda c, L, L0: {
            "a-valid-name-gets-exactly-one-registration-under-exclamation-mark-plus-name-with-the-plugins-factory-and-eagerness":
                c.And(c.n_events() == 1, _b(_registered_right(c, L, L.entry))),
            "the-name-does-not-start-with-an-exclamation-mark": z3.Not(z3.PrefixOf(S("!"), Z.Val.s(L.entry.name.t))),
        })}


def _b(x):
    return z3.BoolVal(x) if isinstance(x, bool) else x


# ---- SectionPlugin.load -------------------------------------------------------------------------------------------------------------------
REQS = z3.Function("declared_requirements", Z.Val, Z.Val)


def _requirements_clause(c, rv, entry_point):
    """which way the lookup of `digest.__requirements__` went on this path decides what the plugin must carry"""
    looked = [d for (lab, d) in c.ctx.branch_log if lab == "getattr(__requirements__)"]
    if len(looked) != 1:
        return False                    # the digest's declaration was not consulted (exactly once)
    if looked[0] == 0:
        return rv.requirements.t == Z.attr_of(LOADED(entry_point.t), S("__requirements__"))
    return c.And(Z.Val.id(rv.requirements.t) >= c.ctx.alloc0, c.Not(Z.Val.b(rv.requirements.required.t)))


@contract(MAP + ":SectionPlugin.load", props=["C14"])
class section_plugin_load:
    """a section plugin is read from its entry point: the section is the entry point's NAME, the digest is the loaded object, its
    requirements are the ones the digest declares (`__requirements__`), else the defaults; extras are rejected"""
    params = {"cls": lambda ctx: ctx.repo.get(MAP + ":SectionPlugin"), "entry_point": EntryPoint}
    result = TAny()

    def ensures(c, cls, entry_point, result):
        from . import c14_config as C14

        rv = c.view_term(result.t, C14.Plugin, c.new_heap)
        return {"a-new-plugin-for-this-entry-point": c.And(rv.cls_is(MAP + ":SectionPlugin"), Z.Val.id(result.t) >= c.ctx.alloc0),
                "section-is-the-entry-points-name": rv.section.t == entry_point.name.t,
                "digest-is-the-loaded-object": rv.digest.t == LOADED(entry_point.t),
                "requirements-are-the-digests-declared-ones-else-fresh-defaults": _requirements_clause(c, rv, entry_point),
                "no-extras": c.Not(c.ctx.truth(SV(entry_point.extras.t, TAny())))}

    raises = {"ValueError": lambda c, cls, entry_point, exc: c.ctx.truth(SV(entry_point.extras.t, TAny())), "BaseException": lambda c, cls, entry_point, exc: True}
