"""C15 - FactoryPool spawns and releases just enough children (DESIGN.md section 5, C15).
Ghost view: H (hatchery) and M (mortuary) are finite sets of child objects (membership arrays); sums over them are terms of the
uninterpreted set-sum function of pyvc/setsum.py, whose axioms are theorems of lean/SetSum.lean (Mathlib), checked on every run.
Representation invariant I:  H and M are disjoint;  every member of M has demand 0;  every child has demand >= 0 (hypothesis on
well-behaved children);  members are existing objects."""
from .common import *
from .runtime_lib import amethod, ANYT
from pyvc.values import VDict, VSet, VTuple, VList, SV
from pyvc.engine import fresh_val, fresh, Event, Unsupported, PyRaise
from pyvc.setsum import TSet, ssum, scard, R, lemma_congr, lemma_union, lemma_card_union, lemma_nonneg, lemma_member_le, lemma_card_zero, lemma_filter, ensure_axioms
import pyvc.setsum as SS
import pyvc.z as Z

FAC = "cobald.composite.factory"
NonNeg = TNum(lo=0)
# hypothesis of the property: children are well-behaved pools reporting non-negative demand / supply / utilisation / allocation
Child = pool("ChildPool", supply=NonNeg, utilisation=NonNeg, allocation=NonNeg, demand=NonNeg)
Children = TSet(Child)


def _factory_emits(c, ctx, self):
    ctx.emit("factory-call", self)


def _factory_ensures(c, self, result):
    """HYPOTHESIS on the factory: it produces a NEW pool - one that is not a child already"""
    ctx = c.ctx
    me = ctx.ghost.get("c15_self")
    if me is None:
        return True
    H = z3.Select(ctx.rd(c.new_heap, "$mhas"), Z.Val.id(z3.Select(ctx.rd(c.new_heap, "_hatchery"), Z.Val.id(me.t))))
    M = z3.Select(ctx.rd(c.new_heap, "$mhas"), Z.Val.id(z3.Select(ctx.rd(c.new_heap, "_mortuary"), Z.Val.id(me.t))))
    return c.And(c.Not(z3.Select(H, result.t)), c.Not(z3.Select(M, result.t)))


factory_call = amethod("factory", {"self": None}, doc="the factory: returns a NEW well-behaved pool (hypothesis: not already a child); may raise anything", result=Child, fresh_result=True,
                       emits=_factory_emits, ensures=_factory_ensures, emits_after=lambda c, ctx, outcome, value, self: ctx.ghost.setdefault("c15_spawned", []).append((outcome, value)),
                       has_events=True, raises={"BaseException": lambda c, self, exc: True})
Factory = TFn(factory_call)
factory_call.params["self"] = Factory
FP = TObj(FAC + ":FactoryPool", _demand=NumFin, _hatchery=Children, _mortuary=Children, factory=Factory, interval=NumFin)
SET_HEAP = ("$mhas",)


def H_of(v):
    return v._hatchery.mem


def M_of(v):
    return v._mortuary.mem


def fld(c, name, heap):
    return c.ctx.rd(heap, name)


def inv(c, self, heap=None):
    """representation invariant of a FactoryPool in the given heap (default: the view's own)"""
    ctx = c.ctx
    ensure_axioms(ctx)
    hp = heap if heap is not None else self._heap
    H, M = H_of(self), M_of(self)
    dem = fld(c, "demand", hp)
    x = z3.Const("ix", Z.Val)
    return c.And(
        self._hatchery.id != self._mortuary.id,
        z3.ForAll([x], z3.And(z3.Not(z3.And(z3.Select(H, x), z3.Select(M, x))),
                              z3.Implies(z3.Select(M, x), R(dem, x) == 0),
                              z3.Implies(z3.Or(z3.Select(H, x), z3.Select(M, x)), z3.And(Z.is_refv(x), Z.Val.id(x) > 0, R(dem, x) >= 0)))))


def no_factory_call(c, since_loop_entry=False):
    """no event of this call (function-level clause) / since the loop's entry (loop invariant) is a factory call;
    stated over ABSOLUTE trace positions so that the facts of adjacent ranges (loop, callee) chain by plain instantiation"""
    return no_events_of(c, ("factory-call",))


def no_events_of(c, kinds):
    k = z3.Int("fk")
    ids = [c.ctx.E.event_kind(x) for x in kinds]
    return z3.ForAll([k], z3.Implies(z3.And(c.tr_old_len <= k, k < c.trlen), z3.And(*[Event.e_kind(z3.Select(c.tr, k)) != i for i in ids])), patterns=[z3.Select(c.tr, k)])


def frame_sets(self):
    return [("all", "$mhas", lambda x, a=self._hatchery.id, b=self._mortuary.id: z3.Or(x == a, x == b))]


# ================================================================================ _release_child
@contract(FAC + ":FactoryPool._release_child", props=["C15"])
class release_child:
    """a released child has demand 0, leaves the hatchery and enters the mortuary; nobody else is touched; I is kept"""
    params = dict(self=FP, child=Child)
    has_events = True

    def requires(c, self, child):
        return c.And(inv(c, self), Z.Val.id(child.t) > 0)

    def writes(c, self, child):
        return [(child, "demand")] + frame_sets(self)

    def ensures(c, self, child):
        s0 = c.old(self)
        return {"the-childs-demand-is-zero": child.demand.r == 0,
                "the-child-left-the-hatchery": H_of(self) == z3.Store(H_of(s0), child.t, z3.BoolVal(False)),
                "the-child-is-in-the-mortuary": M_of(self) == z3.Store(M_of(s0), child.t, z3.BoolVal(True)),
                "exactly-one-demand-write-of-zero": c.events_are(c.event("store", child, "demand", Z.mk_int(0))),
                "the-invariant-is-kept": inv(c, self)}


# ================================================================================ _reap_children
def _fn_entry(c):
    """heap at the entry of the function under verification"""
    return c.ctx.ghost["entry"][0]


def released_only(c, self, H0, M0, dem0, dem1):
    """relation between a state and a later one in which the only thing that happened is that some hatchery children were released:
    hatchery shrank, what left it is in the mortuary with demand 0, nobody else's demand changed, mortuary only grew by those"""
    return z3.And(*released_only_parts(c, self, H0, M0, dem0, dem1).values())


def released_only_parts(c, self, H0, M0, dem0, dem1):
    H1, M1 = H_of(self), M_of(self)
    x = z3.Const("rx", Z.Val)
    i = Z.Val.id(x)
    fa = lambda body: z3.ForAll([x], body)
    return {"hatchery-only-shrinks": fa(z3.Implies(z3.Select(H1, x), z3.Select(H0, x))),
            "what-left-the-hatchery-is-in-the-mortuary-with-demand-0": fa(z3.Implies(z3.And(z3.Select(H0, x), z3.Not(z3.Select(H1, x))), z3.And(z3.Select(M1, x), Z.rval(z3.Select(dem1, i)) == 0))),
            "mortuary-only-grows": fa(z3.Implies(z3.Select(M0, x), z3.Select(M1, x))),
            "mortuary-grows-only-by-former-hatchery-children": fa(z3.Implies(z3.And(z3.Select(M1, x), z3.Not(z3.Select(M0, x))), z3.Select(H0, x))),
            "nobody-elses-demand-changed": fa(z3.Implies(z3.And(Z.is_refv(x), z3.Or(z3.Select(H1, x), z3.Not(z3.Select(H0, x)))), z3.Select(dem1, i) == z3.Select(dem0, i)))}


@contract(FAC + ":FactoryPool._reap_children", props=["C15"])
class reap_children:
    """children with no demand left are released - all of them, and nobody else; the active demand is unchanged by that"""
    params = dict(self=FP)
    has_events = True

    def requires(c, self):
        return inv(c, self)

    def writes(c, self):
        H0 = H_of(self)
        return [("all", "demand", lambda x: z3.Select(H0, Z.mk_ref(x)))] + frame_sets(self)

    def ensures(c, self):
        s0 = c.old(self)
        dem0, dem1 = fld(c, "demand", c.old_heap), fld(c, "demand", c.new_heap)
        x = z3.Const("qx", Z.Val)
        return {"no-child-without-demand-is-kept": z3.ForAll([x], z3.Implies(z3.Select(H_of(self), x), R(dem1, x) > 0)),
                "only-releases-happened-and-only-of-children-without-demand": c.And(released_only(c, self, H_of(s0), M_of(s0), dem0, dem1),
                                                                                     z3.ForAll([x], z3.Implies(z3.And(z3.Select(H_of(s0), x), z3.Not(z3.Select(H_of(self), x))), R(dem0, x) <= 0))),
                "children-with-demand-are-kept-with-their-demand": z3.ForAll([x], z3.Implies(z3.And(z3.Select(H_of(s0), x), R(dem0, x) > 0), z3.And(z3.Select(H_of(self), x), R(dem1, x) == R(dem0, x))),
                                                                             patterns=[z3.Select(H_of(s0), x)]),
                "the-active-demand-is-unchanged": ssum(H_of(self), dem1) == ssum(H_of(s0), dem0),
                "the-factory-is-not-called": no_factory_call(c),
                "the-invariant-is-kept": inv(c, self)}

    loops = {0: Loop(
        inv=lambda c, L, i: _reap_inv(c, L, i),
        modifies=lambda c, L: [("all", "demand", lambda x, H0=H_of(L.self): z3.Select(H0, Z.mk_ref(x))), ("trace",)] + frame_sets(L.self),
        local_types={"child": Child})}


def _reap_inv(c, L, i):
    self = L.self
    s0 = c.old(self)
    E = c.seq
    dem0, dem1 = fld(c, "demand", c.old_heap), fld(c, "demand", c.new_heap)
    j = z3.Int("rj")
    return {"the-pool-is-the-same": c.unchanged(self, "_hatchery", "_mortuary", "_demand", "factory", "interval"),
            "invariant": inv(c, self),
            **released_only_parts(c, self, H_of(s0), M_of(s0), dem0, dem1),
            "released-ones-had-no-demand": z3.ForAll([z3.Const("qx", Z.Val)], z3.Implies(z3.And(z3.Select(H_of(s0), z3.Const("qx", Z.Val)), z3.Not(z3.Select(H_of(self), z3.Const("qx", Z.Val)))), R(dem0, z3.Const("qx", Z.Val)) <= 0)),
            "visited-children-kept-have-demand": z3.ForAll([j], z3.Implies(z3.And(0 <= j, j < i, z3.Select(H_of(self), E.item_term(j))), R(dem1, E.item_term(j)) > 0)),
            "unvisited-children-are-still-in-the-hatchery": z3.ForAll([j], z3.Implies(z3.And(i <= j, j < E.len), z3.Select(H_of(self), E.item_term(j)))),
            "the-active-demand-is-unchanged": ssum(H_of(self), dem1) == ssum(H_of(s0), dem0),
            "the-factory-is-not-called": no_factory_call(c)}


# ================================================================================ _grow
def use_set_lemmas(c, heaps, fields=("demand",)):
    """instances of the hypothesis-carrying set-sum lemmas (theorems of lean/SetSum.lean) for the unions / filters built so far"""
    ctx = c.ctx
    for u, parts in ctx.ghost.get("unions", []):
        if len(parts) == 2:
            ctx.assume(lemma_card_union(u, parts[0], parts[1]))
            for hp in heaps:
                for f in fields:
                    ctx.assume(lemma_union(u, parts[0], parts[1], fld(c, f, hp)))


def grow_inv(c, L, k):
    self = L.self
    s0 = c.old(self)
    dem0, dem1 = fld(c, "demand", c.old_heap), fld(c, "demand", c.new_heap)
    H0, H1, M0, M1 = H_of(s0), H_of(self), M_of(s0), M_of(self)
    use_set_lemmas(c, [c.old_heap])
    c.ctx.assume(SS.lemma_zero(M0, dem0))
    x = z3.Const("gx", Z.Val)
    i = Z.Val.id(x)
    A0, A1 = ssum(H0, dem0), ssum(H1, dem1)
    target = L.target.r
    c.ctx.ghost["c15_last_spawned"] = L.new_child.t      # witness for the function-level clause about "the child spawned last"
    return {"the-pool-is-the-same": c.unchanged(self, "_hatchery", "_mortuary", "_demand", "factory", "interval"),
            "invariant": inv(c, self),
            "missing-is-target-minus-active-demand": L.missing_demand.r == target - A1,
            "hatchery-only-grows-by-new-objects": z3.ForAll([x], z3.And(z3.Implies(z3.Select(H0, x), z3.Select(H1, x)), z3.Implies(z3.And(z3.Select(H1, x), z3.Not(z3.Select(H0, x))), Z.Val.id(x) >= c.ctx.alloc0))),
            "mortuary-untouched": M1 == M0,
            "old-childrens-demand-untouched": z3.ForAll([x], z3.Implies(z3.And(Z.is_refv(x), i < c.ctx.alloc0), z3.Select(dem1, i) == z3.Select(dem0, i))),
            "without-the-last-spawned-child-the-demand-was-not-covered": z3.Or(k == 0, z3.And(z3.Select(H1, L.new_child.t), z3.Not(z3.Select(H0, L.new_child.t)), R(dem1, L.new_child.t) > 0,
                                                                                     A1 - R(dem1, L.new_child.t) < target)),
            "nothing-spawned-before-the-first-iteration": z3.Implies(k == 0, z3.And(H1 == H0, A1 == A0))}


def _last_clause(c, H0, H1, dem1, A1, target):
    """either nothing was spawned (the hatchery holds old children only) or there is a NEW child - witnessed by the one spawned last -
    without whose demand the target would not be covered"""
    x = z3.Const("gx", Z.Val)
    w = c.ctx.ghost.get("c15_last_spawned")
    nothing = z3.ForAll([x], z3.Implies(z3.Select(H1, x), z3.Select(H0, x)))
    if getattr(c.ctx, "concrete", False):
        # evaluation on a concrete run (replay): the statement itself - SOME new child is indispensable
        return z3.Or(nothing, z3.Exists([x], z3.And(z3.Select(H1, x), z3.Not(z3.Select(H0, x)), A1 - R(dem1, x) < target.r)))
    if w is None:
        return nothing
    return z3.Or(nothing, z3.And(z3.Select(H1, w), z3.Not(z3.Select(H0, w)), Z.Val.id(w) >= c.ctx.alloc0, A1 - R(dem1, w) < target.r))


@contract(FAC + ":FactoryPool._grow", props=["C15"])
class grow:
    announce = True
    """after growing the active children's demands cover the target, and would not without the child spawned last; children are only
    ever added from the factory; nobody with demand is released; AssertionError iff the factory hands out a child without demand"""
    params = dict(self=FP, target=NumFin)
    has_events = True

    def requires(c, self, target):
        return inv(c, self)

    def setup(ctx, I, bound):
        ctx.ghost["c15_self"] = bound["self"]
    setup = staticmethod(setup)

    def writes(c, self, target):
        H0 = H_of(self)
        return [("all", "demand", lambda x: z3.Select(H0, Z.mk_ref(x)))] + frame_sets(self)

    def ensures(c, self, target):
        s0 = c.old(self)
        dem0, dem1 = fld(c, "demand", c.old_heap), fld(c, "demand", c.new_heap)
        H0, H1, M0, M1 = H_of(s0), H_of(self), M_of(s0), M_of(self)
        x = z3.Const("gx", Z.Val)
        A1 = ssum(H1, dem1)
        return {"the-active-demand-covers-the-target": A1 >= target.r,
                "it-would-not-without-the-child-spawned-last": _last_clause(c, H0, H1, dem1, A1, target),
                "children-are-only-added-by-the-factory": z3.ForAll([x], z3.Implies(z3.And(z3.Select(H1, x), z3.Not(z3.Select(H0, x))), Z.Val.id(x) >= c.ctx.alloc0)),
                "no-child-without-demand-is-kept": z3.ForAll([x], z3.Implies(z3.Select(H1, x), R(dem1, x) > 0)),
                "only-children-without-demand-were-released": z3.ForAll([x], z3.Implies(z3.And(z3.Select(H0, x), z3.Not(z3.Select(H1, x))), z3.And(R(dem0, x) <= 0, z3.Select(M1, x)))),
                "the-invariant-is-kept": inv(c, self)}

    def _only_the_factorys_own_failure_or_a_child_without_demand(c, self, target, exc):
        # what leaves _grow is the factory's own exception (it may raise anything), or the AssertionError about the factory's product - and that
        # one fires only when a freshly spawned child (already in the hatchery) has no demand
        dem1 = fld(c, "demand", c.new_heap)
        if getattr(c.ctx, "concrete", False):
            # evaluation on a concrete run (native search / replay; no ghost records there): the statement itself - an AssertionError only
            # with a child without demand among the active ones; other exceptions are the factory's own
            x = z3.Const("gax", Z.Val)
            return z3.Or(c.Not(exc.isa("AssertionError")), z3.Exists([x], z3.And(z3.Select(H_of(self), x), R(dem1, x) <= 0)))
        sp = c.ctx.ghost.get("c15_spawned", [])
        if sp and sp[-1][0] == "raise" and z3.eq(z3.simplify(sp[-1][1].t), z3.simplify(exc.t)):
            return True
        if sp and sp[-1][0] == "return":
            w = sp[-1][1].t          # the child the factory handed out last: the witness
            return c.And(exc.isa("AssertionError"), z3.Select(H_of(self), w), R(dem1, w) <= 0)
        return False

    raises = {"BaseException": _only_the_factorys_own_failure_or_a_child_without_demand}

    loops = {0: Loop(inv=grow_inv,
                     modifies=lambda c, L: [("trace",)] + frame_sets(L.self),
                     local_types={"missing_demand": NumFin, "new_child": Child})}


# ================================================================================ _shrink
def shrink_inv(c, L, i):
    self = L.self
    s0 = c.old(self)
    E = c.seq
    dem0, dem1 = fld(c, "demand", c.old_heap), fld(c, "demand", c.new_heap)
    H0, H1, M0 = H_of(s0), H_of(self), M_of(s0)
    j = z3.Int("sj")
    excess = L.excess_demand.r
    target = L.target.r
    return {"the-pool-is-the-same": c.unchanged(self, "_hatchery", "_mortuary", "_demand", "factory", "interval"),
            "invariant": inv(c, self),
            **released_only_parts(c, self, H0, M0, dem0, dem1),
            "excess-is-active-demand-minus-target": excess == ssum(H1, dem1) - target,
            "excess-only-shrinks": excess <= ssum(H0, dem0) - target,
            "nothing-is-released-unless-the-rest-still-covers-the-target": z3.Or(excess >= 0, H1 == H0),
            "a-visited-child-that-is-kept-does-not-fit-into-the-excess": z3.ForAll([j], z3.Implies(z3.And(0 <= j, j < i, z3.Select(H1, E.item_term(j))), R(dem1, E.item_term(j)) > excess)),
            "unvisited-children-are-still-in-the-hatchery": z3.ForAll([j], z3.Implies(z3.And(i <= j, j < E.len), z3.Select(H1, E.item_term(j)))),
            "the-factory-is-not-called": no_factory_call(c)}


@contract(FAC + ":FactoryPool._shrink", props=["C15"])
class shrink:
    announce = True
    """a child is released only if the remaining active demand still covers the target, and afterwards no kept child could still be released
    that way (its demand exceeds the excess); children without demand are released; the factory is not called"""
    params = dict(self=FP, target=NumFin)
    has_events = True

    def requires(c, self, target):
        return inv(c, self)

    def writes(c, self, target):
        H0 = H_of(self)
        return [("all", "demand", lambda x: z3.Select(H0, Z.mk_ref(x)))] + frame_sets(self)

    def ensures(c, self, target):
        s0 = c.old(self)
        dem0, dem1 = fld(c, "demand", c.old_heap), fld(c, "demand", c.new_heap)
        H0, H1, M0 = H_of(s0), H_of(self), M_of(s0)
        x = z3.Const("sx", Z.Val)
        A0, A1 = ssum(H0, dem0), ssum(H1, dem1)
        return {"released-only-while-the-rest-still-covers-the-target": z3.Or(A1 >= target.r, A1 == A0),
                "never-more-active-demand-than-before": A1 <= A0,
                "no-kept-child-could-still-be-released": z3.ForAll([x], z3.Implies(z3.Select(H1, x), R(dem1, x) > A1 - target.r)),
                "no-child-without-demand-is-kept": z3.ForAll([x], z3.Implies(z3.Select(H1, x), R(dem1, x) > 0)),
                "only-releases-happened": released_only(c, self, H0, M0, dem0, dem1),
                "the-factory-is-not-called": no_factory_call(c),
                "the-invariant-is-kept": inv(c, self)}

    loops = {0: Loop(inv=shrink_inv,
                     modifies=lambda c, L: [("all", "demand", lambda x, H0=H_of(L.self): z3.Select(H0, Z.mk_ref(x))), ("trace",)] + frame_sets(L.self),
                     local_types={"child": Child, "excess_demand": NumFin})}


# ================================================================================ aggregation: supply / utilisation / allocation / demand
def _union_parts(c, self):
    return H_of(self), M_of(self)


@contract(FAC + ":FactoryPool.supply.getter", props=["C15"])
class supply_getter:
    """supply is the sum over ALL children, active and released"""
    params = dict(self=FP)
    result = NumFin

    def requires(c, self):
        return inv(c, self)

    def ensures(c, self, result):
        use_set_lemmas(c, [c.new_heap], fields=("supply",))
        sup = fld(c, "supply", c.new_heap)
        return {"sum-over-hatchery-and-mortuary": result.r == ssum(H_of(self), sup) + ssum(M_of(self), sup)}


def well_behaved(c, self, fields):
    """hypothesis: every child is a well-behaved pool - the given attributes hold non-negative finite numbers (the shape of `Child`)"""
    H, M = H_of(self), M_of(self)
    x = z3.Const("wbx", Z.Val)
    return z3.ForAll([x], z3.Implies(z3.Or(z3.Select(H, x), z3.Select(M, x)), z3.And(*[Child.fields[f].inv(z3.Select(fld(c, f, self._heap), Z.Val.id(x))) for f in fields])))


def _mk_mean(field):
    class mean_getter:
        __doc__ = "%s is the mean over the children that have supply; 1.0 if there is none" % field
        params = dict(self=FP)
        result = NumFin

        def requires(c, self):
            return c.And(inv(c, self), well_behaved(c, self, ("supply", field)))

        def ensures(c, self, result):
            ctx = c.ctx
            filters = ctx.ghost.get("filters", [])
            unions = ctx.ghost.get("unions", [])
            H, M = H_of(self), M_of(self)
            sup, val = fld(c, "supply", c.new_heap), fld(c, field, c.new_heap)
            if getattr(ctx, "concrete", False):
                # evaluation on a concrete run (replay): the set of children with supply, written out
                y = z3.Const("my", Z.Val)
                F = z3.Lambda([y], z3.And(z3.Or(z3.Select(H, y), z3.Select(M, y)), R(sup, y) > 0))
                mean = z3.If(scard(F) == 0, z3.RealVal(1), ssum(F, val) / z3.ToReal(scard(F)))
                # concrete floats: the real-number idealisation is compared up to rounding (1e-9 relative)
                return {"their-mean-or-one": z3.And(result.r - mean <= z3.RealVal("1/1000000000") * (1 + mean), mean - result.r <= z3.RealVal("1/1000000000") * (1 + mean))}
            if not filters:
                return {"one-pass-over-the-children": False}
            F, U, cond, x = filters[-1]
            ctx.assume(lemma_card_zero(F))
            y = z3.Const("my", Z.Val)
            return {"over-exactly-the-children-that-have-supply": z3.ForAll([y], z3.Select(F, y) == z3.And(z3.Or(z3.Select(H, y), z3.Select(M, y)), R(sup, y) > 0)),
                    "their-mean-or-one": result.r == z3.If(scard(F) == 0, z3.RealVal(1), ssum(F, val) / z3.ToReal(scard(F)))}
    return mean_getter


contract(FAC + ":FactoryPool.utilisation.getter", props=["C15"])(_mk_mean("utilisation"))
contract(FAC + ":FactoryPool.allocation.getter", props=["C15"])(_mk_mean("allocation"))


@contract(FAC + ":FactoryPool.demand.getter", props=["C15"])
class demand_getter:
    params = dict(self=FP)
    result = NumFin

    def ensures(c, self, result):
        return {"the-requested-demand": result.same(self._demand)}


@contract(FAC + ":FactoryPool.demand.setter", props=["C15"])
class demand_setter:
    """a demand write is only recorded - no child is touched, nothing is spawned; it is acted on at the next adjustment"""
    params = dict(self=FP, value=NumFin)

    def writes(c, self, value):
        return [(self, "_demand")]

    def ensures(c, self, value):
        return {"recorded": self._demand.same(value)}


# ================================================================================ run: one adjustment per interval
def _env_keeps_released_children_released(ctx):
    """HYPOTHESIS about the environment while the pool sleeps: children stay well-behaved - demands stay non-negative and a released
    child (mortuary) keeps demand 0 (it was told to shut down); who is a child does not change behind the pool's back"""
    me = ctx.ghost["c15_self"]
    from pyvc.contracts import Spec

    spec = Spec(ctx, ctx.snapshot(), ctx.snapshot())
    v = spec.view(me, spec.new_heap)
    return inv(spec, v)


def run_iteration(c, L):
    self = L.self
    s0 = c.old(self)
    sup1 = fld(c, "supply", c.new_heap)
    use_set_lemmas(c, [c.new_heap], fields=("supply",))
    S = ssum(H_of(s0), sup1) + ssum(M_of(s0), sup1)
    D = self._demand
    call = c.event_at(1)
    shrink_call = c.event("call", FAC + ":FactoryPool._shrink", self, D)
    grow_call = c.event("call", FAC + ":FactoryPool._grow", self, D)
    return {"first-one-sleep-of-the-interval": c.event_at(0) == c.event("sleep", s0.interval),
            "then-exactly-one-adjustment-towards-the-demand-read-after-the-sleep": c.And(c.n_events() >= 2, z3.If(S > D.r, call == shrink_call, call == grow_call)),
            "the-invariant-is-kept": inv(c, self)}


@contract(FAC + ":FactoryPool.run", props=["C15", "C09"])
class factory_run:
    """as a service the pool sleeps one interval, then adjusts once - shrinking if the children's supply exceeds the demand read at
    that moment, growing otherwise - for as long as it runs; only a cancelled sleep (or a failing factory) ends it"""
    params = dict(self=FP)
    has_events = True
    never_returns = True

    def requires(c, self):
        return c.And(inv(c, self), self.interval >= 0)

    def setup(ctx, I, bound):
        ctx.ghost["c15_self"] = bound["self"]
        ctx.ghost["env_invariant"] = _env_keeps_released_children_released
    setup = staticmethod(setup)

    def writes(c, self):
        return [("all", f, lambda x: True) for f in ("supply", "demand", "utilisation", "allocation", "_demand", "$mhas")]

    raises = {"trio.Cancelled": lambda c, self, exc: True, "BaseException": lambda c, self, exc: True}
    loops = {0: Loop(
        inv=lambda c, L, k: {"the-pool-is-the-same": c.unchanged(L.self, "_hatchery", "_mortuary", "factory", "interval"), "invariant": inv(c, L.self), "interval": L.self.interval >= 0},
        modifies=lambda c, L: [("all", f, lambda x: True) for f in ("supply", "demand", "utilisation", "allocation", "_demand", "$mhas")] + [("trace",)],
        local_types={"supply": NumFin, "demand": NumFin},
        step=lambda c, L, L0: run_iteration(c, L))}


# ================================================================================ __init__
def _mk_init(n):
    class init:
        __doc__ = "constructed with %d children: all of them active, nobody released, the demand is the sum of theirs" % n
        body_key = FAC + ":FactoryPool.__init__"
        new_object = "self"
        params = {"self": FP, "*children": lambda ctx: VTuple([_sym_child(ctx, k) for k in range(n)]), "factory": Factory, "interval": NumFin}

        def requires(c, self, children, factory, interval):
            return c.And(*[children[a].t != children[b].t for a in range(n) for b in range(a + 1, n)])

        def writes(c, self, children, factory, interval):
            return [(self, f) for f in ("_demand", "_hatchery", "_mortuary", "factory", "interval")]

        def ensures(c, self, children, factory, interval):
            x = z3.Const("nx", Z.Val)
            H, M = H_of(self), M_of(self)
            total = sum([ch.demand.r for ch in children], z3.RealVal(0))
            return {"hatchery-is-exactly-the-given-children": z3.ForAll([x], z3.Select(H, x) == z3.Or(*([x == ch.t for ch in children] or [z3.BoolVal(False)]))),
                    "mortuary-is-empty": z3.ForAll([x], z3.Not(z3.Select(M, x))),
                    "demand-is-the-sum-of-the-childrens": self._demand.r == total,
                    "factory-and-interval-stored": c.And(self.factory.t == factory.t, self.interval.same(interval)),
                    "two-different-set-objects": self._hatchery.id != self._mortuary.id}
    return init


def _sym_child(ctx, k):
    sv = ctx.typed(fresh_val("child%d" % k), Child)
    ctx.assume(z3.And(Z.Val.id(sv.t) > 0, Z.Val.id(sv.t) < ctx.alloc0))
    ctx.assume_class(sv.t, Child)
    ctx.touch(sv)
    return sv


for _n in (0, 1, 3):
    contract(FAC + ":FactoryPool.__init__#children(%d)" % _n, props=["C15"])(_mk_init(_n))


# ================================================================================ native inputs (replay / native search of refutations)
def _gen_pool(rng, demand=None):
    from pyvc.replay import stub_class

    o = stub_class(Child)()
    object.__setattr__(o, "supply", rng.choice([0, 1, 2, 3]))
    object.__setattr__(o, "utilisation", rng.choice([0.125, 0.5, 1]))
    object.__setattr__(o, "allocation", rng.choice([0.25, 0.5, 1]))
    object.__setattr__(o, "demand", rng.choice([0, 1, 1, 2, 5, 5, 0.5]) if demand is None else demand)
    o._stores.clear()
    return o


class _GenFactory:
    """a factory handing out NEW stub pools with the given demands (then demand 1)"""

    def __init__(self, rng):
        self.rng = rng
        self.__name__ = "factory"

    def __call__(self):
        from pyvc import replay

        replay.LOG.append(("factory-call", self))
        return _gen_pool(self.rng, self.rng.choice([1, 1, 2, 3, 0.5, 0]))

    def __repr__(self):
        return "<factory>"


def _gen_factory_pool(rng):
    import importlib

    real = getattr(importlib.import_module(FAC), "FactoryPool")
    o = object.__new__(real)
    object.__setattr__(o, "_hatchery", {_gen_pool(rng) for _ in range(rng.choice([0, 1, 2, 3, 3, 4]))})
    object.__setattr__(o, "_mortuary", {_gen_pool(rng, 0) for _ in range(rng.choice([0, 0, 1, 2]))})
    object.__setattr__(o, "_demand", rng.choice([0, 1, 2, 3, 4.5, 7, 10]))
    object.__setattr__(o, "factory", _GenFactory(rng))
    object.__setattr__(o, "interval", 1)
    return o


def _gen_self_target(rng):
    fp = _gen_factory_pool(rng)
    total = sum(ch.demand for ch in fp._hatchery)
    # targets around the current active demand: just below (shrinking by a little), at, and above it (growing)
    return {"self": fp, "target": rng.choice([total - 1, total - 2, total - 3, total, total + 1, total + 2.5, 0, max(0, total - 0.5)])}


def _gen_self(rng):
    return {"self": _gen_factory_pool(rng)}


def _gen_release(rng):
    fp = _gen_factory_pool(rng)
    kids = list(fp._hatchery)
    return {"self": fp, "child": rng.choice(kids) if kids and rng.random() < 0.8 else _gen_pool(rng)}


for _con, _g in ((grow, _gen_self_target), (shrink, _gen_self_target), (reap_children, _gen_self), (release_child, _gen_release), (supply_getter, _gen_self)):
    _con.ns["gen_args"] = _g
for _k in ("utilisation", "allocation"):
    REG = __import__("pyvc.contracts", fromlist=["REGISTRY"]).REGISTRY
    for _grp in REG.values():
        if FAC + ":FactoryPool.%s.getter" % _k in _grp:
            _grp[FAC + ":FactoryPool.%s.getter" % _k].ns["gen_args"] = _gen_self
