#!/bin/sh
# builds the overlay interpreter /verif/.venv offline (z3-solver, cvc5, crosshair, deal, icontract + the repo's own site-packages)
set -e
HERE="$(cd "$(dirname "$0")" && pwd)"
cd "$HERE"
if [ ! -x .venv/bin/python ] || ! .venv/bin/python -c "import z3, jsonschema" 2>/dev/null; then
  rm -rf .venv
  /venv/bin/python -m venv .venv
  .venv/bin/pip install -q --no-index --find-links /opt/veriftools/wheels z3-solver cvc5 crosshair-tool deal icontract hypothesis jsonschema
  echo "import site; site.addsitedir('/venv/lib/python3.12/site-packages')" > .venv/lib/python3.12/site-packages/_venv_overlay.pth
fi
.venv/bin/python -c "import z3, cobald, trio, yaml, toposort; print('setup ok: z3', z3.get_version_string())"
