"""Builtins, container/str methods and the dispatch to assumed library contracts."""
import ast
import z3

from . import z as Z
from .engine import *
from .interp import Coro, CtxMgr, GenExp


class ConcreteIter:
    """iterable of known items; oneshot=True: a true ITERATOR (generator, iter(), map()) - iterating it exhausts it, a second
    iteration yields nothing"""

    def __init__(self, items, oneshot=False):
        self.items = list(items)
        self.oneshot = oneshot


class NativeObj:
    """python-level helper object with its own attribute/call behaviour (loggers, locks, ...)"""

    def getattr(self, I, name):
        raise Unsupported("attribute %s of %r" % (name, self))

    def setattr(self, I, name, v):
        raise Unsupported("attribute store %s on %r" % (name, self))

    def call(self, I, args, kwargs):
        raise Unsupported("call of %r" % (self,))


class AbsClass(NativeObj):
    """type(x) of an abstract collaborator: only its names are modelled (as unconstrained strings)"""

    def __init__(self, obj):
        self.obj = obj

    def getattr(self, I, name):
        if name in ("__name__", "__qualname__"):
            return SV(Z.mk_str(cls_name_of(Z.Val.id(self.obj.t))), TStr())
        raise Unsupported("attribute %s of the class of an abstract object" % name)


cls_name_of = z3.Function("cls_name_of", z3.IntSort(), z3.StringSort())


class ExcArgs(NativeObj):
    def __init__(self, exc):
        self.exc = exc


class ExternalBound(NativeObj):
    """method of an external base class bound to an in-repo instance (super().__init__ of Exception, Formatter, dict...)"""

    def __init__(self, obj, owner, name):
        self.obj, self.owner, self.name = obj, owner, name

    def call(self, I, args, kwargs):
        ctx = I.ctx
        key = "%s.%s" % (self.owner.dotted, self.name)
        h = I.E.externals.get(key)
        if h is not None:
            return h(I, [self.obj] + list(args), kwargs)
        nat = self.owner.native()
        if self.name == "__init__" and isinstance(nat, type) and issubclass(nat, BaseException):
            for i, a in enumerate(args[:2]):
                ctx.store_raw(ctx.ref_id(self.obj), "$arg%d" % i, ctx.to_val(a).t)
            ctx.store_raw(ctx.ref_id(self.obj), "$nargs", Z.mk_int(len(args)))
            return None
        if self.name == "__init__" and nat is object:
            return None
        raise Unsupported("external base method %s" % key)


def external_member(I, obj, owner, name):
    key = "%s.%s" % (owner.dotted, name)
    h = I.E.externals.get("attr:" + key)
    if h is not None:
        return h(I, obj)
    return ExternalBound(obj, owner, name)


def bind_closure(obj, clo):
    c = Closure(clo.fi, clo.env, self_val=obj)
    c.cls_ctx = getattr(clo, "cls_ctx", None)
    return c


# ------------------------------------------------------------------------------------------ strings
def is_strlike(v):
    return isinstance(v, str) or (isinstance(v, SV) and isinstance(v.ty, TStr))


_PY_WHITESPACE = [0x9, 0xA, 0xB, 0xC, 0xD, 0x1C, 0x1D, 0x1E, 0x1F, 0x20, 0x85, 0xA0, 0x1680] + list(range(0x2000, 0x200B)) + [0x2028, 0x2029, 0x202F, 0x205F, 0x3000]


def opaque_str(I, why):
    I.ctx.ghost["nondet"] = True
    I.ctx.note("string built by %s is an unconstrained string (text content not modelled)" % why)
    return SV(Z.mk_str(fresh("s", z3.StringSort())), TStr())


def to_str(I, v, repr_=False):
    if isinstance(v, str) and not repr_:
        return I.ctx.to_val(v)
    if not repr_ and isinstance(v, (SV, int, float, bool)) and (not isinstance(v, SV) or isinstance(v.ty, (TStr, TNum, TBool, TNone, TAny))):
        return SV(Z.mk_str(render_s(I, v)), TStr())
    v2 = I.ctx.from_val(v) if isinstance(v, SV) else v
    if isinstance(v2, SV) and isinstance(v2.ty, TObj):
        # an object of an in-repo class: str() / format() / repr() run ITS __str__ / __repr__ (which may raise), not a total library conversion
        cls = I.ctx.resolve_ty(v2.ty).cls
        for meth in (("__repr__",) if repr_ else ("__str__", "__repr__")):
            owner, mem = I.repo.lookup_member(cls, meth)
            if isinstance(mem, FunctionInfo):
                r = I.call(BoundMethod(v2, mem, owner), [], {})
                return r if isinstance(r, SV) else I.ctx.to_val(r)
    return opaque_str(I, "str()/repr()/format of a value")


def concat_strs(I, parts):
    if all(isinstance(p, SV) and const_of(p.t) is not None for p in parts):
        return "".join(const_of(p.t)[0] for p in parts)
    ts = [Z.Val.s(p.t) for p in parts]
    return SV(Z.mk_str(z3.Concat(*ts) if len(ts) > 1 else ts[0]), TStr())


str_of = z3.Function("str_of", Z.Val, z3.StringSort())  # str(x) of a non-string value: a function of the value (assumed)


def replace_all(s, p, r):
    """z3 str.replace_all (every occurrence, like Python's str.replace)"""
    import z3.z3core as zc

    ctx = s.ctx
    return z3.SeqRef(zc.Z3_mk_seq_replace_all(ctx.ref(), s.as_ast(), p.as_ast(), r.as_ast()), ctx)


def render_s(I, v):
    """the text %s / str() produces for a value: the string itself, or str_of(value) for a non-string"""
    ctx = I.ctx
    if isinstance(v, str):
        return z3.StringVal(v)
    if v is None or isinstance(v, (bool, int)):
        return z3.StringVal(str(v))       # a concrete int / bool / None: its exact text
    sv = ctx.to_val(v)
    if isinstance(sv.ty, TStr):
        return Z.Val.s(sv.t)
    if isinstance(sv.ty, (TNum, TBool, TNone)):
        return str_of(sv.t)
    return z3.If(Z.is_strv(sv.t), Z.Val.s(sv.t), str_of(sv.t))


def render_d(I, v):
    """%d of a number: the decimal digits of its integer part (truncation toward zero)"""
    sv = I.num_operand(v)
    n = Z.Val.r(Z.num_trunc(sv.t))
    k = z3.ToInt(n)
    return z3.If(k >= 0, z3.IntToStr(k), z3.Concat(z3.StringVal("-"), z3.IntToStr(-k)))


def precise_percent(I, fmt, arg):
    """'literal %s literal %d ...' % args for a constant format of plain %s / %d / %r / %% specifiers"""
    import re

    parts = re.split(r"(%[sdr%])", fmt)
    if any("%" in p and p not in ("%s", "%d", "%r", "%%") for p in parts):
        return None
    specs = [p for p in parts if p in ("%s", "%d", "%r")]
    arg2 = I.ctx.from_val(arg) if isinstance(arg, SV) else arg
    if isinstance(arg2, VTuple):
        args = list(arg2.items)
    else:
        if isinstance(arg2, SV) and isinstance(arg2.ty, (TAny, TRef)) and not isinstance(arg2.ty, (TObj, TAbs)):
            return None  # may be a tuple: the arity rule decides (handled by the caller)
        args = [arg2]
    if len(args) != len(specs):
        raise PyRaise(I.make_exception(ExternalRef("TypeError"), ["not all arguments converted / not enough arguments"]))
    out = []
    it = iter(args)
    for p in parts:
        if p == "%%":
            out.append(z3.StringVal("%"))
        elif p == "%s":
            out.append(render_s(I, next(it)))
        elif p == "%d":
            out.append(render_d(I, next(it)))
        elif p == "%r":
            next(it)
            return None
        elif p:
            out.append(z3.StringVal(p))
    t = z3.Concat(*out) if len(out) > 1 else (out[0] if out else z3.StringVal(""))
    return SV(Z.mk_str(z3.simplify(t)), TStr())


def str_format_percent(I, fmt, arg):
    h = I.E.externals.get("str.__mod__")
    if h is not None:
        r = h(I, fmt, arg)
        if r is not NotImplemented:
            return r
    arg2 = I.ctx.from_val(arg) if isinstance(arg, SV) else arg
    if isinstance(fmt, str):
        r = precise_percent(I, fmt, arg)
        if r is not None:
            return r
        if isinstance(arg2, SV) and isinstance(arg2.ty, (TAny, TRef)) and not isinstance(arg2.ty, (TObj, TAbs, TExc)):
            # 'one %s' % x where x is of unknown type: if x is a tuple the arity rule applies and a tuple of another
            # length raises TypeError (x is a reference: it may be such a tuple)
            import re

            nspec = len(re.findall(r"%[sdr]", fmt))
            if nspec == 1 and I.ctx.branch(Z.is_refv(arg2.t), "format-arg-may-be-a-tuple"):
                if I.ctx.choose(2, "tuple-arity") == 1:
                    raise PyRaise(I.make_exception(ExternalRef("TypeError"), ["not all arguments converted during string formatting"]))
    return opaque_str(I, "%-formatting")


# ------------------------------------------------------------------------------------------ containers
def seq_len(I, sv):
    return z3.Select(I.ctx.field_array("$len"), I.ctx.ref_id(sv))


def seq_item(I, sv, k):
    items = z3.Select(I.ctx.field_array("$item"), I.ctx.ref_id(sv))
    t = z3.Select(items, k)
    return I.ctx.typed(t, sv.ty.elem if isinstance(sv.ty, TSeq) else None)


def contains(I, container, item):
    ctx = I.ctx
    container = ctx.from_val(container) if isinstance(container, SV) else container
    if isinstance(container, VDict):
        k = item if not isinstance(item, SV) else (const_of(item.t) or (None,))[0] if const_of(item.t) else item
        if isinstance(k, SV):
            if isinstance(k.ty, TStr) or isinstance(k.ty, TAny):
                alts = [k.t == ctx.to_val(kk).t for kk in container.items]
                return z3.Or(*alts) if alts else False
            raise Unsupported("symbolic key in concrete dict")
        return k in container.items
    if isinstance(container, (VTuple, VList, VSet)):
        alts = []
        for x in container.items:
            r = I.identical(item, x) if _is_identity_only(x) or _is_identity_only(item) else I.equal(item, x)
            if r is True:
                return True
            if r is not False:
                alts.append(r)
        return z3.Or(*alts) if alts else False
    if isinstance(container, str) and isinstance(item, str):
        return item in container
    if isinstance(container, SV) and isinstance(container.ty, TMap):
        return map_has(I, container, item)
    if isinstance(container, SV) and isinstance(container.ty, TSeq):
        n = seq_len(I, container)
        k = fresh("k", z3.IntSort())
        it = ctx.to_val(item)
        items = z3.Select(ctx.field_array("$item"), ctx.ref_id(container))
        return z3.Exists([k], z3.And(0 <= k, k < n, Z.py_eq(z3.Select(items, k), it.t)))
    h = I.E.externals.get("contains")
    if h is not None:
        r = h(I, container, item)
        if r is not NotImplemented:
            return r
    raise Unsupported("membership test in %r" % (container,))


def known_length_iter(I, it):
    """a heap sequence / map whose length is a known number on this path (e.g. a dict filled by an unrolled loop): its items"""
    ctx = I.ctx
    target = it.m if isinstance(it, MapIter) else it
    if not (isinstance(target, SV) and isinstance(target.ty, (TSeq, TMap))):
        return None
    n = z3.simplify(z3.Select(ctx.field_array("$len"), ctx.ref_id(target)))
    if not z3.is_int_value(n) or n.as_long() > 16:
        return None
    items = z3.Select(ctx.field_array("$item"), ctx.ref_id(target))
    out = []
    for k in range(n.as_long()):
        kt = z3.simplify(z3.Select(items, z3.IntVal(k)))
        if isinstance(it, MapIter):
            key = SV(kt, it.m.ty.key or ANY)
            val = map_get(I, it.m, key)
            out.append(val if it.mode == "values" else VTuple([key, val]))
        else:
            out.append(ctx.typed(kt, target.ty.elem if isinstance(target.ty, TSeq) else None))
    return out


def map_has(I, m, key):
    ctx = I.ctx
    return z3.Select(z3.Select(ctx.field_array("$mhas"), ctx.ref_id(m)), ctx.to_val(key).t)


def map_get(I, m, key):
    ctx = I.ctx
    t = z3.Select(z3.Select(ctx.field_array("$mval"), ctx.ref_id(m)), ctx.to_val(key).t)
    return ctx.typed(t, m.ty.val)


def materialise_seq(I, v, ty):
    """a python-level list/tuple of known length as a fresh heap sequence of shape ty"""
    ctx = I.ctx
    new = ctx.alloc(None, ty)
    idt = ctx.ref_id(new)
    ctx.store_raw(idt, "$cls", z3.IntVal(ctx.E.classes.cid("abs:$" + getattr(ty, "kind", "tuple"))))
    arr = z3.K(z3.IntSort(), Z.NONE)
    for k, x in enumerate(v.items):
        ety = ctx.resolve_ty(ty.elems[k] if isinstance(ty, TTuple) and k < len(ty.elems) else getattr(ty, "elem", None))
        if isinstance(x, (VList, VTuple)) and isinstance(ety, (TSeq, TTuple)) and (not isinstance(ety, TTuple) or len(ety.elems) == len(x.items)):
            x = materialise_seq(I, x, ety)        # nested displays (a tuple of pairs) become nested heap sequences
        elif ety is not None and not isinstance(ety, TAny):
            # shapes are ASSUMED when an item is loaded from a heap sequence, so they are PROVED when one is built
            if isinstance(x, (VSet, VDict, VList, VTuple)):
                ctx.oblige("seqtype[item %d is a %s, the sequence holds %s]" % (k, type(x).__name__[1:].lower(), ety.describe()), z3.BoolVal(False), kind="type")
            else:
                ctx.oblige("seqtype[item %d has the shape the sequence holds: %s]" % (k, ety.describe()), ety.inv(ctx.to_val(x).t, goal=True), kind="type")
        arr = z3.Store(arr, z3.IntVal(k), ctx.to_val(x).t)
    ctx.store_raw(idt, "$len", z3.IntVal(len(v.items)))
    ctx.store_raw(idt, "$item", arr)
    return new


def map_set(I, m, key, value):
    ctx = I.ctx
    if isinstance(value, (VList, VTuple)) and isinstance(m.ty.val, TSeq):
        value = materialise_seq(I, value, m.ty.val)
    vty = getattr(m.ty, "val", None)
    if vty is not None and not isinstance(vty, TAny):
        # shapes are ASSUMED when a map value is loaded, so they are PROVED when one is stored
        if isinstance(value, (VSet, VDict, VList, VTuple)):
            ctx.oblige("maptype[value stored is %s, the map holds %s]" % (type(value).__name__[1:].lower(), vty.describe()), z3.BoolVal(False), kind="type")
        else:
            ctx.oblige("maptype[value stored has the shape the map holds: %s]" % vty.describe(), ctx.resolve_ty(vty).inv(ctx.to_val(value).t, goal=True), kind="type")
    idt = ctx.ref_id(m)
    kt = ctx.to_val(key).t
    has = ctx.field_array("$mhas")
    val = ctx.field_array("$mval")
    # the key sequence (insertion order) lives in $len/$item of the map object: a new key is appended
    had = z3.Select(z3.Select(has, idt), kt)
    lens, items = ctx.field_array("$len"), ctx.field_array("$item")
    n = z3.Select(lens, idt)
    ctx.heap["$item"] = z3.Store(items, idt, z3.If(had, z3.Select(items, idt), z3.Store(z3.Select(items, idt), n, kt)))
    ctx.heap["$len"] = z3.Store(lens, idt, z3.If(had, n, n + 1))
    ctx.heap["$mhas"] = z3.Store(has, idt, z3.Store(z3.Select(has, idt), kt, z3.BoolVal(True)))
    ctx.heap["$mval"] = z3.Store(val, idt, z3.Store(z3.Select(val, idt), kt, ctx.to_val(value).t))
    for f in ("$mhas", "$mval", "$len", "$item"):
        ctx.wrote(f, idt)
    if ctx.store_hook is not None:
        ctx.store_hook("map-store")


def _is_identity_only(x):
    return x is None or isinstance(x, (ClassInfo, ExternalRef, ModuleInfo, Closure, Builtin))


def subscript(I, obj, idx):
    ctx = I.ctx
    obj = ctx.from_val(obj) if isinstance(obj, SV) else obj
    idx_is_str = isinstance(idx, str) or (isinstance(idx, SV) and isinstance(idx.ty, TStr))
    if idx_is_str and (isinstance(obj, (VTuple, VList)) or (isinstance(obj, SV) and isinstance(obj.ty, (TStr, TNum, TBool, TNone, TSeq, TTuple)))):
        # a str index into a list / tuple / str / number / None: "indices must be integers" / "not subscriptable"
        raise PyRaise(I.make_exception(ExternalRef("TypeError"), ["indices must be integers / object is not subscriptable"]))
    if idx_is_str and isinstance(obj, SV) and isinstance(obj.ty, TObj):
        owner, mem = I.repo.lookup_member(ctx.resolve_ty(obj.ty).cls, "__getitem__")
        mro_ext = [k for k in I.repo.mro(ctx.resolve_ty(obj.ty).cls) if isinstance(k, ExternalRef) and k.dotted not in ("object", "typing.Generic", "abc.ABC")]
        if mem is None and not mro_ext:
            raise PyRaise(I.make_exception(ExternalRef("TypeError"), ["object is not subscriptable"]))
    if isinstance(obj, SV) and isinstance(obj.ty, TStr) and _const_index(idx) is not None and _const_index(idx) >= 0:
        # s[k] for a constant k >= 0: the k-th character, IndexError if the string is shorter
        k = _const_index(idx)
        st = Z.Val.s(obj.t)
        if not ctx.branch(z3.Length(st) > k, "str-index-in-range"):
            raise PyRaise(I.make_exception(ExternalRef("IndexError"), ["string index out of range"]))
        return SV(Z.mk_str(z3.SubString(st, k, 1)), TStr())
    if isinstance(obj, (VTuple, VList)):
        k = _const_index(idx)
        if k is None:
            raise Unsupported("symbolic index into concrete sequence")
        try:
            return obj.items[k]
        except IndexError:
            raise PyRaise(I.make_exception(ExternalRef("IndexError"), ["index out of range"]))
    if isinstance(obj, VDict):
        k = I.hashable(idx)
        if k in obj.items:
            return obj.items[k]
        raise PyRaise(I.make_exception(ExternalRef("KeyError"), [idx]))
    if isinstance(obj, SV) and isinstance(obj.ty, TSeq):
        n = seq_len(I, obj)
        k = _const_index(idx)
        if k is not None:
            kt = z3.IntVal(k) if k >= 0 else n + k
            ok = (n > k) if k >= 0 else (n >= -k)
        else:
            ks = I.num_operand(idx)
            kt = z3.ToInt(Z.rval(ks.t))
            ok = z3.And(kt >= 0, kt < n)
        if not ctx.branch(ok, "index-in-range"):
            raise PyRaise(I.make_exception(ExternalRef("IndexError"), ["index out of range"]))
        return seq_item(I, obj, kt)
    if isinstance(obj, SV) and isinstance(obj.ty, TMap):
        if not ctx.branch(map_has(I, obj, idx), "key-present"):
            raise PyRaise(I.make_exception(ExternalRef("KeyError"), [idx]))
        return map_get(I, obj, idx)
    if isinstance(obj, ExcArgs):
        k = _const_index(idx)
        if k in (0, 1):
            return SV(ctx.load_raw(ctx.ref_id(obj.exc), "$arg%d" % k), ANY)
    if isinstance(obj, NativeObj) and hasattr(obj, "getitem"):
        return obj.getitem(I, idx)
    if isinstance(obj, ClassInfo) or isinstance(obj, ExternalRef):
        return obj  # Generic[...] subscription
    h = I.E.externals.get("subscript")
    if h is not None:
        r = h(I, obj, idx)
        if r is not NotImplemented:
            return r
    raise Unsupported("subscript of %r" % (obj,))


def _const_index(idx):
    if isinstance(idx, bool):
        return int(idx)
    if isinstance(idx, int):
        return idx
    if isinstance(idx, SV):
        c = const_of(idx.t)
        if c is not None and isinstance(c[0], int):
            return c[0]
    return None


def store_subscript(I, obj, idx, v):
    ctx = I.ctx
    obj = ctx.from_val(obj) if isinstance(obj, SV) else obj
    if isinstance(obj, VDict):
        if getattr(obj, "sym", None) is not None:
            return map_set(I, obj.sym, idx, v)
        try:
            hk = I.hashable(idx)
            if any(isinstance(k, SymKey) for k in obj.items):
                raise Unsupported("symbolic keys present")
            obj.items[hk] = v
        except Unsupported:
            key = ctx.from_val(idx) if isinstance(idx, SV) else idx
            if isinstance(key, VTuple) and all((isinstance(x, SV) and isinstance(x.ty, (TNum, TStr, TBool, TNone))) or isinstance(x, (int, float, str, bool, type(None))) for x in key.items):
                # a tuple key with symbolic leaves: equal to a key already present (then that entry is overwritten) or a new entry -
                # decided per path
                for k in list(obj.items):
                    eq = I.equal(unkey(k), key)
                    if eq is True or (eq is not False and ctx.branch(eq, "dict-key-equal")):
                        obj.items[k] = v
                        return
                obj.items[SymKey(key)] = v
                return
            if obj.items:
                raise
            # an empty dict display that receives a symbolic key becomes a heap map (no key present yet)
            m = ctx.alloc(None, TMap(val=ANY))
            ctx.heap["$mhas"] = z3.Store(ctx.field_array("$mhas"), ctx.ref_id(m), z3.K(Z.Val, z3.BoolVal(False)))
            obj.sym = m
            return map_set(I, m, idx, v)
        return
    if isinstance(obj, VList):
        k = _const_index(idx)
        if k is None:
            raise Unsupported("symbolic index store")
        obj.items[k] = v
        return
    if isinstance(obj, SV) and isinstance(obj.ty, TMap):
        return map_set(I, obj, idx, v)
    if isinstance(obj, NativeObj) and hasattr(obj, "setitem"):
        return obj.setitem(I, idx, v)
    h = I.E.externals.get("store_subscript")
    if h is not None:
        r = h(I, obj, idx, v)
        if r is not NotImplemented:
            return r
    raise Unsupported("subscript store on %r" % (obj,))


def slice_(I, obj, lo, hi):
    obj = I.ctx.from_val(obj) if isinstance(obj, SV) else obj
    if isinstance(obj, (VTuple, VList)):
        l = _const_index(lo) if lo is not None else None
        h = _const_index(hi) if hi is not None else None
        if (lo is not None and l is None) or (hi is not None and h is None):
            raise Unsupported("symbolic slice bounds")
        return obj.__class__(obj.items[l:h])
    h_ = I.E.externals.get("slice")
    if h_ is not None:
        r = h_(I, obj, lo, hi)
        if r is not NotImplemented:
            return r
    raise Unsupported("slice of %r" % (obj,))


# ------------------------------------------------------------------------------------------ comprehensions
def genexp_concrete(I, g):
    """evaluate a generator expression whose iterables are all of known length; None if not"""
    node = g.node
    gens = node.generators
    if any(gen.is_async for gen in gens):
        raise Unsupported("async comprehension")
    out = []
    fr = Frame(g.frame.fi, dict(g.frame.locals), g.frame.closure_env, g.frame.module)
    fr.cls_ctx = g.frame.cls_ctx

    class _NotConcrete(Exception):
        pass

    def rec(k):
        if k == len(gens):
            if isinstance(node, ast.DictComp):
                out.append((I.eval(fr, node.key), I.eval(fr, node.value)))
            else:
                out.append(I.eval(fr, node.elt))
            return
        gen = gens[k]
        it = I.eval(fr, gen.iter)
        conc = I.try_concrete_iter(it)
        if conc is None:
            raise _NotConcrete()
        for item in conc:
            I.assign(fr, gen.target, item)
            ok = True
            for cond in gen.ifs:
                if not I.cond(fr, cond):
                    ok = False
                    break
            if ok:
                rec(k + 1)

    # the first iterable decides concreteness before any side effect
    first = I.eval(fr, gens[0].iter)
    if I.try_concrete_iter(first) is None:
        return None
    try:
        rec(0)
    except _NotConcrete:
        raise Unsupported("nested comprehension over a sequence of unknown length")
    return out


def comprehension(I, g, kind):
    conc = genexp_concrete(I, g)
    if conc is None:
        from .loops import symbolic_comprehension

        return symbolic_comprehension(I, g, kind)
    if kind == "list":
        return VList(conc)
    if kind == "set":
        return VSet(_dedup(I, conc))
    if kind == "dict":
        d = VDict()
        for k, v in conc:
            d.items[I.hashable(k)] = v
        return d
    raise Unsupported(kind)


def _dedup(I, items):
    out = []
    for x in items:
        dup = False
        for y in out:
            r = I.equal(x, y)
            if r is True:
                dup = True
                break
            if r is not False:
                if not I.ctx.feasible(r):
                    continue               # the path condition separates the two values
                if not I.ctx.feasible(z3.Not(r)):
                    dup = True
                    break
                raise Unsupported("set of symbolic values with undetermined equality")
        if not dup:
            out.append(x)
    return out


# ------------------------------------------------------------------------------------------ builtins
def call_builtin(I, fn, args, kwargs):
    name = fn.name
    h = _BUILTINS.get(name)
    if h is None:
        h2 = I.E.externals.get("builtins." + name)      # an assumed contract supplied by a sidecar
        if h2 is not None:
            return h2(I, args, kwargs)
        raise Unsupported("builtin %s" % name)
    return h(I, args, kwargs)


def b_abs(I, args, kw):
    (v,) = args
    if isinstance(v, (int, float)):
        return abs(v)
    x = I.num_operand(v)
    return SV(Z.num_abs(x.t), TNum(inf=True, nan=True))


def b_len(I, args, kw):
    (v,) = args
    v = I.ctx.from_val(v) if isinstance(v, SV) else v
    if isinstance(v, (VTuple, VList, VSet)):
        return len(v.items)
    if isinstance(v, VDict):
        return len(v.items)
    if isinstance(v, str):
        return len(v)
    if isinstance(v, SV) and isinstance(v.ty, TSeq):
        return SV(Z.mk_int(seq_len(I, v)), TNum(only="int", lo=0))
    if isinstance(v, SV) and isinstance(v.ty, TStr):
        return SV(Z.mk_int(z3.Length(Z.Val.s(v.t))), TNum(only="int", lo=0))
    h = I.E.externals.get("len")
    if h is not None:
        r = h(I, v)
        if r is not NotImplemented:
            return r
    raise Unsupported("len of %r" % (v,))


def b_float(I, args, kw):
    if not args:
        return 0.0
    (v,) = args
    if isinstance(v, str):
        try:
            return float(v)
        except ValueError:
            raise PyRaise(I.make_exception(ExternalRef("ValueError"), ["could not convert string to float"]))
    if isinstance(v, (int, float)):
        return float(v)
    x = I.num_operand(v)
    return SV(Z.num_float(x.t), TNum(only="float", inf=True, nan=True))


def b_int(I, args, kw):
    (v,) = args
    if isinstance(v, (int, float)) and not (isinstance(v, float) and (v != v or v in (float("inf"), float("-inf")))):
        return int(v)
    x = I.num_operand(v)
    ctx = I.ctx
    if ctx.branch(Z.is_intlike(x.t), "int(int)"):
        return SV(Z.intv_r(Z.rval(x.t)), TNum(only="int"))
    if ctx.branch(Z.is_infv(x.t), "int(inf)"):
        raise PyRaise(I.make_exception(ExternalRef("OverflowError"), ["cannot convert float infinity to integer"]))
    if ctx.branch(Z.is_nanv(x.t), "int(nan)"):
        raise PyRaise(I.make_exception(ExternalRef("ValueError"), ["cannot convert float NaN to integer"]))
    return SV(Z.num_trunc(x.t), TNum(only="int"))


def b_bool(I, args, kw):
    if not args:
        return False
    t = I.ctx.truth(args[0])
    return t if isinstance(t, bool) else SV(Z.mk_bool(t), TBool())


def b_min_max(is_min):
    def f(I, args, kw):
        if kw:
            raise Unsupported("min/max with key/default")
        items = args if len(args) > 1 else I.iterate_concrete(args[0])
        if not items:
            raise PyRaise(I.make_exception(ExternalRef("ValueError"), ["empty sequence"]))
        best = items[0]
        for x in items[1:]:
            # CPython: min keeps the first of equals; max keeps the first of equals
            c = I.compare(ast.Lt() if is_min else ast.Gt(), x, best)
            t = I.ctx.truth(c)
            if isinstance(t, bool):
                best = x if t else best
            else:
                bx, bb = I.ctx.to_val(x), I.ctx.to_val(best)
                best = SV(z3.If(t, bx.t, bb.t), TNum(inf=True, nan=True) if isinstance(bx.ty, TNum) and isinstance(bb.ty, TNum) else ANY)
        return best

    return f


def class_of_spec(I, spec):
    spec = I.ctx.from_val(spec) if isinstance(spec, SV) else spec
    if isinstance(spec, VTuple):
        out = []
        for s in spec.items:
            out.extend(class_of_spec(I, s))
        return out
    return [spec]


def b_isinstance(I, args, kw):
    v, spec = args
    ctx = I.ctx
    v = ctx.from_val(v) if isinstance(v, SV) else v
    classes = class_of_spec(I, spec)
    res = []
    for c in classes:
        res.append(_isinstance1(I, v, c))
    if any(r is True for r in res):
        return True
    sym = [r for r in res if r is not False]
    if not sym:
        return False
    return SV(Z.mk_bool(z3.Or(*sym)), TBool())


_PRIM = {"int": lambda t: Z.is_intlike(t), "float": lambda t: Z.is_float(t), "str": lambda t: Z.is_strv(t), "bool": lambda t: Z.is_boolv(t)}


def _isinstance1(I, v, c):
    ctx = I.ctx
    reg = I.E.classes
    if isinstance(c, Builtin):
        n = c.name
        if isinstance(v, SV):
            if isinstance(v.ty, (TObj, TAbs, TSeq, TFn, TExc)):
                if n == "object":
                    return True
                if isinstance(v.ty, TSeq) and n in ("list", "tuple"):
                    return v.ty.kind == n
                if n in ("dict", "list", "tuple", "set", "frozenset", "int", "float", "str", "bool"):
                    if isinstance(v.ty, TObj):
                        cls = ctx.resolve_ty(v.ty).cls
                        return reg.is_sub(cls, ExternalRef(n))
                    return False
            if n in _PRIM:
                return _PRIM[n](v.t)
            if n == "object":
                return True
            if n in ("dict", "list", "tuple", "set", "frozenset"):
                if isinstance(v.ty, (TNum, TStr, TBool, TNone)):
                    return False
                h = I.E.externals.get("isinstance")
                if h is not None:
                    r = h(I, v, c)
                    if r is not NotImplemented:
                        return r
                if isinstance(v.ty, TAny):
                    # an arbitrary value: whether it is a dict / list / ... is an unknown fact about it (both outcomes are explored)
                    return z3.And(Z.is_refv(v.t), Z.is_container(v.t, z3.StringVal(n)))
                raise Unsupported("isinstance(%r, %s)" % (v, n))
        table = {"int": (int,), "float": (float,), "str": (str,), "bool": (bool,), "dict": (VDict,), "list": (VList,), "tuple": (VTuple,), "set": (VSet,), "frozenset": (), "object": (object,)}
        if n in table:
            if isinstance(v, bool) and n == "int":
                return True
            return isinstance(v, table[n]) and not (n in ("int", "float") and isinstance(v, bool) and n == "float")
        raise Unsupported("isinstance against builtin %s" % n)
    if isinstance(c, (ClassInfo, ExternalRef)):
        if isinstance(v, SV):
            ty = ctx.resolve_ty(v.ty)
            if isinstance(ty, TObj):
                return reg.is_sub(ty.cls, c)
            if isinstance(ty, TAbs):
                isa_list = getattr(ty, "isa", [])
                for k in isa_list:
                    kc = I.repo.get(k) if ":" in k else ExternalRef(k)
                    if reg.is_sub(kc, c):
                        return True
                nots = getattr(ty, "not_isa", [])
                for k in nots:
                    kc = I.repo.get(k) if ":" in k else ExternalRef(k)
                    if reg.is_sub(c, kc) or c == kc:
                        return False
                raise Unsupported("isinstance(abstract %s, %s) is not declared" % (ty.name, getattr(c, "key", getattr(c, "dotted", c))))
            if isinstance(ty, TExc):
                return I.isa_term(v, c)
            if isinstance(ty, (TNum, TStr, TBool, TNone)):
                if isinstance(c, ExternalRef):
                    nat = c.native()
                    import numbers, collections.abc as cabc

                    if nat in (cabc.Mapping, cabc.Sequence, cabc.Iterable) and isinstance(ty, (TNum, TBool, TNone)):
                        return False
                return False if isinstance(c, ClassInfo) else _ext_isinstance_prim(I, v, c)
            h = I.E.externals.get("isinstance")
            if h is not None:
                r = h(I, v, c)
                if r is not NotImplemented:
                    return r
            if isinstance(ty, TAny):
                # an arbitrary value: whether it is an instance of this class is an unknown fact about it (both outcomes are
                # explored); where the path condition settles it, the value is narrowed to the class's shape (Ctx.narrow)
                from .engine import isa as _isa

                f = z3.And(Z.is_refv(v.t), Z.Val.id(v.t) > 0, _isa(z3.Select(ctx.field_array("$cls"), Z.Val.id(v.t)), z3.IntVal(reg.cid(c))))
                ctx.ghost.setdefault(("narrow", z3.simplify(v.t).sexpr()), []).append((c, f))
                return f
            raise Unsupported("isinstance(%r, %r)" % (v, c))
        # python-level values
        if isinstance(c, ClassInfo):
            if isinstance(v, NativeObj) and hasattr(v, "isinstance_"):
                return v.isinstance_(I, c)
            return False
        nat = c.native()
        import collections.abc as cabc

        if isinstance(v, VDict):
            return nat in (cabc.Mapping, cabc.MutableMapping, dict) or nat is object
        if isinstance(v, (VTuple, VList)):
            return nat in (cabc.Sequence, cabc.Iterable, cabc.Collection) or nat is (tuple if isinstance(v, VTuple) else list) or nat is object
        if isinstance(v, VSet):
            return nat in (cabc.Set, cabc.MutableSet, cabc.Iterable, cabc.Collection, set) or nat is object
        if isinstance(v, PartialFn):
            import functools

            return nat is functools.partial
        if isinstance(v, (int, float, str, bool)) or v is None:
            return isinstance(v, nat)
        if isinstance(v, NativeObj) and hasattr(v, "isinstance_"):
            return v.isinstance_(I, c)
        if isinstance(v, (Closure, BoundMethod, ClassInfo, ModuleInfo)):
            import types

            if nat is types.ModuleType:
                return isinstance(v, ModuleInfo)
            return False
        if isinstance(v, ExternalRef):
            import types

            try:
                return isinstance(v.native(), nat)
            except Exception:
                raise Unsupported("isinstance of external %s" % v.dotted)
    raise Unsupported("isinstance(%r, %r)" % (v, c))


def _ext_isinstance_prim(I, v, c):
    return False


def b_hasattr(I, args, kw):
    obj, name = args
    if not isinstance(name, str):
        raise Unsupported("hasattr with symbolic name")
    obj2 = I.ctx.from_val(obj) if isinstance(obj, SV) else obj
    for kind, nat in ((VDict, dict), (VList, list), (VTuple, tuple), (VSet, set), (str, str), (bool, bool), (int, int), (float, float)):
        if isinstance(obj2, kind):
            return hasattr(nat, name)        # a display / constant: exactly the attributes of its Python type
    if isinstance(obj2, SV) and isinstance(obj2.ty, (TStr, TNum, TBool, TNone)):
        return all(hasattr(nat, name) for nat in {TStr: (str,), TNum: (int, float), TBool: (bool,), TNone: (type(None),)}[type(obj2.ty)])
    if isinstance(obj2, SV) and isinstance(obj2.ty, (TAny, TAbs)) and not (isinstance(obj2.ty, TAbs) and (name in obj2.ty.fields or name in obj2.ty.methods)):
        h = I.E.externals.get("hasattr")
        if h is not None:
            r = h(I, obj2, name)
            if r is not NotImplemented:
                return r
        raise Unsupported("hasattr(%r, %s)" % (obj2, name))
    try:
        I.getattr(obj, name)
        return True
    except PyRaise as pr:
        if I.isa_term(pr.exc, ExternalRef("AttributeError")) is True:
            return False
        raise


def b_getattr(I, args, kw):
    obj, name = args[0], args[1]
    if isinstance(name, SV):
        c = const_of(name.t)
        if c is None:
            return getattr_symbolic(I, obj, name, args[2:])
        name = c[0]
    if len(args) == 2:
        return I.getattr(obj, name)
    try:
        return I.getattr(obj, name)
    except PyRaise as pr:
        if I.isa_term(pr.exc, ExternalRef("AttributeError")) is True:
            return args[2]
        raise


def getattr_symbolic(I, obj, name, default):
    """getattr(obj, name) with a symbolic attribute name on an abstract collaborator: the value is selected among
    the declared numeric fields without forking (If-chain); any other name is an AttributeError"""
    ctx = I.ctx
    obj = ctx.from_val(obj) if isinstance(obj, SV) else obj
    if not (isinstance(obj, SV) and isinstance(obj.ty, TAbs)) or default:
        raise Unsupported("getattr with symbolic name on %r" % (obj,))
    cands = [(f, t) for f, t in obj.ty.fields.items() if isinstance(t, TNum)]
    ns = Z.Val.s(name.t)
    if not ctx.branch(z3.Or(*[ns == z3.StringVal(f) for f, _ in cands]), "getattr-name-known"):
        raise PyRaise(I.make_exception(ExternalRef("AttributeError"), ["no such attribute"]))
    vals = [(f, ctx.typed(ctx.load_raw(ctx.ref_id(obj), f), t)) for f, t in cands]
    term = vals[-1][1].t
    for f, v in reversed(vals[:-1]):
        term = z3.If(ns == z3.StringVal(f), v.t, term)
    return SV(term, TNum(inf=any(t.inf for _, t in cands)))


def b_type(I, args, kw):
    (v,) = args
    v = I.ctx.from_val(v) if isinstance(v, SV) else v
    if isinstance(v, SV):
        ty = I.ctx.resolve_ty(v.ty)
        if isinstance(ty, TObj):
            return ty.cls
        return TypeOf(v)
    if isinstance(v, bool):
        return Builtin("bool")
    if isinstance(v, int):
        return Builtin("int")
    if isinstance(v, float):
        return Builtin("float")
    if isinstance(v, str):
        return Builtin("str")
    if isinstance(v, VDict):
        return Builtin("dict")
    if isinstance(v, VList):
        return Builtin("list")
    if isinstance(v, VTuple):
        return Builtin("tuple")
    raise Unsupported("type(%r)" % (v,))


def call_typeof(I, fn, args, kwargs):
    """type(x)(y) for a number x: int(y) / float(y) / bool(y) by the dynamic type of x"""
    ctx = I.ctx
    x = fn.sv
    if len(args) != 1 or kwargs:
        raise Unsupported("type(x)(...) with other than one argument")
    if not isinstance(x.ty, (TNum, TBool)):
        raise Unsupported("type(x)(y) for x of shape %s" % x.ty.describe())
    if ctx.branch(Z.is_boolv(x.t), "type-is-bool"):
        return b_bool(I, args, {})
    if ctx.branch(Z.is_intv(x.t), "type-is-int"):
        return b_int(I, args, {})
    return b_float(I, args, {})


def b_sum(I, args, kw):
    it = args[0]
    start = args[1] if len(args) > 1 else kw.get("start", 0)
    conc = I.try_concrete_iter(it)
    if conc is not None:
        acc = start
        for x in conc:
            acc = I.binop(ast.Add(), acc, x)
        return acc
    from .loops import symbolic_sum

    return symbolic_sum(I, it, start)


def b_all_any(is_all):
    def f(I, args, kw):
        (it,) = args
        conc = I.try_concrete_iter(it)
        if conc is None:
            from .loops import symbolic_all_any

            return symbolic_all_any(I, it, is_all)
        for x in conc:
            t = I.ctx.truth(x)
            b = I.ctx.branch(t, "all/any")
            if is_all and not b:
                return False
            if not is_all and b:
                return True
        return is_all

    return f


def b_tuple(I, args, kw):
    if not args:
        return VTuple([])
    v = I.ctx.from_val(args[0]) if isinstance(args[0], SV) else args[0]
    conc = I.try_concrete_iter(v)
    if conc is None:
        h = I.E.externals.get("tuple")
        if h is not None:
            r = h(I, v)
            if r is not NotImplemented:
                return r
        raise Unsupported("tuple() of non-concrete iterable")
    return VTuple(conc)


def b_list(I, args, kw):
    if not args:
        return VList([])
    v = I.ctx.from_val(args[0]) if isinstance(args[0], SV) else args[0]
    conc = I.try_concrete_iter(v)
    if conc is None:
        from .loops import copy_seq

        return copy_seq(I, v, "list")
    return VList(conc)


def b_set(I, args, kw):
    if not args:
        return VSet([])
    conc = I.try_concrete_iter(args[0])
    if conc is None:
        h = I.E.externals.get("set")
        if h is not None:
            r = h(I, args[0])
            if r is not NotImplemented:
                return r
        raise Unsupported("set() of non-concrete iterable")
    return VSet(_dedup(I, conc))


def b_dict(I, args, kw):
    d = VDict()
    if args:
        src = I.ctx.from_val(args[0]) if isinstance(args[0], SV) else args[0]
        if isinstance(src, VDict):
            d.items.update(src.items)
        else:
            for pair in I.iterate_concrete(src):
                k, v = I.iterate_concrete(pair, expect=2)
                d.items[I.hashable(k)] = v
    d.items.update(kw)
    return d


def b_reversed(I, args, kw):
    conc = I.try_concrete_iter(args[0])
    if conc is None:
        h = I.E.externals.get("reversed")
        if h is not None:
            r = h(I, args[0])
            if r is not NotImplemented:
                return r
        raise Unsupported("reversed() of non-concrete sequence")
    return ConcreteIter(list(reversed(conc)))


def b_enumerate(I, args, kw):
    conc = I.try_concrete_iter(args[0])
    if conc is None:
        h = I.E.externals.get("enumerate")
        if h is not None:
            r = h(I, args[0])
            if r is not NotImplemented:
                return r
        raise Unsupported("enumerate() of non-concrete sequence")
    start = args[1] if len(args) > 1 else kw.get("start", 0)
    return ConcreteIter([VTuple([start + i, x]) for i, x in enumerate(conc)])


def b_zip(I, args, kw):
    """zip of iterables of known length; the SAME one-shot iterator given several times is consumed in turn (zip(it, it) pairs
    consecutive elements), exactly as Python does"""
    srcs = [I.ctx.from_val(a) if isinstance(a, SV) else a for a in args]
    pools = {}
    for a in srcs:
        if isinstance(a, ConcreteIter) and getattr(a, "oneshot", False):
            if id(a) not in pools:
                pools[id(a)] = list(a.items)
                a.items = []
        else:
            c = I.try_concrete_iter(a)
            if c is None:
                raise Unsupported("zip() of non-concrete iterable")
            pools[id(a)] = list(c)
    rows = []
    while True:
        row = []
        for a in srcs:
            q = pools[id(a)]
            if not q:
                row = None
                break
            row.append(q.pop(0))
        if row is None:
            break
        rows.append(VTuple(row))
    return ConcreteIter(rows, oneshot=True)


def b_sorted(I, args, kw):
    conc = I.try_concrete_iter(args[0])
    h = I.E.externals.get("sorted")
    if h is not None:
        r = h(I, args[0], kw, conc)
        if r is not NotImplemented:
            return r
    if conc is not None and len(conc) <= 1 and not kw:
        return VList(conc)
    if conc is not None and not kw and len(conc) <= 4:
        r = _sorted_symbolic(I, conc)
        if r is not None:
            return r
    if conc is not None and not kw:
        # items with distinct constant sort keys (str keys of a dict display, or tuples led by them): sorted natively
        def skey(x):
            if isinstance(x, VTuple) and x.items and isinstance(x.items[0], str):
                return x.items[0]
            if isinstance(x, str):
                return x
            raise Unsupported("sorted() of symbolic items")

        keys = [skey(x) for x in conc]
        if len(set(keys)) == len(keys):
            return VList([x for _, x in sorted(zip(keys, conc), key=lambda p: p[0])])
    raise Unsupported("sorted()")


def _sorted_symbolic(I, items):
    """sorted() of up to 4 items that are numbers or tuples led by a number, with SYMBOLIC values: every ordering consistent with the
    path condition is explored (one path per permutation; `<=` between neighbours, stable for equal numbers).  Tuples whose leading
    numbers are equal are compared on their next elements - for objects without an ordering that is the TypeError Python raises."""
    import itertools

    ctx = I.ctx

    def lead(x):
        x = ctx.from_val(x) if isinstance(x, SV) else x
        if isinstance(x, VTuple) and x.items:
            return x.items[0], True
        return x, False

    keys = []
    for x in items:
        k, is_tuple = lead(x)
        if isinstance(k, (int, float)) and not isinstance(k, bool):
            k = ctx.to_val(k)
        if not (isinstance(k, SV) and isinstance(k.ty, TNum) and k.ty.static_finite):
            return None
        keys.append((Z.rval(k.t), is_tuple))
    n = len(items)
    perms = list(itertools.permutations(range(n)))
    d = ctx.choose(len(perms) + 1, "sorted-order")
    if d == len(perms):
        # two tuples with EQUAL leading numbers: Python compares the next elements; for two arbitrary objects that is a TypeError
        ties = z3.Or(*[keys[a][0] == keys[b][0] for a in range(n) for b in range(a + 1, n) if keys[a][1] and keys[b][1]] or [z3.BoolVal(False)])
        ctx.assume(ties)
        if not ctx.feasible():
            raise PathEnd()
        raise PyRaise(I.make_exception(ExternalRef("TypeError"), ["'<' not supported between instances"]))
    perm = perms[d]
    for a, b in zip(perm, perm[1:]):
        if keys[a][1] and keys[b][1]:
            ctx.assume(keys[a][0] < keys[b][0])          # tuples: strictly (a tie would have compared the objects)
        else:
            ctx.assume(z3.Or(keys[a][0] < keys[b][0], z3.And(keys[a][0] == keys[b][0], z3.BoolVal(a < b))))   # numbers: stable
    if not ctx.feasible():
        raise PathEnd()
    return VList([items[k] for k in perm])


def b_iter(I, args, kw):
    conc = I.try_concrete_iter(args[0])
    if conc is None:
        raise Unsupported("iter() of non-concrete iterable")
    return ConcreteIter(conc, oneshot=True)        # a true iterator: consumed by whoever iterates it


def b_object_new(I, args, kw):
    cls = args[0]
    cls = I.ctx.from_val(cls) if isinstance(cls, SV) else cls
    if not isinstance(cls, ClassInfo):
        raise Unsupported("object.__new__ of %r" % (cls,))
    ty = TObj(cls.key)
    ty.cls = cls
    obj = I.ctx.alloc(cls, ty)
    I.ctx.partial_objs.add(z3.simplify(I.ctx.ref_id(obj)).sexpr())
    return obj


def b_str(I, args, kw):
    if not args:
        return ""
    return to_str(I, args[0])


def b_repr(I, args, kw):
    return to_str(I, args[0], repr_=True)


def b_super(I, args, kw):
    cls, obj = args
    return SuperProxy(obj, cls)


def b_frozenset(I, args, kw):
    return b_set(I, args, kw)


def b_open(I, args, kw):
    """open(path): a context manager yielding a stream (events open / close)"""
    ctx = I.ctx
    path = args[0]

    def enter():
        ctx.emit("open", ctx.to_val(path))
        return SV(fresh_val("stream"), ANY)

    def exit_(exc):
        ctx.emit("close", ctx.to_val(path))
        return False

    return CtxMgr(enter, exit_)


def b_callable(I, args, kw):
    v = I.ctx.from_val(args[0]) if isinstance(args[0], SV) else args[0]
    if isinstance(v, (Closure, BoundMethod, ClassInfo, PartialFn, Builtin, AbstractMethod)):
        return True
    if isinstance(v, SV) and isinstance(v.ty, TFn):
        return True
    raise Unsupported("callable(%r)" % (v,))


_BUILTINS = {
    "abs": b_abs,
    "len": b_len,
    "float": b_float,
    "int": b_int,
    "bool": b_bool,
    "min": b_min_max(True),
    "max": b_min_max(False),
    "isinstance": b_isinstance,
    "hasattr": b_hasattr,
    "getattr": b_getattr,
    "type": b_type,
    "sum": b_sum,
    "all": b_all_any(True),
    "any": b_all_any(False),
    "tuple": b_tuple,
    "list": b_list,
    "set": b_set,
    "frozenset": b_frozenset,
    "dict": b_dict,
    "reversed": b_reversed,
    "enumerate": b_enumerate,
    "zip": b_zip,
    "sorted": b_sorted,
    "iter": b_iter,
    "object.__new__": b_object_new,
    "str": b_str,
    "repr": b_repr,
    "super": b_super,
    "callable": b_callable,
    "open": b_open,
}


# ------------------------------------------------------------------------------------------ methods of containers / str
def call_method(I, obj, name, args, kwargs):
    ctx = I.ctx
    obj = ctx.from_val(obj) if isinstance(obj, SV) else obj
    if isinstance(obj, VList):
        if name == "append":
            obj.items.append(args[0])
            return None
        if name == "extend":
            obj.items.extend(I.iterate_concrete(args[0]))
            return None
        if name == "clear":
            obj.items.clear()
            return None
        if name == "copy":
            return VList(obj.items)
        if name == "pop":
            try:
                return obj.items.pop(*[_const_index(a) for a in args])
            except IndexError:
                raise PyRaise(I.make_exception(ExternalRef("IndexError"), ["pop from empty list"]))
        if name == "insert":
            obj.items.insert(_const_index(args[0]), args[1])
            return None
        if name == "reverse" and not args:
            obj.items.reverse()
            return None
    if isinstance(obj, VDict) and getattr(obj, "sym", None) is not None:
        return call_method(I, obj.sym, name, args, kwargs)
    if isinstance(obj, VDict):
        if name == "get":
            k = I.hashable(args[0])
            return obj.items.get(k, args[1] if len(args) > 1 else None)
        if name == "pop":
            k = I.hashable(args[0])
            if k in obj.items:
                return obj.items.pop(k)
            if len(args) > 1:
                return args[1]
            raise PyRaise(I.make_exception(ExternalRef("KeyError"), [args[0]]))
        if name == "items":
            return ConcreteIter([VTuple([unkey(k), v]) for k, v in obj.items.items()])
        if name == "keys":
            if any(isinstance(k, SymKey) for k in obj.items):
                raise Unsupported("keys() of a dict with symbolic keys")
            return VSet(list(obj.items.keys()))
        if name == "values":
            return ConcreteIter(list(obj.items.values()))
        if name == "setdefault":
            k = I.hashable(args[0])
            return obj.items.setdefault(k, args[1] if len(args) > 1 else None)
        if name == "update":
            if args:
                src = ctx.from_val(args[0]) if isinstance(args[0], SV) else args[0]
                if isinstance(src, VDict):
                    obj.items.update(src.items)
                else:
                    for pair in I.iterate_concrete(src):
                        k, v = I.iterate_concrete(pair, expect=2)
                        obj.items[I.hashable(k)] = v
            obj.items.update(kwargs)
            return None
        if name == "copy":
            return VDict(obj.items)
        if name == "clear":
            obj.items.clear()
            return None
    if isinstance(obj, VSet):
        if name == "add":
            if not any(I.equal(args[0], y) is True for y in obj.items):
                obj.items.append(args[0])
            return None
        if name == "discard":
            obj.items[:] = [y for y in obj.items if I.equal(args[0], y) is not True]
            return None
        if name == "copy":
            return VSet(obj.items)
    if is_strlike(obj) and not isinstance(obj, str) and name in ("strip", "lstrip", "rstrip") and not args and not kwargs:
        # s.strip(): the unique t with s == p + t + q, p and q whitespace only, t not starting (ending) with whitespace
        st = Z.Val.s(ctx.to_val(obj).t)
        one_ws = z3.Union(*[z3.Re(z3.StringVal(chr(c))) for c in _PY_WHITESPACE])       # exactly the characters with str.isspace()
        ws = z3.Star(one_ws)
        p_, t_, q_ = fresh("strip_p", z3.StringSort()), fresh("strip_t", z3.StringSort()), fresh("strip_q", z3.StringSort())
        is_ws = lambda c: z3.InRe(c, one_ws)
        facts = [st == z3.Concat(p_, t_, q_), z3.InRe(p_, ws), z3.InRe(q_, ws)]
        if name in ("strip", "lstrip"):
            facts.append(z3.Or(z3.Length(t_) == 0, z3.Not(is_ws(z3.SubString(t_, 0, 1)))))
        else:
            facts.append(z3.Length(p_) == 0)
        if name in ("strip", "rstrip"):
            facts.append(z3.Or(z3.Length(t_) == 0, z3.Not(is_ws(z3.SubString(t_, z3.Length(t_) - 1, 1)))))
        else:
            facts.append(z3.Length(q_) == 0)
        ctx.assume(z3.And(*facts))
        return SV(Z.mk_str(t_), TStr())
    if is_strlike(obj) and name == "replace" and len(args) == 2 and not (isinstance(obj, str) and all(isinstance(a, str) for a in args)):
        st = Z.Val.s(ctx.to_val(obj).t)
        p, r = [Z.Val.s(ctx.to_val(a).t) if not isinstance(a, str) else z3.StringVal(a) for a in args]
        return SV(Z.mk_str(replace_all(st, p, r)), TStr())
    if isinstance(obj, str):
        if all(isinstance(a, str) for a in args) and not kwargs and name in ("replace", "split", "partition", "startswith", "endswith", "strip", "lower", "upper", "rpartition"):
            r = getattr(obj, name)(*args)
            if isinstance(r, (list, tuple)):
                return (VList if isinstance(r, list) else VTuple)(list(r))
            return r
        if name == "join" and isinstance(args[0], SymSet):
            return opaque_str(I, "str.join over a set of unknown size")
        if name == "join":
            conc = I.try_concrete_iter(args[0])
            if conc is not None and all(isinstance(x, str) for x in conc):
                return obj.join(conc)
            if conc is not None:
                parts = []
                for i, x in enumerate(conc):
                    if i:
                        parts.append(ctx.to_val(obj))
                    parts.append(ctx.to_val(x))
                if not parts:
                    return ""
                return concat_strs(I, parts)
        if name == "format":
            return opaque_str(I, "str.format")
    if isinstance(obj, SV) and isinstance(obj.ty, TSeq) and obj.ty.kind == "dict-items" and name == "items" and not args:
        return obj
    if isinstance(obj, SV) and isinstance(obj.ty, TMap):
        if name == "get":
            if ctx.branch(map_has(I, obj, args[0]), "key-present"):
                return map_get(I, obj, args[0])
            return args[1] if len(args) > 1 else None
        if name == "setdefault":
            if ctx.branch(map_has(I, obj, args[0]), "key-present"):
                return map_get(I, obj, args[0])
            dflt = args[1] if len(args) > 1 else None
            if isinstance(dflt, (VList, VTuple)) and isinstance(obj.ty.val, TSeq):
                dflt = materialise_seq(I, dflt, obj.ty.val)
            map_set(I, obj, args[0], dflt)
            return dflt
        if name == "pop":
            if ctx.branch(map_has(I, obj, args[0]), "key-present"):
                v = map_get(I, obj, args[0])
                idt = ctx.ref_id(obj)
                has = ctx.field_array("$mhas")
                ctx.heap["$mhas"] = z3.Store(has, idt, z3.Store(z3.Select(has, idt), ctx.to_val(args[0]).t, z3.BoolVal(False)))
                ctx.wrote("$mhas", idt)
                return v
            if len(args) > 1:
                return args[1]
            raise PyRaise(I.make_exception(ExternalRef("KeyError"), [args[0]]))
        if name == "keys":
            hasarr = z3.Select(ctx.field_array("$mhas"), ctx.ref_id(obj))
            ss = SymSet(lambda k, a=hasarr: z3.Select(a, k), "keys")
            ss.map = obj
            return ss
        if name in ("values", "items"):
            return MapIter(obj, name)
        if name == "clear":
            idt = ctx.ref_id(obj)
            has = ctx.field_array("$mhas")
            ctx.heap["$mhas"] = z3.Store(has, idt, z3.K(Z.Val, z3.BoolVal(False)))
            ctx.heap["$len"] = z3.Store(ctx.field_array("$len"), idt, z3.IntVal(0))
            ctx.wrote("$mhas", idt)
            ctx.wrote("$len", idt)
            return None
    if isinstance(obj, SV) and isinstance(obj.ty, TSeq) and name == "copy" and not args:
        from .loops import copy_seq

        return copy_seq(I, obj, obj.ty.kind)
    if isinstance(obj, SV) and isinstance(obj.ty, TSeq) and obj.ty.kind == "set" and name in ("add", "discard"):
        # a set is an injective enumeration of its members in arbitrary order: after add/discard the new enumeration is
        # ANY enumeration whose length reflects whether the item was a member (event tasks.add / tasks.discard)
        idt = ctx.ref_id(obj)
        item = ctx.to_val(args[0])
        n = seq_len(I, obj)
        items = z3.Select(ctx.field_array("$item"), idt)
        k = z3.Int("sk")
        member = z3.Exists([k], z3.And(0 <= k, k < n, z3.Select(items, k) == item.t))
        new_items = fresh("set_items", z3.ArraySort(z3.IntSort(), Z.Val))
        new_n = fresh("set_len", z3.IntSort())
        if name == "add":
            ctx.assume(new_n == z3.If(member, n, n + 1))
        else:
            ctx.assume(new_n == z3.If(member, n - 1, n))
        ctx.assume(new_n >= 0)
        ctx.heap["$item"] = z3.Store(ctx.field_array("$item"), idt, new_items)
        ctx.heap["$len"] = z3.Store(ctx.field_array("$len"), idt, new_n)
        ctx.wrote("$item", idt)
        ctx.wrote("$len", idt)
        ctx.emit("tasks." + name, obj, item)
        return None
    if isinstance(obj, SV) and isinstance(obj.ty, TSeq) and obj.ty.kind == "list":
        n = seq_len(I, obj)
        if name == "append":
            idt = ctx.ref_id(obj)
            items = ctx.field_array("$item")
            ctx.heap["$item"] = z3.Store(items, idt, z3.Store(z3.Select(items, idt), n, ctx.to_val(args[0]).t))
            ctx.heap["$len"] = z3.Store(ctx.field_array("$len"), idt, n + 1)
            ctx.wrote("$item", idt)
            ctx.wrote("$len", idt)
            return None
        if name == "clear":
            ctx.heap["$len"] = z3.Store(ctx.field_array("$len"), ctx.ref_id(obj), z3.IntVal(0))
            ctx.wrote("$len", ctx.ref_id(obj))
            return None
        if name == "extend":
            conc = I.try_concrete_iter(args[0])
            src = ctx.from_val(args[0]) if isinstance(args[0], SV) else args[0]
            if conc is None and isinstance(src, SV) and isinstance(src.ty, TSeq):
                # list.extend(seq): concatenation, items' = lambda k. k < n ? old[k] : seq[k-n]
                idt = ctx.ref_id(obj)
                m = seq_len(I, src)
                items, lens = ctx.field_array("$item"), ctx.field_array("$len")
                old_items = z3.Select(items, idt)
                src_items = z3.Select(items, ctx.ref_id(src))
                k = z3.Int("xk")
                ctx.heap["$item"] = z3.Store(items, idt, z3.Lambda([k], z3.If(k < n, z3.Select(old_items, k), z3.Select(src_items, k - n))))
                ctx.heap["$len"] = z3.Store(lens, idt, n + m)
                ctx.wrote("$item", idt)
                ctx.wrote("$len", idt)
                return None
            if conc is None:
                raise Unsupported("list.extend with a sequence of unknown length")
            for x in conc:
                call_method(I, obj, "append", [x], {})
            return None
    h = I.E.externals.get("method")
    if h is not None:
        r = h(I, obj, name, args, kwargs)
        if r is not NotImplemented:
            return r
    raise Unsupported("method %s of %r" % (name, obj))


# ------------------------------------------------------------------------------------------ externals
def call_external(I, ext, args, kwargs):
    d = ext.dotted
    h = I.E.externals.get(d)
    if h is not None:
        return h(I, args, kwargs)
    # exception classes of libraries / builtins
    try:
        nat = ext.native()
    except Exception:
        nat = None
    if isinstance(nat, type) and issubclass(nat, BaseException):
        return I.make_exception(ext, args)
    if isinstance(nat, type) and issubclass(nat, Warning):
        return I.make_exception(ext, args)
    raise Unsupported("external callable %s has no assumed contract" % d)


def rshift(I, a, b):
    a2 = I.ctx.from_val(a) if isinstance(a, SV) else a
    if isinstance(a2, SV) and isinstance(a2.ty, TObj):
        m = I.getattr(a2, "__rshift__")
        return I.call(m, [b], {})
    if isinstance(a2, SV) and isinstance(a2.ty, TAbs) and "__rshift__" in a2.ty.methods:
        return I.call(AbstractMethod(a2, "__rshift__", a2.ty.methods["__rshift__"]), [b], {})
    h = I.E.externals.get(">>")
    if h is not None:
        return h(I, a, b)
    raise Unsupported(">> on %r" % (a,))
