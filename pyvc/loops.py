"""Loops over sequences of unknown length: inductive invariants from the sidecar; folds (sum) as spec functions.

A fold  F(m) = sum_{j<m} body(j)  is an uninterpreted function Int -> Real with the one-step unfolding
F(0) = 0,  F(m+1) = F(m) + body(m)  instantiated (never quantified) at every index the proof mentions.
Two folds over the same sequence are related by the extensionality lemma
   (forall j in [0,n): b1(j) = b2(j))  =>  forall m in [0,n]: F1(m) = F2(m)
whose schema is proved by induction once per run (lemmas.py) and then assumed per pair.
"""
import ast
import types

import z3

from . import z as Z
from .engine import *
from .contracts import Spec, N, SeqView, ObjView, Loop, _b


# ------------------------------------------------------------------------------------------ folds
class Fold:
    def __init__(self, ctx, key, n, body_fn, intflag):
        self.ctx, self.key, self.n, self.body_fn = ctx, key, n, body_fn
        self.F = z3.Function("fold!%d" % len(ctx.ghost.setdefault("folds", {})), z3.IntSort(), z3.RealSort())
        self.done = set()
        self.intflag = intflag  # z3 Bool: every element is an int (then the Python sum is an int)
        ctx.assume(self.F(z3.IntVal(0)) == 0)
        B = getattr(ctx.E, "bounded", None)
        if getattr(ctx, "concrete", False):
            B = 24  # concrete evaluation (replay / bounded stand-ins): sequences are short, unfold completely
        if B is not None:
            # refutation mode: at most B items, so the fold is unfolded completely (no lemma is needed then)
            for k in range(B):
                self.unfold(z3.IntVal(k))

    def unfold(self, k):
        """instantiate F(k+1) = F(k) + body(k) for 0 <= k < n"""
        k = z3.simplify(k)
        s = k.sexpr()
        if s in self.done:
            return
        self.done.add(s)
        self.ctx.assume(z3.Implies(z3.And(k >= 0, k < self.n), self.F(k + 1) == self.F(k) + self.body_fn(k)))

    def upto(self, k):
        """spec value sum_{j<k} body(j); mentions of k unfold one step on both sides of k"""
        if isinstance(k, int):
            k = z3.IntVal(k)
        self.unfold(k)
        self.unfold(k - 1)
        return N(Z.mk_flt(self.F(k)))

    def total(self):
        return self.upto(self.n)


def get_fold(ctx, n, body_fn, intflag=None, origin="spec"):
    """canonical fold for body_fn over [0,n): same body term => same function symbol"""
    v = z3.Int("foldvar")
    key = (z3.simplify(body_fn(v)).sexpr(), z3.simplify(n).sexpr())
    folds = ctx.ghost.setdefault("folds", {})
    if key in folds:
        return folds[key]
    f = Fold(ctx, key, n, body_fn, intflag)
    # extensionality (lemma `ext`, proved by induction in the lemma run) against every earlier fold of the same length
    from . import lemmas

    f.origin = origin
    for other in list(folds.values()):
        # automatic extensionality only between a fold created by the executed code and one created by a
        # specification (the two may spell the same body differently); other pairs: invoke c.lemma("ext", f, g)
        if other.key[1] != key[1] or other.origin == origin:
            continue
        ctx.assume(lemmas.instantiate(ctx, "ext", f, other))
    folds[key] = f
    return f


def spec_lemma_forall(spec, name, n, fn):
    """the universal closure over indices j in [0,n) of an arithmetic lemma instance (the lemma holds for all reals)"""
    from . import lemmas

    j = z3.Int("lfj")
    args = [a.r if isinstance(a, N) else a for a in fn(j)]
    spec.ctx.assume(z3.ForAll([j], z3.Implies(z3.And(0 <= j, j < n), lemmas.instantiate(spec.ctx, name, *args))))
    return z3.BoolVal(True)


Spec.lemma_forall = spec_lemma_forall


def spec_lemma(spec, name, *args):
    """invoke a fold lemma (schema proved by induction on every run, see lemmas.py) as an assumption"""
    from . import lemmas

    if getattr(spec.ctx.E, "bounded", None) is not None and name in ("ext", "const", "scale", "mono", "member", "add", "member_at"):
        return z3.BoolVal(True)  # folds are fully unfolded in refutation mode
    args = [a.r if isinstance(a, N) else a for a in args]
    spec.ctx.assume(lemmas.instantiate(spec.ctx, name, *args))
    return z3.BoolVal(True)


Spec.lemma = spec_lemma


def spec_sum(spec, seq, fn):
    """c.sum(seq, lambda x: x.field): the fold of a numeric field expression over a heap sequence, as a Fold"""
    ctx = spec.ctx

    def body(j):
        return fn(seq[j]).r

    return get_fold(ctx, seq.len, body)


Spec.sum = spec_sum


# ------------------------------------------------------------------------------------------ loop specs
def find_loop_spec(I, frame, ordinal):
    fi = frame.fi
    con = I.E.contracts.get(fi.key) if fi is not None else None
    top = I.ctx.top_contract
    if top is not None and fi is not None and fi.key == (top.body_key or top.key) and I.ctx.depth <= 1:
        con = top
    if con is None and top is not None and fi is not None and I.ctx.depth == 2 and top.loops:
        # a loop in an uncontracted helper that the function under contract calls directly (e.g. after "extract method"): the contract's
        # loop specifications that cannot belong to a loop of the function's own body (it has fewer loops than the contract names) are
        # TRIED on the helper's loops, in order.  Sound either way - an invariant is proved or it is not, wherever it came from - but what
        # fails on such a path is "this contract does not cover this code" (undecided), never a violation.
        body_fi = I.repo.get(top.body_key or top.key)
        own = _count_loops(body_fi.node) if body_fi is not None and hasattr(body_fi, "node") else None
        if own is not None:
            spare = [o for o in sorted(top.loops) if o >= own]
            if ordinal < len(spare):
                I.ctx.ghost["transplanted"] = "loop specification %d of %s tried on loop %d of its helper %s" % (spare[ordinal], top.key, ordinal, fi.key)
                return top.loops[spare[ordinal]]
    if con is None or ordinal not in con.loops:
        return None
    return con.loops[ordinal]


def _count_loops(fn_node):
    """for/while statements of a function body, not counting nested function definitions"""
    n = 0
    todo = list(getattr(fn_node, "body", []))
    while todo:
        x = todo.pop()
        if isinstance(x, (ast.FunctionDef, ast.AsyncFunctionDef, ast.ClassDef, ast.Lambda)):
            continue
        if isinstance(x, (ast.For, ast.AsyncFor, ast.While)):
            n += 1
        todo.extend(ast.iter_child_nodes(x))
    return n


def assigned_names(stmts, target=None):
    names = []
    for st in stmts:
        for node in ast.walk(st):
            if isinstance(node, ast.Name) and isinstance(node.ctx, ast.Store) and node.id not in names:
                names.append(node.id)
    if target is not None:
        for node in ast.walk(target):
            if isinstance(node, ast.Name) and node.id not in names:
                names.append(node.id)
    return names


class Locals:
    """namespace of spec views of the frame's locals"""

    def __init__(self, spec, frame, heap):
        object.__setattr__(self, "_d", {k: spec.view(v, heap) for k, v in frame.locals.items()})
        object.__setattr__(self, "_raw", frame.locals)

    def __getattr__(self, k):
        try:
            return self._d[k]
        except KeyError:
            # the code no longer has the local the invariant speaks about: the contract does not cover this code
            raise Unsupported("loop invariant mentions local %r which the function no longer defines" % k)

    def raw(self, k):
        return self._raw[k]


def eval_inv(I, loop, entry_heap, frame, i, seq, tr_entry, mode="assume"):
    ctx = I.ctx
    spec = Spec(ctx, entry_heap, ctx.snapshot())
    spec.mode = mode
    spec.fn_tr_old_len = ctx.ghost["entry"][1] if "entry" in ctx.ghost else tr_entry
    spec.tr, spec.trlen, spec.tr_old_len = ctx.tr, ctx.trlen, tr_entry
    if seq is not None:
        spec.seq = spec.view(seq, spec.new_heap)
    missing = [nm for nm in loop.local_types if nm not in frame.locals]
    if missing:
        # a local the loop body assigns but that is not bound yet (before the first iteration): an arbitrary value of its shape
        cache = ctx.ghost.setdefault(("unbound-locals", id(loop)), {})
        extra = {}
        for nm in missing:
            if nm not in cache:
                cache[nm] = ctx.typed(fresh_val("unbound_" + nm), loop.local_types[nm])
            extra[nm] = cache[nm]
        frame = types.SimpleNamespace(locals={**extra, **frame.locals})
    L = Locals(spec, frame, spec.new_heap)
    r = loop.inv(spec, L, i)
    if isinstance(r, dict):
        out = {k: _b(v) for k, v in r.items()}
    elif isinstance(r, (list, tuple)):
        out = {str(k): _b(v) for k, v in enumerate(r)}
    else:
        out = {"0": _b(r)}
    if mode == "prove":
        # the shapes the loop specification declares for loop-carried locals are ASSUMED at the head of the generic iteration, so they
        # are PROVED where the invariant is: on entry and at the end of an iteration
        for nm, ty in loop.local_types.items():
            if nm in missing:
                continue
            v = frame.locals[nm]
            ty = ctx.resolve_ty(ty)
            if ty is None or isinstance(ty, TAny):
                continue
            try:
                sv = v if isinstance(v, SV) else ctx.to_val(v)
                f = ty.inv(sv.t, goal=True)
                if isinstance(v, (VDict, VList, VTuple, VSet)) and not isinstance(ty, (TAny,)):
                    f = z3.BoolVal(False)          # a display where the specification speaks of a heap value of a declared shape
            except Unsupported:
                f = z3.BoolVal(False)
            out["local %s has the shape the loop specification declares (%s)" % (nm, ty.describe())] = _b(f)
    return out


def havoc_loop(I, loop, frame, names, entry_heap, seq):
    ctx = I.ctx
    for nm in names:
        if nm in frame.locals:
            cur = frame.locals[nm]
            ty = loop.local_types.get(nm)
            if ty is None:
                # a local the body assigns and the loop specification says nothing about: at the head of an arbitrary iteration it holds an
                # ARBITRARY value (assuming the shape of its initial value - None, say - for every iteration would be unsound)
                if not isinstance(cur, SV):
                    try:
                        ctx.to_val(cur)
                    except Unsupported:
                        raise Unsupported("loop modifies local %s holding an engine-level value" % nm)
                ty = ANY
            t = fresh_val("l_" + nm)
            frame.locals[nm] = ctx.typed(t, ty)
        elif nm in loop.local_types:
            frame.locals[nm] = ctx.typed(fresh_val("l_" + nm), loop.local_types[nm])
    if loop.modifies is not None:
        spec = Spec(ctx, entry_heap, entry_heap)
        if seq is not None:
            spec.seq = spec.view(seq, entry_heap)
        L = Locals(spec, frame, entry_heap)
        for w in loop.modifies(spec, L):
            if w[0] == "all":
                _, fname, pred = w
                old = ctx.field_array(fname)
                new = fresh("H_%s" % fname, old.sort())
                x = z3.Int("wx")
                ctx.assume(z3.ForAll([x], z3.Implies(z3.Not(pred(x)), z3.Select(new, x) == z3.Select(old, x))))
                ctx.heap[fname] = new
            elif w[0] == "trace":
                ntr, nlen = fresh("tr", EvArr), fresh("trlen", z3.IntSort())
                k = z3.Int("tk")
                ctx.assume(nlen >= ctx.trlen)
                ctx.assume(z3.ForAll([k], z3.Implies(z3.And(0 <= k, k < ctx.trlen), z3.Select(ntr, k) == z3.Select(ctx.tr, k))))
                ctx.tr, ctx.trlen = ntr, nlen
            else:
                objv, fname = w
                sort = ctx.field_array(fname).sort().range()
                ctx.heap[fname] = z3.Store(ctx.field_array(fname), objv.id, fresh("w_%s" % fname, sort))
    ctx.ghost["havocked"] = True
    ctx.events = None


def check_loop_frame(I, loop, frame, entry_heap, seq, n_own, name):
    """what one iteration writes itself (directly or through callee frames) lies inside the loop's `modifies` clause -
    otherwise facts kept across the havoc at the loop head could be stale"""
    ctx = I.ctx
    allowed = {}
    if loop.modifies is not None:
        spec = Spec(ctx, entry_heap, entry_heap)
        if seq is not None:
            spec.seq = spec.view(seq, entry_heap)
        L = Locals(spec, frame, entry_heap)
        for w in loop.modifies(spec, L):
            if w[0] == "all":
                allowed.setdefault(w[1], []).append(w[2])
            elif w[0] == "trace":
                continue
            else:
                objv, fname = w
                allowed.setdefault(fname, []).append(lambda x, idt=objv.id: x == idt)
    x = z3.Int("lfx")
    seen = set()
    for fname, kind, what in ctx.own_stores[n_own:]:
        if fname in ("__context__", "__cause__", "__suppress_context__") or fname.startswith("$ghost") or fname.startswith("rec:") or fname.startswith("$arg") or fname == "$nargs":
            continue
        preds = allowed.get(fname, [])
        if kind == "id":
            key = (fname, what.sexpr())
            if key in seen:
                continue
            seen.add(key)
            inW = z3.Or(*[p(what) for p in preds]) if preds else z3.BoolVal(False)
            ctx.oblige("%s/modifies[%s]" % (name, fname), z3.Or(what >= ctx.alloc0, inW), kind="frame")
        else:
            inW = z3.Or(*[p(x) for p in preds]) if preds else z3.BoolVal(False)
            goal = z3.ForAll([x], z3.Implies(z3.And(x < ctx.alloc0, what(x)), inW))
            key = (fname, goal.sexpr())
            if key in seen:
                continue
            seen.add(key)
            ctx.oblige("%s/modifies[%s]" % (name, fname), goal, kind="frame")


def loop_name(frame, ordinal):
    from .calls import short

    return "%s/loop%d" % (short(frame.fi.key), ordinal)


def promote_mutated_displays(I, frame, body):
    """a dict / list display held in a local and MUTATED by the loop body (d[k] = v, l.append(x), ...) must be a heap object before the
    loop head is abstracted - otherwise an arbitrary iteration would start from the display as it was before the first one"""
    ctx = I.ctx
    names = set()
    for st in body:
        for node in ast.walk(st):
            if isinstance(node, ast.Subscript) and isinstance(node.ctx, (ast.Store, ast.Del)) and isinstance(node.value, ast.Name):
                names.add(node.value.id)
            if isinstance(node, ast.Call) and isinstance(node.func, ast.Attribute) and isinstance(node.func.value, ast.Name) and node.func.attr in ("append", "extend", "add", "update", "setdefault", "pop", "clear", "insert", "remove", "discard"):
                names.add(node.func.value.id)
    for nm in names:
        v = frame.locals.get(nm)
        if isinstance(v, VDict) and getattr(v, "sym", None) is None and not v.items:
            m = ctx.alloc(None, TMap(val=ANY))
            # the new object's slot of the membership array is empty: stated as a FACT about the current array (the slot of a fresh id is
            # unconstrained so far) rather than as a store, so that heap terms mentioned by specifications keep their syntactic form
            ctx.assume(z3.Select(ctx.field_array("$mhas"), ctx.ref_id(m)) == z3.K(Z.Val, z3.BoolVal(False)))
            v.sym = m


def _element_alias(frame, s, loop):
    """the name under which the contract speaks of the loop's element, if the code calls it differently: the single entry of
    local_types that occurs nowhere in the function (so it can only mean the element) while the loop variable has no entry"""
    if not isinstance(s.target, ast.Name) or s.target.id in loop.local_types or frame.fi is None:
        return None
    used = {n.id for n in ast.walk(frame.fi.node) if isinstance(n, ast.Name)} | {a.arg for a in ast.walk(frame.fi.node) if isinstance(a, ast.arg)}
    cands = [k for k in loop.local_types if k not in used]
    return cands[0] if len(cands) == 1 else None


def symbolic_for(I, frame, s, it, ordinal):
    ctx = I.ctx
    loop = find_loop_spec(I, frame, ordinal)
    if loop is None:
        raise Unsupported("for loop %d of %s over a sequence of unknown length has no invariant" % (ordinal, frame.fi.key if frame.fi else "?"))
    if isinstance(it, SV) and isinstance(it.ty, TAbs) and it.ty.name == "trio.ReceiveChannel":
        return stream_for(I, frame, s, it, ordinal, loop)
    map_iter = None
    if isinstance(it, MapIter):
        # iterate a heap map through its key sequence
        map_iter = it
        it = SV(it.m.t, TSeq(it.m.ty.key or ANY, "map-keys"))
    if not (isinstance(it, SV) and isinstance(it.ty, TSeq)):
        raise Unsupported("for loop over %r" % (it,))
    name = loop_name(frame, ordinal)
    alias = _element_alias(frame, s, loop)
    promote_mutated_displays(I, frame, s.body)
    n = z3.Select(ctx.field_array("$len"), ctx.ref_id(it))
    ctx.assume(n >= 0)
    entry_heap = ctx.snapshot()
    tr_entry = ctx.trlen
    for lab, f in eval_inv(I, loop, entry_heap, frame, z3.IntVal(0), it, tr_entry, "prove").items():
        ctx.oblige("%s/init[%s]" % (name, lab), f, kind="loop")
    names = assigned_names(s.body, s.target)
    havoc_loop(I, loop, frame, names, entry_heap, it)
    i = fresh("i", z3.IntSort())
    ctx.assume(z3.And(0 <= i, i <= n))
    for lab, f in eval_inv(I, loop, entry_heap, frame, i, it, tr_entry).items():
        ctx.assume(f)
    if ctx.branch(i < n, "loop%d-iterate" % ordinal):
        from .builtins_ import seq_item, map_get

        elem = seq_item(I, it, i)
        if map_iter is not None:
            val = map_get(I, map_iter.m, elem)
            elem = val if map_iter.mode == "values" else VTuple([elem, val])
        I.assign(frame, s.target, elem)
        if alias is not None:
            # the contract names the loop's element differently from the code (a renamed loop variable): same value under both names
            frame.locals[alias] = ctx.typed(frame.locals[s.target.id].t, loop.local_types[alias]) if isinstance(frame.locals[s.target.id], SV) else frame.locals[s.target.id]
        iter_heap = ctx.snapshot()
        iter_tr = ctx.trlen
        iter_locals = dict(frame.locals)
        n_own = len(ctx.own_stores)
        try:
            I.exec_block(frame, s.body)
        except ContinueSig:
            pass
        except BreakSig:
            return
        for lab, f in eval_inv(I, loop, entry_heap, frame, i + 1, it, tr_entry, "prove").items():
            ctx.oblige("%s/preserve[%s]" % (name, lab), f, kind="loop")
        check_loop_frame(I, loop, frame, entry_heap, it, n_own, name)
        if loop.step is not None:
            spec = Spec(ctx, iter_heap, ctx.snapshot())
            spec.mode = "prove"
            spec.tr, spec.trlen, spec.tr_old_len = ctx.tr, ctx.trlen, iter_tr
            spec.seq = spec.view(it, spec.new_heap)
            spec.index = i
            fr0 = types.SimpleNamespace(locals=iter_locals)
            r = loop.step(spec, Locals(spec, frame, spec.new_heap), Locals(spec, fr0, iter_heap))
            for lab, f in r.items():
                ctx.oblige("%s/iteration[%s]" % (name, lab), _b(f), kind="loop")
        raise PathEnd()
    ctx.assume(i == n)
    ctx.ghost.setdefault("loops_done", {})[ordinal] = it      # the loop ran to exhaustion over this sequence (for function-level postconditions)
    I.exec_block(frame, s.orelse)


def stream_for(I, frame, s, ch, ordinal, loop):
    """`async for item in receive_channel`: an unbounded stream; each iteration receives one more item (assumed: each sent
    item is delivered exactly once, in order) and the loop ends when the send side is closed"""
    ctx = I.ctx
    name = loop_name(frame, ordinal)
    entry_heap = ctx.snapshot()
    tr_entry = ctx.trlen
    for lab, f in eval_inv(I, loop, entry_heap, frame, z3.IntVal(0), None, tr_entry, "prove").items():
        ctx.oblige("%s/init[%s]" % (name, lab), f, kind="loop")
    names = assigned_names(s.body, s.target)
    havoc_loop(I, loop, frame, names, entry_heap, None)
    k = fresh("received", z3.IntSort())
    ctx.assume(k >= 0)
    for lab, f in eval_inv(I, loop, entry_heap, frame, k, None, tr_entry).items():
        ctx.assume(f)
    if ctx.choose(2, "stream%d" % ordinal) == 0:
        item = SV(fresh_val("item"), ANY)
        iter_heap, iter_tr, iter_locals = ctx.snapshot(), ctx.trlen, dict(frame.locals)
        n_own = len(ctx.own_stores)
        ctx.emit("chan.receive", ch, item)
        I.assign(frame, s.target, item)
        iter_locals = dict(frame.locals)
        try:
            I.exec_block(frame, s.body)
        except ContinueSig:
            pass
        except BreakSig:
            return
        for lab, f in eval_inv(I, loop, entry_heap, frame, k + 1, None, tr_entry, "prove").items():
            ctx.oblige("%s/preserve[%s]" % (name, lab), f, kind="loop")
        check_loop_frame(I, loop, frame, entry_heap, None, n_own, name)
        if loop.step is not None:
            spec = Spec(ctx, iter_heap, ctx.snapshot())
            spec.mode = "prove"
            spec.tr, spec.trlen, spec.tr_old_len = ctx.tr, ctx.trlen, iter_tr
            fr0 = types.SimpleNamespace(locals=iter_locals)
            for lab, f in loop.step(spec, Locals(spec, frame, spec.new_heap), Locals(spec, fr0, iter_heap)).items():
                ctx.oblige("%s/iteration[%s]" % (name, lab), _b(f), kind="loop")
        raise PathEnd()
    ctx.emit("chan.end", ch)
    I.exec_block(frame, s.orelse)


def symbolic_while(I, frame, s, ordinal):
    ctx = I.ctx
    loop = find_loop_spec(I, frame, ordinal)
    if loop is None:
        raise Unsupported("while loop %d of %s has no invariant" % (ordinal, frame.fi.key if frame.fi else "?"))
    name = loop_name(frame, ordinal)
    entry_heap = ctx.snapshot()
    tr_entry = ctx.trlen
    for lab, f in eval_inv(I, loop, entry_heap, frame, z3.IntVal(0), None, tr_entry, "prove").items():
        ctx.oblige("%s/init[%s]" % (name, lab), f, kind="loop")
    names = assigned_names(s.body)
    havoc_loop(I, loop, frame, names, entry_heap, None)
    k = fresh("iter", z3.IntSort())  # number of completed iterations
    ctx.assume(k >= 0)
    for lab, f in eval_inv(I, loop, entry_heap, frame, k, None, tr_entry).items():
        ctx.assume(f)
    if I.cond(frame, s.test):
        iter_heap = ctx.snapshot()
        iter_tr = ctx.trlen
        iter_locals = dict(frame.locals)
        n_own = len(ctx.own_stores)
        dec0 = None
        if loop.decreases is not None:
            spec = Spec(ctx, entry_heap, ctx.snapshot())
            dec0 = loop.decreases(spec, Locals(spec, frame, spec.new_heap))
        try:
            I.exec_block(frame, s.body)
        except ContinueSig:
            pass
        except BreakSig:
            return
        for lab, f in eval_inv(I, loop, entry_heap, frame, k + 1, None, tr_entry, "prove").items():
            ctx.oblige("%s/preserve[%s]" % (name, lab), f, kind="loop")
        check_loop_frame(I, loop, frame, entry_heap, None, n_own, name)
        if loop.step is not None:
            spec = Spec(ctx, iter_heap, ctx.snapshot())
            spec.tr, spec.trlen, spec.tr_old_len = ctx.tr, ctx.trlen, iter_tr
            fr0 = types.SimpleNamespace(locals=iter_locals)
            r = loop.step(spec, Locals(spec, frame, spec.new_heap), Locals(spec, fr0, iter_heap))
            for lab, f in r.items():
                ctx.oblige("%s/iteration[%s]" % (name, lab), _b(f), kind="loop")
        if loop.decreases is not None:
            spec = Spec(ctx, entry_heap, ctx.snapshot())
            dec1 = loop.decreases(spec, Locals(spec, frame, spec.new_heap))
            ctx.oblige("%s/decreases" % name, z3.And(dec0.r >= 0, dec1.r < dec0.r) if isinstance(dec0, N) else z3.And(dec0 >= 0, dec1 < dec0), kind="loop")
        raise PathEnd()
    I.exec_block(frame, s.orelse)


# ------------------------------------------------------------------------------------------ sum / all / any / comprehensions
def _single_gen(I, g):
    node = g.node
    if len(node.generators) != 1 or node.generators[0].is_async:
        raise Unsupported("generator expression with several/async clauses over a sequence of unknown length")
    gen = node.generators[0]
    fr = Frame(g.frame.fi, dict(g.frame.locals), g.frame.closure_env, g.frame.module)
    fr.cls_ctx = g.frame.cls_ctx
    seq = I.eval(fr, gen.iter)
    seq = I.ctx.from_val(seq) if isinstance(seq, SV) else seq
    from . import setsum as _ss

    if _ss.is_set(seq):
        seq = _ss.enumeration(I, _ss.mem_of(I.ctx, seq), seq.ty.elem, "list", "generator over a set")
    if not (isinstance(seq, SV) and isinstance(seq.ty, TSeq)):
        raise Unsupported("generator over %r" % (seq,))
    return gen, fr, seq


def _pure_eval(I, fr, gen, seq, expr, j):
    """evaluate expr with the loop target bound to seq[j]; must be pure and deterministic"""
    from .builtins_ import seq_item

    ctx = I.ctx
    heap_before = dict(ctx.heap)
    ndec = len(ctx.decisions)
    trlen = ctx.trlen
    I.assign(fr, gen.target, seq_item(I, seq, j))
    v = I.eval(fr, expr)
    if len(ctx.decisions) != ndec:
        raise Unsupported("element expression of a fold forks on its data")
    if any(not ctx.heap[k].eq(heap_before.get(k, ctx.heap[k])) for k in ctx.heap if k in heap_before) or not (ctx.trlen is trlen or ctx.trlen.eq(trlen)):
        raise Unsupported("element expression of a fold has side effects")
    return v


def symbolic_sum(I, it, start):
    ctx = I.ctx
    if not isinstance(it, GenExpT()):
        raise Unsupported("sum() over %r" % (it,))
    gen, fr, seq = _single_gen(I, it)
    from . import setsum

    if setsum.enum_of(ctx, seq) is not None:
        return setsum.sum_over(I, it, start, gen, fr, seq)
    if gen.ifs:
        raise Unsupported("filtered sum over a sequence of unknown length")
    n = z3.Select(ctx.field_array("$len"), ctx.ref_id(seq))
    ctx.assume(n >= 0)
    j = fresh("j", z3.IntSort())
    # the element expression is evaluated once for a generic index j in [0, n)
    ctx.solver.push()
    saved_pc = list(ctx.pc)
    ctx.assume(z3.And(0 <= j, j < n))
    try:
        v = _pure_eval(I, fr, gen, seq, it.node.elt, j)
        sv = I.num_operand(v)
        learned = ctx.pc[len(saved_pc) + 1 :]
    finally:
        ctx.solver.pop()
        ctx.pc = saved_pc
    # facts learned about the generic element (shape invariants of loaded fields) hold for every index
    B = getattr(ctx.E, "bounded", None)
    if learned:
        if B is not None:
            for k in range(B):
                ctx.assume(z3.Implies(n > k, z3.substitute(z3.And(*learned), (j, z3.IntVal(k)))))
        else:
            ctx.assume(z3.ForAll([j], z3.Implies(z3.And(0 <= j, j < n), z3.And(*learned))))
    term = sv.t

    def body(k):
        return Z.rval(z3.substitute(term, (j, k)))

    ctx.ghost["nondet"] = True  # a fold is an uninterpreted function unfolded only where the proof needs it
    f = get_fold(ctx, n, body, origin="code")
    f.unfold(n - 1)
    f.unfold(z3.IntVal(0))
    total = f.F(n)
    # a sum is finite here (elements finite by shape); its int-ness is left open unless start decides it
    allint = fresh("sum_is_int", z3.BoolSort())
    res = SV(Z.mk_num(allint, total), TNum())
    if B is not None:
        for k in range(B):
            ctx.assume(z3.Implies(n > k, Z.is_finite(z3.substitute(term, (j, z3.IntVal(k))))))
    else:
        ctx.assume(z3.ForAll([j], z3.Implies(z3.And(0 <= j, j < n), Z.is_finite(z3.substitute(term, (j, j))))))
    if isinstance(start, int) and start == 0:
        # sum of zero elements is the int 0
        ctx.assume(z3.Implies(n == 0, allint))
        return res
    return I.binop(ast.Add(), start, res)


def GenExpT():
    from .interp import GenExp

    return GenExp


def symbolic_all_any(I, it, is_all):
    ctx = I.ctx
    if not isinstance(it, GenExpT()):
        raise Unsupported("all()/any() over %r" % (it,))
    gen, fr, seq = _single_gen(I, it)
    if gen.ifs:
        raise Unsupported("filtered all/any")
    n = z3.Select(ctx.field_array("$len"), ctx.ref_id(seq))
    j = fresh("j", z3.IntSort())
    ctx.solver.push()
    saved_pc = list(ctx.pc)
    ctx.assume(z3.And(0 <= j, j < n))
    try:
        if not ctx.feasible():
            # the sequence is empty on this path: all() of nothing is True, any() of nothing is False
            return SV(Z.mk_bool(bool(is_all)), TBool())
        # the boolean operators at the TOP of the element expression (under `and` / `or` / `not` only): there truth is all that matters
        allowed, todo = set(), [it.node.elt]
        while todo:
            nd = todo.pop()
            if isinstance(nd, ast.BoolOp):
                allowed.add(id(nd))
                todo.extend(nd.values)
            elif isinstance(nd, ast.UnaryOp) and isinstance(nd.op, ast.Not):
                todo.append(nd.operand)
        ctx.ghost["truth_only"] = allowed
        try:
            v = _pure_eval(I, fr, gen, seq, it.node.elt, j)
        finally:
            ctx.ghost.pop("truth_only", None)
        t = ctx.truth(v)
        learned = ctx.pc[len(saved_pc) + 1 :]
    finally:
        ctx.solver.pop()
        ctx.pc = saved_pc
    if learned:
        ctx.assume(z3.ForAll([j], z3.Implies(z3.And(0 <= j, j < n), z3.And(*learned))))
    t = z3.BoolVal(t) if isinstance(t, bool) else t
    k = z3.Int("aak")
    body = z3.substitute(t, (j, k))
    if is_all:
        f = z3.ForAll([k], z3.Implies(z3.And(0 <= k, k < n), body))
    else:
        f = z3.Exists([k], z3.And(0 <= k, k < n, body))
    return SV(Z.mk_bool(f), TBool())


def symbolic_comprehension(I, g, kind):
    """{f(x) for x in seq} over a heap sequence: a set given by its membership predicate (pure element expression)"""
    ctx = I.ctx
    if kind == "list":
        from . import setsum

        gen, fr, seq = _single_gen(I, g)
        if setsum.enum_of(ctx, seq) is not None:
            return setsum.filtered_enum(I, g, gen, fr, seq)
    if kind != "set":
        raise Unsupported("%s comprehension over a sequence of unknown length" % kind)
    gen, fr, seq = _single_gen(I, g)
    if gen.ifs:
        raise Unsupported("filtered set comprehension")
    n = z3.Select(ctx.field_array("$len"), ctx.ref_id(seq))
    j = fresh("j", z3.IntSort())
    ctx.solver.push()
    saved_pc = list(ctx.pc)
    ctx.assume(z3.And(0 <= j, j < n))
    try:
        v = _pure_eval(I, fr, gen, seq, g.node.elt, j)
        term = ctx.to_val(v).t
        learned = ctx.pc[len(saved_pc) + 1 :]
    finally:
        ctx.solver.pop()
        ctx.pc = saved_pc
    if learned:
        ctx.assume(z3.ForAll([j], z3.Implies(z3.And(0 <= j, j < n), z3.And(*learned))))
    from .values import SymSet

    def pred(k):
        q = z3.Int("scq")
        return z3.Exists([q], z3.And(0 <= q, q < n, z3.substitute(term, (j, q)) == k))

    return SymSet(pred, "comprehension")


def copy_seq(I, v, kind):
    """list(seq) / tuple(seq): a fresh sequence object with the same items"""
    ctx = I.ctx
    from . import setsum

    if setsum.is_set(v):
        return setsum.enumeration(I, setsum.mem_of(ctx, v), v.ty.elem, kind, "list(set)")
    if not (isinstance(v, SV) and isinstance(v.ty, TSeq)):
        raise Unsupported("list() of %r" % (v,))
    new = ctx.alloc(None, TSeq(v.ty.elem, kind))
    ctx.store_raw(ctx.ref_id(new), "$len", z3.Select(ctx.field_array("$len"), ctx.ref_id(v)))
    ctx.store_raw(ctx.ref_id(new), "$item", z3.Select(ctx.field_array("$item"), ctx.ref_id(v)))
    return new
