"""Loops over sequences of unknown length: inductive invariants from the sidecar; folds for sum()."""
import ast
import z3

from . import z as Z
from .engine import *


def symbolic_for(I, frame, s, it, ordinal):
    raise Unsupported("for loop over a sequence of unknown length (ordinal %d)" % ordinal)


def symbolic_while(I, frame, s, ordinal):
    raise Unsupported("while loop (ordinal %d)" % ordinal)


def symbolic_sum(I, it, start):
    raise Unsupported("sum() over a sequence of unknown length")


def symbolic_all_any(I, it, is_all):
    raise Unsupported("all()/any() over a sequence of unknown length")


def symbolic_comprehension(I, g, kind):
    raise Unsupported("comprehension over a sequence of unknown length")


def copy_seq(I, v, kind):
    raise Unsupported("list() of a sequence of unknown length")
