import argparse
import json
import os
import sys


def main():
    import warnings

    # replays create coroutine objects of the real async functions without driving them (no native driver): not worth a warning
    warnings.filterwarnings("ignore", message="coroutine .* was never awaited", category=RuntimeWarning)
    ap = argparse.ArgumentParser()
    ap.add_argument("pid")
    ap.add_argument("rest", nargs="*")
    ap.add_argument("--tier", default=os.environ.get("VERIF_TIER", "quick"))
    ap.add_argument("--jobs", type=int, default=None)
    a = ap.parse_args()
    seed = int(os.environ.get("VERIF_SEED", "0") or 0)
    if a.pid == "replay":
        path = a.rest[0]
        with open(path) as fh:
            rep = json.load(fh)
        print(json.dumps(rep, indent=1))
        pid = rep["property"]
        from . import props, runner

        sys.exit(runner.run_property(pid, "quick", seed))
    from . import props, runner

    if a.pid not in props.PROPS:
        print("unknown property %s" % a.pid)
        sys.exit(3)
    hook = props.PROPS[a.pid].get("runner")
    if hook:
        sys.exit(hook(a.pid, a.tier, seed))
    sys.exit(runner.run_property(a.pid, a.tier, seed, a.jobs))


if __name__ == "__main__":
    main()
