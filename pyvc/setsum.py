"""Finite sets of objects and sums over them (used for C15, FactoryPool).

A Python set / WeakSet of objects is a heap object whose membership is the array  $mhas[set] : Val -> Bool.
Sums over a set are terms of an UNINTERPRETED function
        ssum(mem : Val->Bool, fld : Int->Val) : Real      -- "sum of the real value of field fld over the members of mem"
        scard(mem) : Int                                  -- number of members
whose only known facts are the axioms below.  Every axiom is a theorem about finite sets and real-valued functions proved in
/verif/lean/SetSum.lean against Mathlib (checked by `lean` in the C15 check itself); the correspondence axiom <-> theorem is
by name.  What the encoding assumes of Python: a set holds each object once, iteration visits every member exactly once in an
arbitrary order, sum() over such an iteration is the set sum IN REAL ARITHMETIC (float rounding and evaluation order are not
modelled), and a set is finite.

Iterating a set (for / list() / sorted() / [*a, *b] / comprehension) yields an ENUMERATION: a fresh sequence of arbitrary
order, duplicate free, listing exactly the members; it remembers the membership array it enumerates."""
import ast

import z3

from . import z as Z
from .engine import *
from .types import T, TRef, TSeq, TAny

MemSort = z3.ArraySort(Z.Val, z3.BoolSort())
FldSort = z3.ArraySort(z3.IntSort(), Z.Val)
ssum = z3.Function("ssum", MemSort, FldSort, z3.RealSort())
scard = z3.Function("scard", MemSort, z3.IntSort())
enum_idx = z3.Function("enum_idx", z3.IntSort(), Z.Val, z3.IntSort())      # position of a member in an enumeration (skolem)
EMPTY = z3.K(Z.Val, z3.BoolVal(False))


class TSet(TRef):
    """heap set of objects: $mhas[id][x] : Bool"""

    def __init__(self, elem=None):
        self.elem = elem

    def describe(self):
        return "Set(%s)" % (self.elem.describe() if self.elem else "Any")


def R(fld, x):
    """real value of field array fld at the object x (a Val ref)"""
    return Z.rval(z3.Select(fld, Z.Val.id(x)))


def axioms():
    """the facts about ssum / scard the solver may use; names = theorems of lean/SetSum.lean"""
    m, m2 = z3.Const("ax_m", MemSort), z3.Const("ax_m2", MemSort)
    f = z3.Const("ax_f", FldSort)
    c, v = z3.Const("ax_c", Z.Val), z3.Const("ax_v", Z.Val)
    i = z3.Int("ax_i")
    ins, ers = z3.Store(m, c, z3.BoolVal(True)), z3.Store(m, c, z3.BoolVal(False))
    out = {}
    out["ssum_insert"] = z3.ForAll([m, f, c], ssum(ins, f) == ssum(m, f) + z3.If(z3.Select(m, c), 0, R(f, c)), patterns=[ssum(ins, f)])
    out["ssum_erase"] = z3.ForAll([m, f, c], ssum(ers, f) == ssum(m, f) - z3.If(z3.Select(m, c), R(f, c), 0), patterns=[ssum(ers, f)])
    upd = z3.Store(f, i, v)
    out["ssum_update"] = z3.ForAll([m, f, i, v], ssum(m, upd) == ssum(m, f) + z3.If(z3.Select(m, Z.mk_ref(i)), Z.rval(v) - Z.rval(z3.Select(f, i)), 0), patterns=[ssum(m, upd)])
    out["ssum_empty"] = z3.ForAll([f], ssum(EMPTY, f) == 0, patterns=[ssum(EMPTY, f)])
    out["card_insert"] = z3.ForAll([m, c], scard(ins) == scard(m) + z3.If(z3.Select(m, c), 0, 1), patterns=[scard(ins)])
    out["card_erase"] = z3.ForAll([m, c], scard(ers) == scard(m) - z3.If(z3.Select(m, c), 1, 0), patterns=[scard(ers)])
    out["card_empty"] = scard(EMPTY) == 0
    out["card_nonneg"] = z3.ForAll([m], scard(m) >= 0, patterns=[scard(m)])
    return out


# every fact the SMT side uses about ssum / scard, by the name of the Lean theorem that proves it (checked by the runner: a name
# without a theorem of that name in lean/SetSum.lean is an engine error)
LEMMA_NAMES = ("ssum_insert", "ssum_insert_mem", "ssum_erase", "ssum_erase_not_mem", "ssum_update", "ssum_empty", "ssum_congr", "ssum_union", "ssum_nonneg", "ssum_zero",
               "ssum_member_le", "ssum_filter_le", "sum_enumeration", "enumeration_length", "card_insert", "card_erase", "card_empty", "card_nonneg", "card_zero", "card_union")


def ensure_axioms(ctx):
    if not ctx.ghost.get("setsum_axioms"):
        ctx.ghost["setsum_axioms"] = True
        for name, ax in axioms().items():
            ctx.assume(ax)
        ctx.ghost.setdefault("lemmas_used", set()).update(axioms())


def mem_of(ctx, sv, heap=None):
    arr = ctx.field_array("$mhas") if heap is None else ctx.rd(heap, "$mhas")
    return z3.Select(arr, ctx.ref_id(sv) if isinstance(sv, SV) else Z.Val.id(sv))


def members_are_objects(ctx, mem):
    """every member is a reference to an object that exists already"""
    x = z3.Const("mx", Z.Val)
    return z3.ForAll([x], z3.Implies(z3.Select(mem, x), z3.And(Z.is_refv(x), Z.Val.id(x) > 0, Z.Val.id(x) < ctx.alloc0 + ctx.nalloc)), patterns=[z3.Select(mem, x)])


# ---- lemma instances that need a hypothesis (asserted as implications; the solver has to establish the hypothesis) ---------
def lemma_congr(mem, f1, f2):
    """ssum_congr: only the members' values matter"""
    x = z3.Const("lx", Z.Val)
    return z3.Implies(z3.ForAll([x], z3.Implies(z3.Select(mem, x), z3.Select(f1, Z.Val.id(x)) == z3.Select(f2, Z.Val.id(x)))), ssum(mem, f1) == ssum(mem, f2))


def lemma_union(u, a, b, f):
    """ssum_union / card: u is the disjoint union of a and b"""
    x = z3.Const("lx", Z.Val)
    hyp = z3.And(z3.ForAll([x], z3.Select(u, x) == z3.Or(z3.Select(a, x), z3.Select(b, x))), z3.ForAll([x], z3.Not(z3.And(z3.Select(a, x), z3.Select(b, x)))))
    return z3.Implies(hyp, ssum(u, f) == ssum(a, f) + ssum(b, f))


def lemma_card_union(u, a, b):
    x = z3.Const("lx", Z.Val)
    hyp = z3.And(z3.ForAll([x], z3.Select(u, x) == z3.Or(z3.Select(a, x), z3.Select(b, x))), z3.ForAll([x], z3.Not(z3.And(z3.Select(a, x), z3.Select(b, x)))))
    return z3.Implies(hyp, scard(u) == scard(a) + scard(b))


def lemma_nonneg(mem, f):
    x = z3.Const("lx", Z.Val)
    return z3.Implies(z3.ForAll([x], z3.Implies(z3.Select(mem, x), R(f, x) >= 0)), ssum(mem, f) >= 0)


def lemma_zero(mem, f):
    """ssum_zero: all members' values are 0"""
    x = z3.Const("lx", Z.Val)
    return z3.Implies(z3.ForAll([x], z3.Implies(z3.Select(mem, x), R(f, x) == 0)), ssum(mem, f) == 0)


def lemma_member_le(mem, f, c):
    x = z3.Const("lx", Z.Val)
    return z3.Implies(z3.And(z3.Select(mem, c), z3.ForAll([x], z3.Implies(z3.Select(mem, x), R(f, x) >= 0))), R(f, c) <= ssum(mem, f))


def lemma_card_zero(mem):
    """a finite set has no members iff its cardinality is 0 (card_eq_sum_ones / Finset.card_eq_zero)"""
    x = z3.Const("lx", Z.Val)
    return z3.And(z3.Implies(scard(mem) == 0, z3.ForAll([x], z3.Not(z3.Select(mem, x)))), z3.Implies(z3.ForAll([x], z3.Not(z3.Select(mem, x))), scard(mem) == 0))


def lemma_filter(sub, mem, f):
    """ssum over a subset of members with non-negative values is bounded by the whole (ssum_filter_split + ssum_nonneg)"""
    x = z3.Const("lx", Z.Val)
    return z3.Implies(z3.And(z3.ForAll([x], z3.Implies(z3.Select(sub, x), z3.Select(mem, x))), z3.ForAll([x], z3.Implies(z3.Select(mem, x), R(f, x) >= 0))), ssum(sub, f) <= ssum(mem, f))


# ---- objects ---------------------------------------------------------------------------------------------------------------
def new_set(I, members=(), elem=None):
    ctx = I.ctx
    ensure_axioms(ctx)
    s = ctx.alloc(None, TSet(elem))
    mem = EMPTY
    for x in members:
        mem = z3.Store(mem, ctx.to_val(x).t, z3.BoolVal(True))
    ctx.heap["$mhas"] = z3.Store(ctx.field_array("$mhas"), ctx.ref_id(s), mem)
    ctx.wrote("$mhas", ctx.ref_id(s))
    return s


def set_add(I, s, x):
    ctx = I.ctx
    ensure_axioms(ctx)
    mem = mem_of(ctx, s)
    ctx.heap["$mhas"] = z3.Store(ctx.field_array("$mhas"), ctx.ref_id(s), z3.Store(mem, ctx.to_val(x).t, z3.BoolVal(True)))
    ctx.wrote("$mhas", ctx.ref_id(s))
    if ctx.store_hook is not None:
        ctx.store_hook("set-add")


def set_discard(I, s, x):
    ctx = I.ctx
    ensure_axioms(ctx)
    mem = mem_of(ctx, s)
    ctx.heap["$mhas"] = z3.Store(ctx.field_array("$mhas"), ctx.ref_id(s), z3.Store(mem, ctx.to_val(x).t, z3.BoolVal(False)))
    ctx.wrote("$mhas", ctx.ref_id(s))
    if ctx.store_hook is not None:
        ctx.store_hook("set-discard")


def enumeration(I, mem, elem, kind="list", why="iteration"):
    """a fresh sequence enumerating the members of `mem` in an arbitrary order, each exactly once"""
    ctx = I.ctx
    ensure_axioms(ctx)
    seq = ctx.alloc(None, TSeq(elem or TAny(), kind))
    sid = ctx.ref_id(seq)
    n = fresh("enum_n", z3.IntSort())
    items = fresh("enum_items", z3.ArraySort(z3.IntSort(), Z.Val))
    ctx.store_raw(sid, "$len", n)
    ctx.store_raw(sid, "$item", items)
    j, k = z3.Int("ej"), z3.Int("ek")
    x = z3.Const("ex", Z.Val)
    ctx.assume(n == scard(mem))
    ctx.assume(n >= 0)
    ctx.assume(z3.ForAll([j], z3.Implies(z3.And(0 <= j, j < n), z3.Select(mem, z3.Select(items, j))), patterns=[z3.Select(items, j)]))
    ctx.assume(z3.ForAll([j, k], z3.Implies(z3.And(0 <= j, j < k, k < n), z3.Select(items, j) != z3.Select(items, k))))
    e = z3.simplify(sid)
    ctx.assume(z3.ForAll([x], z3.Implies(z3.Select(mem, x), z3.And(0 <= enum_idx(e, x), enum_idx(e, x) < n, z3.Select(items, enum_idx(e, x)) == x)), patterns=[z3.Select(mem, x)]))
    ctx.ghost.setdefault("enums", {})[e.sexpr()] = (mem, elem)
    ctx.ghost["nondet"] = True
    return seq


def enum_of(ctx, seq):
    if not isinstance(seq, SV):
        return None
    try:
        key = z3.simplify(ctx.ref_id(seq)).sexpr()
    except Exception:  # noqa
        return None
    return ctx.ghost.get("enums", {}).get(key)


def is_set(v):
    return isinstance(v, SV) and isinstance(v.ty, TSet)


def iterable_mem(I, v):
    """(membership array, element shape) if v is a set or an enumeration of one"""
    ctx = I.ctx
    v = ctx.from_val(v) if isinstance(v, SV) else v
    if is_set(v):
        return mem_of(ctx, v), v.ty.elem
    e = enum_of(ctx, v)
    if e is not None:
        return e
    return None


def union_enum(I, parts):
    """[*a, *b]: an enumeration of the union; the parts are assumed (and must be provably) disjoint where sums are split"""
    ctx = I.ctx
    ensure_axioms(ctx)
    mems = [iterable_mem(I, p) for p in parts]
    u = fresh("union_mem", MemSort)
    x = z3.Const("ux", Z.Val)
    ctx.assume(z3.ForAll([x], z3.Select(u, x) == z3.Or(*[z3.Select(m, x) for m, _ in mems]), patterns=[z3.Select(u, x)]))
    ctx.ghost.setdefault("unions", []).append((u, [m for m, _ in mems]))
    return enumeration(I, u, mems[0][1], "list", "union")


def field_of_elt(I, fr, gen, elt, elem_ty):
    """the heap field a generator's element expression reads from its loop variable (child.demand -> 'demand'), else None"""
    if isinstance(elt, ast.Attribute) and isinstance(elt.value, ast.Name) and isinstance(gen.target, ast.Name) and elt.value.id == gen.target.id:
        ty = elem_ty
        if ty is not None and hasattr(ty, "fields") and elt.attr in ty.fields:
            return elt.attr
    return None


def sum_over(I, it, start, gen, fr, seq):
    """sum(x.f for x in ENUMERATION [if cond(x)]) = ssum(members [satisfying cond], H_f)"""
    ctx = I.ctx
    mem, elem = enum_of(ctx, seq)
    fld = field_of_elt(I, fr, gen, it.node.elt, elem)
    if fld is None or gen.ifs:
        raise Unsupported("sum over a set enumeration of something that is not a plain field of the element")
    ensure_axioms(ctx)
    total = ssum(mem, ctx.field_array(fld))
    allint = fresh("sum_is_int", z3.BoolSort())
    res = SV(Z.mk_num(allint, total), TNum())
    ctx.assume(z3.Implies(scard(mem) == 0, allint))
    ctx.ghost["nondet"] = True
    if isinstance(start, int) and start == 0:
        return res
    return I.binop(ast.Add(), start, res)


def filtered_enum(I, g, gen, fr, seq):
    """[x for x in ENUMERATION if cond(x)]: an enumeration of the members satisfying cond (cond: pure, evaluated on a generic member)"""
    ctx = I.ctx
    mem, elem = enum_of(ctx, seq)
    node = g.node
    if not (isinstance(node.elt, ast.Name) and isinstance(gen.target, ast.Name) and node.elt.id == gen.target.id) or len(gen.ifs) != 1:
        raise Unsupported("comprehension over a set enumeration that is not a plain filter")
    x = z3.Const("fx", Z.Val)
    xs = SV(x, elem or TAny())
    ctx.solver.push()
    saved_pc = list(ctx.pc)
    ndec = len(ctx.decisions)
    heap_before = dict(ctx.heap)
    try:
        ctx.assume(z3.Select(mem, x))
        ctx.assume(z3.And(Z.is_refv(x), Z.Val.id(x) > 0))
        if elem is not None:
            ctx.assume_class(x, elem)
        I.assign(fr, gen.target, xs)
        cond = ctx.truth(I.eval(fr, gen.ifs[0]))
        if len(ctx.decisions) != ndec or any(not ctx.heap[k].eq(heap_before.get(k, ctx.heap[k])) for k in ctx.heap if k in heap_before):
            raise Unsupported("filter of a comprehension forks or has side effects")
    finally:
        ctx.solver.pop()
        ctx.pc = saved_pc
    cond = z3.BoolVal(cond) if isinstance(cond, bool) else cond
    sub = fresh("filter_mem", MemSort)
    ctx.assume(z3.ForAll([x], z3.Select(sub, x) == z3.And(z3.Select(mem, x), cond), patterns=[z3.Select(sub, x)]))
    ctx.ghost.setdefault("filters", []).append((sub, mem, cond, x))
    return enumeration(I, sub, elem, "list", "filter")


# ---- hooks -------------------------------------------------------------------------------------------------------------------
def h_method(I, obj, name, args, kwargs):
    if not is_set(obj):
        return NotImplemented
    if name == "add":
        set_add(I, obj, args[0])
        return None
    if name in ("discard",):
        set_discard(I, obj, args[0])
        return None
    raise Unsupported("set method %s" % name)


def h_contains(I, container, item):
    ctx = I.ctx
    m = iterable_mem(I, container)
    if m is None:
        return NotImplemented
    return z3.Select(m[0], ctx.to_val(item).t)


def h_sorted(I, arg, kw, conc):
    m = iterable_mem(I, arg)
    if m is None:
        return NotImplemented
    # the key function is assumed pure; the order is arbitrary (a sound over-approximation of any sort order)
    I.ctx.note("sorted(set, key=...) modelled as an enumeration in ARBITRARY order (any order the key could produce is included)")
    return enumeration(I, m[0], m[1], "list", "sorted")


def h_set(I, arg):
    m = iterable_mem(I, arg)
    if m is None:
        return NotImplemented
    ctx = I.ctx
    s = ctx.alloc(None, TSet(m[1]))
    ctx.heap["$mhas"] = z3.Store(ctx.field_array("$mhas"), ctx.ref_id(s), m[0])
    return s


def weak_set(I, args, kwargs):
    if args:
        raise Unsupported("WeakSet(iterable)")
    return new_set(I)


def install(E):
    E.externals.update({"method": h_method, "contains": h_contains, "sorted": h_sorted, "set": h_set, "weakref.WeakSet": weak_set})
