"""Fold lemmas: each is a schema over uninterpreted body functions, PROVED by induction (base and step
obligations discharged by the same solvers, on every run) and only then instantiated as an assumption where a
sidecar invokes it.  No free-floating axioms about sums (DESIGN.md 2.4)."""
import time

import z3

from . import z as Z

Real, Int = z3.RealSort(), z3.IntSort()


def _fold(name):
    b = z3.Function("b_" + name, Int, Real)
    F = z3.Function("F_" + name, Int, Real)
    return b, F


def _defn(b, F, n):
    m = z3.Int("m_def")
    return [F(0) == 0, z3.ForAll([m], z3.Implies(z3.And(0 <= m, m < n), F(m + 1) == F(m) + b(m)), patterns=[F(m + 1)])]


def _prove(premises, goal, timeout=10000):
    s = z3.Solver()
    s.set("timeout", timeout)
    s.add(*premises)
    s.add(z3.Not(goal))
    t0 = time.time()
    r = s.check()
    return r == z3.unsat, str(r), time.time() - t0


def schemas():
    """name -> (statement text, [(part, premises, goal)])"""
    out = {}
    n, k, j = z3.Ints("n k j")
    # ---- ext: equal bodies give equal folds
    b1, F1 = _fold("1")
    b2, F2 = _fold("2")
    hyp = z3.ForAll([j], z3.Implies(z3.And(0 <= j, j < n), b1(j) == b2(j)))
    base = _defn(b1, F1, n) + _defn(b2, F2, n) + [n >= 0]
    out["ext"] = (
        "(forall j<n. b1(j)=b2(j)) => forall m<=n. F1(m)=F2(m)",
        [("base", base + [hyp], F1(0) == F2(0)),
         ("step", base + [hyp, 0 <= k, k < n, F1(k) == F2(k), F1(k + 1) == F1(k) + b1(k), F2(k + 1) == F2(k) + b2(k)], F1(k + 1) == F2(k + 1))],
    )
    # ---- const: all elements equal q
    q = z3.Real("q")
    hyp = z3.ForAll([j], z3.Implies(z3.And(0 <= j, j < n), b1(j) == q))
    out["const"] = (
        "(forall j<n. b(j)=q) => forall m<=n. F(m)=m*q",
        [("base", _defn(b1, F1, n) + [hyp, n >= 0], F1(0) == 0 * q),
         ("step", _defn(b1, F1, n) + [hyp, 0 <= k, k < n, F1(k) == z3.ToReal(k) * q, F1(k + 1) == F1(k) + b1(k)], F1(k + 1) == z3.ToReal(k + 1) * q)],
    )
    # ---- scale: b1 = s*b2
    sc = z3.Real("s")
    hyp = z3.ForAll([j], z3.Implies(z3.And(0 <= j, j < n), b1(j) == sc * b2(j)))
    out["scale"] = (
        "(forall j<n. b1(j)=s*b2(j)) => forall m<=n. F1(m)=s*F2(m)",
        [("base", base + [hyp], F1(0) == sc * F2(0)),
         ("step", base + [hyp, 0 <= k, k < n, F1(k) == sc * F2(k), F1(k + 1) == F1(k) + b1(k), F2(k + 1) == F2(k) + b2(k)], F1(k + 1) == sc * F2(k + 1))],
    )
    # ---- mono: pointwise <= gives <=
    hyp = z3.ForAll([j], z3.Implies(z3.And(0 <= j, j < n), b1(j) <= b2(j)))
    out["mono"] = (
        "(forall j<n. b1(j)<=b2(j)) => forall m<=n. F1(m)<=F2(m)",
        [("base", base + [hyp], F1(0) <= F2(0)),
         ("step", base + [hyp, 0 <= k, k < n, F1(k) <= F2(k), F1(k + 1) == F1(k) + b1(k), F2(k + 1) == F2(k) + b2(k)], F1(k + 1) <= F2(k + 1))],
    )
    # ---- member: a member of a non-negative family is at most the sum, and prefix sums are monotone
    i = z3.Int("i")
    hyp = z3.ForAll([j], z3.Implies(z3.And(0 <= j, j < n), b1(j) >= 0))
    out["member"] = (
        "(forall j<n. b(j)>=0) => forall m<=n. (F(m)>=0 and forall i<m. b(i)<=F(m))",
        [("base", _defn(b1, F1, n) + [hyp, n >= 0], z3.And(F1(0) >= 0, z3.ForAll([i], z3.Implies(z3.And(0 <= i, i < 0), b1(i) <= F1(0))))),
         ("step", _defn(b1, F1, n) + [hyp, 0 <= k, k < n, F1(k) >= 0, z3.ForAll([i], z3.Implies(z3.And(0 <= i, i < k), b1(i) <= F1(k))), F1(k + 1) == F1(k) + b1(k)],
          z3.And(F1(k + 1) >= 0, z3.ForAll([i], z3.Implies(z3.And(0 <= i, i < k + 1), b1(i) <= F1(k + 1)))))],
    )
    # ---- prefix: prefix sums of a non-negative family are monotone
    a_ = z3.Int("pa")
    hyp = z3.ForAll([j], z3.Implies(z3.And(0 <= j, j < n), b1(j) >= 0))
    out["prefix"] = (
        "(forall j<n. b(j)>=0) => forall a<=m<=n. F(a)<=F(m)",
        [("base", _defn(b1, F1, n) + [hyp, n >= 0, 0 <= a_, a_ <= 0], F1(a_) <= F1(0)),
         ("step", _defn(b1, F1, n) + [hyp, 0 <= k, k < n, 0 <= a_, a_ <= k + 1, z3.Implies(a_ <= k, F1(a_) <= F1(k)), F1(k + 1) == F1(k) + b1(k)], F1(a_) <= F1(k + 1))],
    )
    # ---- add: the fold of a pointwise sum
    b3, F3 = _fold("3")
    hyp = z3.ForAll([j], z3.Implies(z3.And(0 <= j, j < n), b3(j) == b1(j) + b2(j)))
    base3 = base + _defn(b3, F3, n)
    out["add"] = (
        "(forall j<n. b3(j)=b1(j)+b2(j)) => forall m<=n. F3(m)=F1(m)+F2(m)",
        [("base", base3 + [hyp], F3(0) == F1(0) + F2(0)),
         ("step", base3 + [hyp, 0 <= k, k < n, F3(k) == F1(k) + F2(k), F1(k + 1) == F1(k) + b1(k), F2(k + 1) == F2(k) + b2(k), F3(k + 1) == F3(k) + b3(k)], F3(k + 1) == F1(k + 1) + F2(k + 1))],
    )
    # ---- arithmetic facts over reals, proved standalone (nlsat) and instantiated on the terms of a proof
    for nm, (text, prem, goal) in arith().items():
        out[nm] = (text, [("proof", prem, goal)])
    return out


def arith(D=None, n=None, w=None, W=None):
    D = z3.Real("aD") if D is None else D
    n = z3.Real("an") if n is None else n
    w = z3.Real("aw") if w is None else w
    W = z3.Real("aW") if W is None else W
    return {
        "paced": ("I>0, rate>0, 0<=k<=s/I+1 => k*rate*I <= rate*(s+I)   [n=I, D=rate, w=k, W=s]", [n > 0, D > 0, w >= 0, w <= W / n + 1], w * D * n <= D * (W + n)),
        "unshare": ("n>=1 => n*(D/n) = D", [n >= 1], n * (D / n) == D),
        "pmono": ("D<=n, w>=0 => D*w <= n*w", [D <= n, w >= 0], D * w <= n * w),
        "kshare": ("D>=0, 0<=w<=W, W>0 => 0 <= (D/W)*w <= D", [D >= 0, w >= 0, W > 0, w <= W], z3.And((D / W) * w >= 0, (D / W) * w <= D)),
        "share": ("D>=0, n>=1 => 0 <= D/n <= D", [D >= 0, n >= 1], z3.And(D / n >= 0, D / n <= D)),
        "wshare": ("D>=0, 0<=w<=W, W>0 => 0 <= D*w/W <= D", [D >= 0, w >= 0, W > 0, w <= W], z3.And(D * w / W >= 0, D * w / W <= D)),
        "rescale": ("W!=0 => D*w/W = (D/W)*w and (D/W)*W = D", [W != 0], z3.And(D * w / W == (D / W) * w, (D / W) * W == D)),
    }


def prove_all():
    """returns list of obligation records (name, status, seconds)"""
    recs = []
    for name, (text, parts) in schemas().items():
        for part, prem, goal in parts:
            ok, r, secs = _prove(prem, goal)
            recs.append({"name": "lemma:%s/%s" % (name, part), "statement": text, "status": "discharged" if ok else ("refuted" if r == "sat" else "undecided"), "backend": "z3", "seconds": round(secs, 4)})
    return recs


# ---- instantiation (used by sidecars through Spec.lemma) -------------------------------------------------
def instantiate(ctx, name, *args):
    j, m = z3.Ints("lj lm")
    used = ctx.ghost.setdefault("lemmas_used", set())
    used.add(name)
    if name == "ext":
        f1, f2 = args
        n = f1.n
        hyp = z3.ForAll([j], z3.Implies(z3.And(0 <= j, j < n), f1.body_fn(j) == f2.body_fn(j)))
        return z3.Implies(hyp, z3.ForAll([m], z3.Implies(z3.And(0 <= m, m <= n), f1.F(m) == f2.F(m))))
    if name == "const":
        f1, q = args
        n = f1.n
        hyp = z3.ForAll([j], z3.Implies(z3.And(0 <= j, j < n), f1.body_fn(j) == q))
        return z3.Implies(hyp, z3.ForAll([m], z3.Implies(z3.And(0 <= m, m <= n), f1.F(m) == z3.ToReal(m) * q)))
    if name == "scale":
        f1, s, f2 = args
        n = f1.n
        hyp = z3.ForAll([j], z3.Implies(z3.And(0 <= j, j < n), f1.body_fn(j) == s * f2.body_fn(j)))
        return z3.Implies(hyp, z3.ForAll([m], z3.Implies(z3.And(0 <= m, m <= n), f1.F(m) == s * f2.F(m))))
    if name == "mono":
        f1, f2 = args
        n = f1.n
        hyp = z3.ForAll([j], z3.Implies(z3.And(0 <= j, j < n), f1.body_fn(j) <= f2.body_fn(j)))
        return z3.Implies(hyp, z3.ForAll([m], z3.Implies(z3.And(0 <= m, m <= n), f1.F(m) <= f2.F(m))))
    if name == "member":
        (f1,) = args
        n = f1.n
        i = z3.Int("li")
        hyp = z3.ForAll([j], z3.Implies(z3.And(0 <= j, j < n), f1.body_fn(j) >= 0))
        return z3.Implies(hyp, z3.ForAll([m], z3.Implies(z3.And(0 <= m, m <= n), z3.And(f1.F(m) >= 0, z3.ForAll([i], z3.Implies(z3.And(0 <= i, i < m), f1.body_fn(i) <= f1.F(m)))))))
    if name == "add":
        f3, f1, f2 = args
        n = f1.n
        hyp = z3.ForAll([j], z3.Implies(z3.And(0 <= j, j < n), f3.body_fn(j) == f1.body_fn(j) + f2.body_fn(j)))
        return z3.Implies(hyp, z3.ForAll([m], z3.Implies(z3.And(0 <= m, m <= n), f3.F(m) == f1.F(m) + f2.F(m))))
    if name == "prefix":
        (f1,) = args
        n = f1.n
        a_ = z3.Int("lpa")
        hyp = z3.ForAll([j], z3.Implies(z3.And(0 <= j, j < n), f1.body_fn(j) >= 0))
        return z3.Implies(hyp, z3.ForAll([a_, m], z3.Implies(z3.And(0 <= a_, a_ <= m, m <= n), f1.F(a_) <= f1.F(m))))
    if name == "member_at":
        f1, mt, it = args
        n = f1.n
        hyp = z3.ForAll([j], z3.Implies(z3.And(0 <= j, j < n), f1.body_fn(j) >= 0))
        used.add("member")
        return z3.Implies(z3.And(hyp, 0 <= it, it < mt, mt <= n), z3.And(f1.F(mt) >= 0, f1.body_fn(it) <= f1.F(mt)))
    if name in ("share", "wshare", "rescale", "pmono", "kshare", "unshare"):
        kw = dict(zip({"share": ("D", "n"), "unshare": ("D", "n"), "wshare": ("D", "w", "W"), "rescale": ("D", "w", "W"), "pmono": ("D", "n", "w"), "kshare": ("D", "w", "W")}[name], args))
        text, prem, goal = arith(**kw)[name]
        return z3.Implies(z3.And(*prem), goal)
    raise KeyError(name)


if __name__ == "__main__":
    for r in prove_all():
        print(r)
