"""Registry of the claimed properties: sidecar modules, claimed level, trusted base common to the property."""
from .runner import register

ENGINE_TB = [
    "pyvc encoding of Python (DESIGN.md 2.2): statements/expressions interpreted from the real AST; differential-tested against CPython on every run",
    "machine arithmetic: int is mathematical (true of CPython); finite float treated as a mathematical real (rounding not modelled)",
    "extraction drops only comments, docstrings, annotations, TYPE_CHECKING / __main__ blocks",
]

PROPS = {}


def prop(pid, modules, level, technique, text, note, trusted=(), explanation="", design_ref=""):
    PROPS[pid] = dict(modules=modules, level=level, technique=technique, text=text, note=note,
                      trusted_base=ENGINE_TB + list(trusted), explanation=explanation, design_ref=design_ref)
    register(pid, *modules)


prop(
    "C06",
    ["contracts.c06_standardiser"],
    "proof",
    "contract-based deductive verification: sidecar contracts on the real Standardiser functions, VCs generated from the AST, discharged by z3/cvc5",
    "every clause of the property is a postcondition of Standardiser.demand setter/getter/__init__ proved for all parameters, supplies and demands (numbers are int | real | +-inf); callers are checked against callee contracts; histories follow by induction because every clause holds from any state satisfying the constructor's postcondition",
    "trusted: pyvc's Python semantics (differential-tested vs CPython each run), floats as reals, the hypothesis that the target is a well-behaved pool",
    trusted=["hypothesis: the target pool stores demand faithfully and reading supply/demand/utilisation/allocation is pure"],
    design_ref="5/C06",
)

NOT_BUILT = "not claimed yet: the contracts for this property are not finished in the committed framework (DESIGN.md 10 gives the build order); no check, no evidence"
NOT_APPLICABLE = {pid: NOT_BUILT for pid in ["C%02d" % i for i in range(1, 20)]}
NOT_APPLICABLE["C13"] = (
    "process-level property (exit status of python -m cobald.daemon, SIGINT delivery, log output, and 'keeps all of them alive' = garbage-collector "
    "reachability of the configured objects): no function contract can express heap lifetime or process semantics; its sequential ingredients are proved under C01/C05/C14/C18"
)
