"""Registry of the claimed properties: sidecar modules, claimed level, trusted base common to the property."""
from .runner import register

ENGINE_TB = [
    "pyvc encoding of Python (DESIGN.md 2.2): statements/expressions interpreted from the real AST; differential-tested against CPython on every run",
    "machine arithmetic: int is mathematical (true of CPython); finite float treated as a mathematical real (rounding not modelled)",
    "extraction drops only comments, docstrings, annotations, TYPE_CHECKING / __main__ blocks",
]

PROPS = {}


def prop(pid, modules, level, technique, text, note, trusted=(), explanation="", design_ref="", bounded=None, lemmas=False, lean=None):
    PROPS[pid] = dict(modules=modules, level=level, technique=technique, text=text, note=note,
                      trusted_base=ENGINE_TB + list(trusted), explanation=explanation, design_ref=design_ref, bounded=bounded, lemmas=lemmas, lean=lean)
    register(pid, *modules)


prop(
    "C06",
    ["contracts.c06_standardiser"],
    "proof",
    "contract-based deductive verification: sidecar contracts on the real Standardiser functions, VCs generated from the AST, discharged by z3/cvc5",
    "every clause of the property is a postcondition of Standardiser.demand setter/getter/__init__ proved for all parameters, supplies and demands (numbers are int | real | +-inf); callers are checked against callee contracts; histories follow by induction because every clause holds from any state satisfying the constructor's postcondition",
    "trusted: pyvc's Python semantics (differential-tested vs CPython each run), floats as reals, the hypothesis that the target is a well-behaved pool",
    trusted=["hypothesis: the target pool stores demand faithfully and reading supply/demand/utilisation/allocation is pure"],
    design_ref="5/C06",
)

NOT_BUILT = "not claimed yet: the contracts for this property are not finished in the committed framework (DESIGN.md 10 gives the build order); no check, no evidence"

prop(
    "C19",
    ["contracts.c19_mapping", "contracts.c05_pipeline"],
    "other",
    "contract-based deductive verification of the inductive step of a structural induction over configuration trees: translate_hierarchy is proved per node shape (mappings by key set, lists by length, width <= 3; children are arbitrary symbolic subtrees, so depth is unbounded) against its own interface contract assumed at the recursive call sites; construct and load_name are proved against an abstract import system; whole trees of larger width by a BOUNDED stand-in",
    "proved per node: every child translated exactly once (mappings in key order at where.key, lists last-to-first at where[index]), plain data unchanged, a __type__ mapping constructed exactly once after all its children from the translated items + extra keywords, __args__ positional / rest keyword, name resolution through import or the attribute chain, a child's located error propagates unchanged (innermost location), an unlocated or foreign error gets exactly this node's location; bounded: whole random trees against an independent evaluator",
    "trusted: pyvc's Python semantics; the assumed contract of the import system (__import__, sys.modules, getattr); factories are arbitrary callables that never raise a LOCATED ConfigurationError (hypothesis stated in DESIGN.md C19); width > 3 only by the bounded stand-in",
    trusted=["assumed: __import__(name) either makes sys.modules[name] exist or raises ImportError; getattr either raises AttributeError or returns attr_of(object, name)",
             "hypothesis: an exception raised by a factory is not a ConfigurationError that already carries a location (the code cannot tell it from a child's located error)",
             "NOT proved: the comprehension loops for node widths > 3 (unrolled per shape, widths 0..3 proved); covered only by the bounded stand-in",
             "BOUNDED (not proved): whole trees of depth <= 4 and width <= 5 against an independent recursive evaluator, see coverage.bounded"],
    explanation="inductive step per node shape proved by VCs; whole trees bounded",
    design_ref="5/C19",
    bounded="bounded.c19_trees",
)


prop(
    "C04",
    ["contracts.c04_partial"],
    "other",
    "contract-based deductive verification of the step cases of an induction over the expression tree of t1 >> ... >> tn >> tail: Partial.__construct__, __rshift__, __call__, _check_signature, __init__, PartialBind.__rshift__ and the .s factories are proved per shape (argument / target lists of length <= 3, symbolic elements) against interface contracts assumed at nested elements; inspect's bind_partial is an assumed contract; transparency of @service is a static obligation",
    "proved per function: x >> pending y constructs nothing and denotes flat(x) ++ flat(y); x >> leaf template constructs the tail exactly once then binds; bind >> pool applies every element exactly once, last to first, each to the result of the next, returning the head's result; __construct__ passes the target first, then stored positionals, then keywords; currying appends positionals, merges keywords (duplicate = TypeError) and re-checks the signature at once; 'target' by name or a Pool as first positional is rejected; otherwise TypeError iff inspect's bind_partial (with the target placeholder unless leaf) raises",
    "trusted: pyvc's Python semantics; the assumed contract of inspect.Signature.from_callable/bind_partial (agreement with Python's real binding rules is assumed, not proved); widths > 3 not proved; the written induction over expression trees combines the step cases (DESIGN.md C04)",
    trusted=["assumed: Signature.from_callable(ctor).bind_partial(*a, **k) raises TypeError iff the arguments can never bind to ctor's parameters",
             "NOT proved: argument / target lists longer than 3 (shapes are unrolled); the combination of the step cases into the statement about every parenthesisation is a written induction (DESIGN.md), not machine-checked",
             "hypothesis: constructors are arbitrary callables with arbitrary outcomes; nested elements of a bind obey the interface contract of >> (induction hypothesis)"],
    explanation="step cases proved by VCs per shape; @service transparency is a known finding",
    design_ref="5/C04",
)


prop(
    "C05",
    ["contracts.c05_pipeline", "contracts.c04_partial", "contracts.c19_mapping", "contracts.c18_registration"],
    "other",
    "contract-based deductive verification of the three links between a YAML pipeline section and the chain: yaml_constructor.factory_constructor (node kind -> factory call, deep=eager handed on), PipelineTranslator.translate_hierarchy (proved per pipeline shape: lengths 1..3 over every assignment of template / legacy elements, against the interface contracts of >> (C04) and of translation (C19)), load_pipeline; the end-to-end run through real PyYAML is a BOUNDED stand-in",
    "proved: a mapping / sequence / bare tag becomes factory(**items) / factory(*items) / factory() with exactly the loader's data; the pipeline is walked last to first, the last element constructed without target, every earlier element bound to the object built for the next one (>> for templates, target= for legacy mappings), each exactly once, results in configuration order; any element's failure propagates unchanged; non-pipeline structures are delegated with the same location and keywords; bounded: real YAML text end to end",
    "trusted: pyvc's Python semantics; PyYAML's construct_mapping/construct_sequence and tag dispatch (assumed contract); pipelines longer than 3 only by the bounded stand-in; constructors return objects (not None)",
    trusted=["assumed: PyYAML calls the registered constructor once per tagged node with (loader, node); construct_mapping/construct_sequence return the node's nested data",
             "hypothesis: constructors / factories return an object, never None (a None result would make the walk treat the next element as the last one)",
             "NOT proved: pipelines longer than 3 elements (the reverse walk is unrolled per shape); covered only by the bounded stand-in",
             "BOUNDED (not proved): real YAML documents through real PyYAML against the configured chain, see coverage.bounded"],
    explanation="links proved by VCs per shape; YAML end to end bounded",
    design_ref="5/C05",
    bounded="bounded.c05_yaml",
)


prop(
    "C15",
    ["contracts.c15_factory"],
    "proof",
    "contract-based deductive verification of FactoryPool: hatchery / mortuary as finite sets of objects (membership arrays), sums over them as an uninterpreted set-sum function whose axioms are theorems proved in Lean 4 against Mathlib on every run; _release_child, _reap_children, _grow, _shrink (loop invariants over an arbitrary enumeration order), the aggregation properties, run (iteration contract) and __init__ are proved for every set of children, every demand history and every factory",
    "every clause of the statement is a postcondition: grow covers the target and would not without the child spawned last; shrink releases only while the rest still covers the target and keeps no child that could still be released; released children have demand 0, move hatchery -> mortuary and nothing else is touched (sets stay disjoint); children without demand are released; only the factory adds children; supply is the sum over all children, utilisation / allocation the mean over those with supply (1.0 if none); run sleeps one interval then adjusts once",
    "trusted: pyvc's Python semantics; Python float arithmetic treated as real arithmetic (sum order / rounding not modelled); sets hold each object once and iterate every member exactly once in arbitrary order; sorted() as arbitrary order; the correspondence between the SMT axioms of ssum/scard and the Lean theorems is by name; garbage collection of mortuary (WeakSet) members is not modelled",
    trusted=["idealisation: Python float sums are real-number sums (associativity, no rounding); sum() over any iteration order of a set is the set sum (Lean: SetSum.sum_enumeration)",
             "assumed: the axioms of the uninterpreted functions ssum / scard are exactly the theorems of /verif/lean/SetSum.lean (checked by lean against Mathlib in this run; the correspondence axiom <-> theorem is by name and reading)",
             "hypothesis: children are well-behaved pools (non-negative finite supply/demand/utilisation/allocation); while the pool sleeps, demands stay non-negative and released children keep demand 0; the factory returns a pool that is not already a child",
             "not modelled: weak references - a released child disappearing from the mortuary by garbage collection (it has demand 0; only the supply aggregate could change)"],
    explanation="all clauses proved by VCs over set sums; set-sum axioms are Lean/Mathlib theorems",
    design_ref="5/C15",
    lean="lean/SetSum.lean",
    bounded="bounded.c15_native",
)

NOT_APPLICABLE = {pid: NOT_BUILT for pid in ["C%02d" % i for i in range(1, 20)]}
NOT_APPLICABLE["C13"] = (
    "process-level property (exit status of python -m cobald.daemon, SIGINT delivery, log output, and 'keeps all of them alive' = garbage-collector "
    "reachability of the configured objects): no function contract can express heap lifetime or process semantics; its sequential ingredients are proved under C01/C05/C14/C18"
)

prop(
    "C08",
    ["contracts.c08_controllers"],
    "proof",
    "contract-based deductive verification: contracts on the real regulate/__init__/selection functions, loop invariants for rule and slave selection, VCs from the AST discharged by z3/cvc5",
    "direction, amount and exactly-once delegation are postconditions proved for all pool states, parameters, intervals and tables of any length (selection loops by inductive invariants over the table); that the constructors build tables satisfying those invariants is proved per table size 0..3 for every declaration order and all real thresholds",
    "trusted: pyvc's Python semantics, floats as reals, well-behaved pool, slaved controllers/rules as abstract callables; constructor-established table invariants as stated per function in the evidence",
    trusted=["hypothesis: the target pool stores demand faithfully and reading its attributes is pure",
             "hypothesis: slaved controllers and rules are arbitrary callables (one event per call)",
             "PER SIZE: the table constructors (RangeSelector._compile_lookup, Stepwise.__init__, UnboundStepwise.__init__/add/__call__, DemandSwitch.__init__) are proved to establish "
             "the table invariants (lookup_inv / ascending) for tables of 0..3 entries given in every order with arbitrary real thresholds (one contract per size; sorted() explored as "
             "one path per ordering consistent with the path condition, ties = the TypeError Python raises when it falls through to comparing the rules/controllers)",
             "BOUNDED (not proved): tables of 4 and 5 entries - exhaustive native enumeration over a threshold grid, see coverage.bounded; larger tables: not covered",
             "assumed: sorted() returns a stable ascending permutation; zip/itertools.chain/iter have their documented one-shot semantics",
             "assumed: trio.sleep(d) advances trio's clock by exactly d or raises Cancelled"],
    design_ref="5/C08",
    bounded="bounded.c08_tables",
)

prop(
    "C16",
    ["contracts.c16_decorators"],
    "proof",
    "contract-based deductive verification: forwarding contracts on PoolDecorator/Logger, trace contract on Logger.demand, class-resolution obligations decided on the real MRO",
    "each decorator level returns the target's supply/utilisation/allocation with an empty frame and trace (so by induction on the stack depth any stack reports the base pool's values); Logger.demand is proved to emit exactly one record, before the write, carrying the new value and the target's pre-state; template validation is proved against the very key set used at emission",
    "trusted: pyvc's Python semantics; %-formatting raises KeyError iff the template names a key the mapping lacks (assumed); logging emits one record per Logger.log call; well-behaved pool",
    trusted=["assumed: 'template' % mapping raises KeyError iff the template names a key that is not in the mapping; TypeError/ValueError for malformed specifiers",
             "assumed: logging.getLogger(name) is a function of the name; Logger.log on an enabled logger emits one record",
             "hypothesis: the wrapped pool is well-behaved (pure reads, faithful demand store)"],
    design_ref="5/C16",
)

prop(
    "C07",
    ["contracts.c07_composites"],
    "proof",
    "contract-based deductive verification: loop invariants over the children, sums as fold spec functions with induction lemmas (proved on every run), nonlinear real arithmetic in z3",
    "conservation, proportional shares, share bounds, exact read-back, supply sum, convexity of utilisation/allocation and the documented fallbacks are postconditions proved for every child count and every non-negative child state",
    "trusted: pyvc's Python semantics, floats as reals (so 'up to rounding' is exact equality), children are pairwise distinct well-behaved pools, the induction principle behind the fold lemmas",
    trusted=["hypothesis: children are pairwise distinct well-behaved pools with non-negative supply/utilisation/allocation; writing one child's demand changes nothing else",
             "meta: each fold lemma is proved as base+step obligations; concluding the universally quantified lemma from them is the induction principle on naturals"],
    design_ref="5/C07",
    lemmas=True,
)

prop(
    "C12",
    ["contracts.c12_lifecycle", "contracts.runtime"],
    "proof",
    "contract-based deductive verification of the sequential ingredients: lock ghost state on the exclusive wrapper, flag/event obligations on accept/_accept_services/shutdown",
    "exclusivity of accept and release of the guard on EVERY exit path of the wrapped call (return, Exception, KeyboardInterrupt, any BaseException) are proved for all outcomes; the accept loop's flag/event protocol is proved per function. 'shutdown() returns within bounded time' is liveness across threads and is NOT decided here (stated in trusted_base)",
    "trusted: pyvc's Python semantics; assumed contracts of threading.Lock/Event, trio.sleep; composition through asyncio/trio and all scheduling assumed",
    trusted=["assumed: threading.Lock.acquire(blocking=False) atomically returns True iff free and then holds; release requires held",
             "NOT DECIDED: shutdown()/accept() return within bounded time whatever the payloads are doing (liveness across threads)",
             "representative arity: the exclusive wrapper is verified for 2 positional + 1 keyword argument; it forwards *args/**kwargs untouched",
             "accept is also verified AS DECORATED (the real @exclusive() run by the interpreter on it, wrappers of sibling methods created once per path, every guard held): RuntimeError and an empty frame on every existing object",
             "assumed: concurrent.futures.Future.result(timeout=t) may raise TimeoutError while the coroutine has not finished (stop() must never give up waiting); Event.wait(timeout) may return False",
             "hypothesis (MetaRunner/ServiceRunner.__init__): logging.getLogger and threading.Event() as in the library models"],
    design_ref="5/C12",
)

CONC_NOTE = "per-link proofs; composition through asyncio/trio and all scheduling assumed"
prop(
    "C01",
    ["contracts.runtime"],
    "proof",
    "contract-based deductive verification of the failure-conversion chain: outcome/effect-trace contracts per link (payload monitors, failure future, runner.run, meta runner, accept), every payload outcome and exception class symbolic",
    "each link of the chain payload outcome -> recorded failure -> runner task -> gather -> RuntimeError out of run()/accept() is proved for ALL outcomes (any return value incl. falsy ones, any BaseException class); " + CONC_NOTE + "; 'never keeps running' needs the frameworks to terminate and is assumed",
    "trusted: pyvc's Python semantics; assumed contracts of asyncio (Future, loop, gather, shield, run) and trio (run, nursery, from_thread) as listed in the evidence; thread interleavings not modelled",
    trusted=["assumed library contracts: asyncio.Future.set_exception requires not done and not a StopIteration; await fut yields the stored outcome; call_soon_threadsafe runs the callback once on the loop thread",
             "hypothesis: a payload is an arbitrary callable with an arbitrary outcome that does not touch the runner's own state",
             "NOT COVERED: thread interleavings, several payloads failing at nearly the same time (first-wins is proved per future; which one wins is schedule), termination of the close loop"],
    design_ref="5/C01",
)

prop(
    "C10",
    ["contracts.runtime"],
    "proof",
    "contract-based deductive verification of the execute chain: pass-through (result/exception by identity, exactly-once call with exactly the arguments) and an EMPTY write frame, per link",
    "execute -> MetaRunner.run_payload -> each runner's run_payload: for every outcome of the payload (any object incl. None and falsy values, any exception class) the caller gets that very object / exception, the payload is called exactly once with exactly the arguments in the requested flavour, and no field of the runtime is written (so it cannot count as a background failure); " + CONC_NOTE,
    "trusted: pyvc's Python semantics; assumed contracts of run_coroutine_threadsafe(...).result(), trio.from_thread.run, functools.partial; delivery across threads is the frameworks'",
    trusted=["assumed: run_coroutine_threadsafe(coro, loop).result() and trio.from_thread.run(f, trio_token=t) yield the callee's outcome by identity, in the loop's / token's thread",
             "assumed: functools.partial(f,*a,**k)(*b,**l) == f(*a,*b,**k,**l)",
             "representative arity: argument lists are the empty one and (2 positional + 1 keyword); the code forwards them untouched"],
    design_ref="5/C10",
)

prop(
    "C14",
    ["contracts.c14_config", "contracts.c18_registration"],
    "proof",
    "contract-based deductive verification: trace contract on load_configuration with a counting fold (position of each digest call = number of present plugins before it), loop invariant over the plugin sequence",
    "load_configuration: validation before any plugin runs, exactly-once / in-order / exact-content digestion are proved for every plugin sequence and every configuration mapping; load_section_plugins' ordering under before/after constraints (incl. constraints naming absent plugins) is covered by a BOUNDED stand-in, reported separately",
    "trusted: pyvc's Python semantics; digests are arbitrary callables; logging.config for the logging section; toposort_flatten / entrypoints behind the bounded stand-in",
    trusted=["hypothesis: plugins are pairwise distinct objects; a digest is an arbitrary callable (any result, any exception propagates)",
             "BOUNDED (not proved): load_section_plugins orders plugins by their before/after constraints and ignores constraints naming absent plugins - exhaustive native enumeration of small plugin sets, see coverage.bounded"],
    design_ref="5/C14",
    lemmas=True,
    bounded="bounded.c14_sections",
)

prop(
    "C03",
    ["contracts.runtime"],
    "proof",
    "contract-based deductive verification of the registration chain: exactly-once hand-over per link (adopt, MetaRunner.register_payload, each runner's register_payload, ServiceUnit.start), 'raises nothing' as a no-escape obligation for every state of the runtime",
    "each link hands the payload on exactly once with exactly the arguments and in the requested flavour, for all argument lists and queue contents (loops by invariants); adopt's 'never raises' is proved for every state (idle, launching, running, closing, finished) of the published runner map; " + CONC_NOTE,
    "trusted: pyvc's Python semantics; assumed contracts of threading.Thread, call_soon_threadsafe, create_task, trio.from_thread.run, trio memory channels, functools.partial; write/write races between threads are not modelled",
    trusted=["assumed: Thread(target=f,args=a,daemon=True).start() runs f(*a) once on a fresh daemon thread; call_soon_threadsafe / create_task / nursery.start_soon run the callable once in the loop's / run's thread",
             "assumed: trio.from_thread.run raises RunFinishedError (run over), Cancelled, RuntimeError (called from the trio thread) or yields the callee's outcome; channel send raises Closed/BrokenResourceError when closed",
             "NOT COVERED: write/write races (an adopt that read 'no runner' before launch and appends after the flush), GIL-atomicity of set(ws.data)"],
    design_ref="5/C03",
)

prop(
    "C09",
    ["contracts.c08_controllers", "contracts.c09_periodic", "contracts.c15_factory"],
    "proof",
    "contract-based deductive verification: iteration contracts on the `while True` loops of the run coroutines (one step, then one sleep of the interval), callee contracts of C08 for the steps, virtual clock through the assumed contract of trio.sleep",
    "for every shipped periodic service the loop body is proved to perform exactly one step (regulate with the configured interval / one rule / one conditional flush / one adjustment) and exactly one trio.sleep(interval) per iteration, for all states and intervals; run never returns and raises nothing but trio.Cancelled; the bound on demand change over a time span is an arithmetic lemma; " + CONC_NOTE,
    "trusted: pyvc's Python semantics; trio.sleep(d) advances trio's clock by exactly d or raises Cancelled; real scheduling delay is outside; well-behaved pool",
    trusted=["assumed: trio.sleep(d) returns after exactly d of the run's clock or raises trio.Cancelled; between two iterations the environment may change every pool's state",
             "NOT COVERED: real scheduling delay ('one per interval' is relative to trio's clock); 'indefinitely' beyond 'no path returns'"],
    design_ref="5/C09",
)

prop(
    "C02",
    ["contracts.runtime"],
    "proof",
    "contract-based deductive verification of the closing chain: _manage_runners (close under shield before every exit), _aclose_runners (every runner, then all tasks awaited), the three aclose functions (loop invariants / iteration contracts over the task set), trio nursery body, stop",
    "every exit path of each closing function is proved to perform its part: all runners closed under shield before run re-raises/returns; every still-tracked asyncio task cancelled until none is left and removed only when done; trio's channel closed inside the trio thread and the nursery scope cancelled inside the nursery block; thread payloads are daemon threads that are never joined. " + CONC_NOTE + "; termination of the asyncio close loop (a payload that swallows cancellation spins it) and cross-thread ordering are NOT proved",
    "trusted: pyvc's Python semantics; assumed: a done asyncio task has run its finally blocks, a nursery block / trio.run exits only after all children (shielded cleanup included) finished, asyncio.run cancels and awaits leftover tasks",
    trusted=["assumed: gather(..., return_exceptions=True) returns only when all awaited tasks are done; shield protects the close from cancellation; a nursery block and trio.run exit only after every child finished",
             "assumed (asyncio.tasks.Task.__step): a KeyboardInterrupt / SystemExit raised inside a task is carried out of the event loop and out of asyncio.run by itself; SIDE CONDITION proved on _manage_runners: neither is re-raised from the managing coroutine (that would abort asyncio.run's cleanup before the executor threads - the trio thread - are joined)",
             "assumed (trio memory channel): the receive loop ends once EVERY handle of the send side is closed; SIDE CONDITION proved on TrioRunner.register_payload: every clone it makes is closed again before it returns",
             "NOT COVERED (large): termination of `while self._tasks`, cross-thread ordering between the trio thread and the loop thread, 'no further step after the call ended' for tasks created concurrently with closing"],
    design_ref="5/C02",
)

prop(
    "C11",
    ["contracts.runtime"],
    "proof",
    "contract-based deductive verification of thread confinement: every hand-over of payload code goes through a hop primitive into the single asyncio loop / the single trio run (ghost thread tags in the effect trace), plus AST-decided wiring facts",
    "reformulated as thread confinement (schedule-independent): every asyncio payload is scheduled onto the runner's own loop (call_soon_threadsafe / create_task / run_coroutine_threadsafe with that loop), every trio payload enters the one nursery of the one trio.run of the current TrioRunner through its token, registered thread payloads get a fresh daemon thread each; all runners of one MetaRunner share the running loop; no other event loop is ever created (AST). Mutual exclusion between checkpoints then follows from 'one loop = one thread' and cooperative scheduling (assumed)",
    "trusted: pyvc's Python semantics; one loop = one thread, cooperative scheduling of asyncio and trio; contracts of the hop primitives",
    trusted=["assumed: call_soon_threadsafe/create_task/run_coroutine_threadsafe run the callable on the loop's thread; trio.from_thread.run/start_soon run it in the token's/nursery's run; run_in_executor uses a thread that is not the loop thread",
             "scope: execute(..., flavour=threading) runs in the CALLER's thread by design (docstring of run_payload); the thread clause speaks about registered thread payloads",
             "NOT COVERED: actual schedules"],
    design_ref="5/C11",
)

prop(
    "C18",
    ["contracts.c14_config", "contracts.c18_yaml", "contracts.c18_registration"],
    "other",
    "contract-based deductive verification of the WIRING (which loader class reads the document, which constructors it can gain) - obligations decided on the AST and by the VC generator; the universal claim over documents rests on the assumed PyYAML safe-loader contract",
    "wiring proved: the configuration loader derives only from yaml.SafeLoader, gains constructors only in add_constructor_plugins - which is itself under contract: for every entry point, in order, exactly one add_constructor on the loader passed in, under '!'+name, with yaml_constructor(the plugin's .s factory or the plugin, eager=its tag settings), a name starting with '!' is a RuntimeError -, load() reads YAML only through that loader, yaml.load_configuration takes the data only from loader(stream).get_single_data(); no permissive PyYAML entry point is named anywhere in src. The quantifier over all documents is ASSUMED of PyYAML (SafeLoader raises ConstructorError for every other tag before importing or calling anything) and is only probed by a corpus of python/* documents",
    "trusted: the PyYAML safe-loader contract carries the universal quantifier; pyvc's AST resolution of names/imports",
    trusted=["ASSUMED (carries the quantifier over documents): a loader whose constructor tables are SafeLoader's plus add_constructor entries constructs objects only through those entries and raises ConstructorError for every other tag, incl. every tag:yaml.org,2002:python/*, before importing or calling anything the tag names - EXCEPT for a tag on a mapping that is the value (or an item of the sequence value) of a merge key `<<`: flatten_mapping merges it by node kind and ignores the tag (accepted, nothing instantiated; known finding C18-merge-key-value-tag-is-ignored)",
             "PROBE (not proof): a corpus of python/* documents at top level, inside the pipeline and nested in a registered tag's arguments is loaded through the real load() with canaries, see coverage.bounded"],
    explanation="wiring obligations are proved (AST-decided + VCs); the claim over all documents is the assumed PyYAML contract, probed by a corpus",
    design_ref="5/C18",
    bounded="bounded.c18_corpus",
)

prop(
    "C17",
    ["contracts.c17_monitor"],
    "other",
    "contract-based deductive verification of escaping (per character, on the real escape functions), line assembly, record splitting and timestamp arithmetic; the whole-line round trip against an independent reference parser is a BOUNDED stand-in",
    "proved: per-character escaping (by the homomorphism property of str.replace with one-character patterns the whole-string claim follows by induction), the assembly of a line from escaped parts with nothing else rewritten, tag/field splitting with symbolic values over a bounded key universe, timestamp rounding, JSON merge order; bounded: decoding the assembled line with a reference line-protocol parser for all small strings",
    "trusted: pyvc's Python semantics and z3's string theory; str.replace with a 1-character pattern is a character homomorphism; str() of numbers/bools contains no delimiter; json / logging.Formatter library behaviour",
    trusted=["assumed: s.replace(p, r) with a one-character p maps every character independently (homomorphism), so per-character facts lift to strings by induction",
             "assumed: str() of an int/float/bool contains no line-protocol delimiter and parses back to the value; LogRecord.getMessage() is msg when it contains no % specifier",
             "BOUNDED (not proved): the assembled line decoded by an independent reference parser equals the record, exhaustively over small strings, see coverage.bounded"],
    explanation="escaping and record logic proved by VCs; whole-line round trip bounded",
    design_ref="5/C17",
    bounded="bounded.c17_roundtrip",
)
