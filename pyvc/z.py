"""z3 layer: the universal value sort and Python's number semantics.

Encoding assumptions (part of the trusted base, see DESIGN.md 2.2):
  * Python ``int`` is a mathematical integer (true of CPython).
  * a finite Python ``float`` is a mathematical real (idealisation; rounding not modelled).
  * ``inf``/``-inf``/``nan`` are separate constructors with CPython's arithmetic and comparison rules.
"""
import z3

_V = z3.Datatype("Val")
_V.declare("none")
# selector names are long on purpose: short ones (b, r, s, id) clash with bound variables when the
# obligations are re-read by cvc5
_V.declare("boolv", ("v_bool", z3.BoolSort()))
_V.declare("numv", ("v_isint", z3.BoolSort()), ("v_real", z3.RealSort()))
_V.declare("infv", ("v_neg", z3.BoolSort()))
_V.declare("nanv")
_V.declare("strv", ("v_str", z3.StringSort()))
_V.declare("refv", ("v_id", z3.IntSort()))
Val = _V.create()
Val.b, Val.isint, Val.r, Val.neg, Val.s, Val.id = Val.v_bool, Val.v_isint, Val.v_real, Val.v_neg, Val.v_str, Val.v_id

NONE = Val.none
NAN = Val.nanv


def mk_int(i):
    """int value; i is a python int or a z3 Int term"""
    return Val.numv(z3.BoolVal(True), z3.RealVal(i) if isinstance(i, int) else z3.ToReal(i))


def mk_flt(r):
    return Val.numv(z3.BoolVal(False), z3.RealVal(r) if isinstance(r, (int, float, str)) else r)


def intv_r(r):
    """int value given as an (integral) real term"""
    return Val.numv(z3.BoolVal(True), r)


def mk_bool(b):
    return Val.boolv(z3.BoolVal(b) if isinstance(b, bool) else b)


def mk_str(s):
    return Val.strv(z3.StringVal(s) if isinstance(s, str) else s)


def mk_ref(i):
    return Val.refv(z3.IntVal(i) if isinstance(i, int) else i)


def mk_inf(neg=False):
    return Val.infv(z3.BoolVal(neg) if isinstance(neg, bool) else neg)


POS_INF = mk_inf(False)
NEG_INF = mk_inf(True)

is_none = Val.is_none
is_boolv = Val.is_boolv
is_numv = Val.is_numv


def is_intv(v):
    return z3.And(Val.is_numv(v), Val.isint(v))


def is_fltv(v):
    return z3.And(Val.is_numv(v), z3.Not(Val.isint(v)))


def wf(v):
    """well-formedness of a number: an int carries an integral real"""
    return z3.Implies(is_intv(v), z3.IsInt(Val.r(v)))
is_infv = Val.is_infv
is_nanv = Val.is_nanv
is_strv = Val.is_strv
is_refv = Val.is_refv

ref_truthy = z3.Function("ref_truthy", z3.IntSort(), z3.BoolSort())


def S(t):
    return z3.simplify(t)


def is_num(v):
    """int, float (finite, inf, nan) or bool - everything Python arithmetic accepts"""
    return z3.Or(is_numv(v), is_infv(v), is_nanv(v), is_boolv(v))


def is_finite(v):
    return z3.Or(is_numv(v), is_boolv(v))


def is_intlike(v):
    return z3.Or(is_intv(v), is_boolv(v))


def is_float(v):
    return z3.Or(is_fltv(v), is_infv(v), is_nanv(v))


def rval(v):
    """real value of a finite number"""
    return z3.If(is_boolv(v), z3.If(Val.b(v), z3.RealVal(1), z3.RealVal(0)), Val.r(v))


def is_pinf(v):
    return z3.And(is_infv(v), z3.Not(Val.neg(v)))


def is_ninf(v):
    return z3.And(is_infv(v), Val.neg(v))


def truthy(v):
    return z3.If(
        is_none(v),
        False,
        z3.If(
            is_boolv(v),
            Val.b(v),
            z3.If(
                is_numv(v),
                Val.r(v) != 0,
                z3.If(
                    is_strv(v),
                    z3.Length(Val.s(v)) > 0,
                    z3.If(is_refv(v), ref_truthy(Val.id(v)), True),
                ),
            ),
        ),
    )


# ---- extended-real comparison (CPython: every comparison with nan is False) ----
def x_lt(a, b):
    fin = z3.And(is_finite(a), is_finite(b), rval(a) < rval(b))
    return z3.Or(
        fin,
        z3.And(is_ninf(a), z3.Or(is_finite(b), is_pinf(b))),
        z3.And(is_finite(a), is_pinf(b)),
    )


def x_eq(a, b):
    return z3.Or(
        z3.And(is_finite(a), is_finite(b), rval(a) == rval(b)),
        z3.And(is_pinf(a), is_pinf(b)),
        z3.And(is_ninf(a), is_ninf(b)),
    )


def x_le(a, b):
    return z3.Or(x_lt(a, b), x_eq(a, b))


def sign_pos(v):
    """v > 0 in extended reals"""
    return z3.Or(is_pinf(v), z3.And(is_finite(v), rval(v) > 0))


def sign_neg(v):
    return z3.Or(is_ninf(v), z3.And(is_finite(v), rval(v) < 0))


def sign_zero(v):
    return z3.And(is_finite(v), rval(v) == 0)


def mk_num(isint, r):
    """finite number from (isint flag, real value); isint => r integral is the caller's duty"""
    return Val.numv(isint, r)


def num_neg(a):
    return z3.If(is_finite(a), Val.numv(is_intlike(a), -rval(a)), z3.If(is_infv(a), Val.infv(z3.Not(Val.neg(a))), NAN))


def num_add(a, b):
    fin = z3.And(is_finite(a), is_finite(b))
    return z3.If(
        fin,
        Val.numv(z3.And(is_intlike(a), is_intlike(b)), rval(a) + rval(b)),
        z3.If(
            z3.Or(is_nanv(a), is_nanv(b)),
            NAN,
            z3.If(
                z3.And(is_infv(a), is_infv(b)),
                z3.If(Val.neg(a) == Val.neg(b), a, NAN),
                z3.If(is_infv(a), a, b),
            ),
        ),
    )


def num_sub(a, b):
    return num_add(a, num_neg(b))


def num_mul(a, b):
    fin = z3.And(is_finite(a), is_finite(b))
    neg = z3.Xor(sign_neg(a), sign_neg(b))
    return z3.If(
        fin,
        Val.numv(z3.And(is_intlike(a), is_intlike(b)), rval(a) * rval(b)),
        z3.If(
            z3.Or(is_nanv(a), is_nanv(b), sign_zero(a), sign_zero(b)),
            NAN,
            Val.infv(neg),
        ),
    )


def num_truediv(a, b):
    """a / b for b != 0 (the executor raises ZeroDivisionError for b == 0 before using this)"""
    fin = z3.And(is_finite(a), is_finite(b))
    return z3.If(
        fin,
        mk_flt(rval(a) / rval(b)),
        z3.If(
            z3.Or(is_nanv(a), is_nanv(b), z3.And(is_infv(a), is_infv(b))),
            NAN,
            z3.If(is_infv(a), Val.infv(z3.Xor(Val.neg(a), sign_neg(b))), mk_flt(0)),
        ),
    )


def num_floordiv(a, b):
    """a // b for b != 0 when an operand is not finite.  CPython: x//inf = 0.0 or -1.0; inf//x = nan.
    (finite // finite is encoded by the executor with a fresh integer quotient, see Interp.floordiv_mod)"""
    samesign = z3.Or(sign_zero(a), sign_pos(a) == sign_pos(b))
    return z3.If(
        z3.And(is_finite(a), is_infv(b)),
        z3.If(samesign, mk_flt(0), mk_flt(-1)),
        NAN,
    )


def num_mod(a, b):
    """a % b for b != 0 when an operand is not finite: x % +-inf per CPython; inf % x = nan"""
    samesign = z3.Or(sign_zero(a), sign_pos(a) == sign_pos(b))
    return z3.If(
        z3.And(is_finite(a), is_infv(b)),
        z3.If(samesign, mk_flt(rval(a)), b),
        NAN,
    )


def num_abs(a):
    return z3.If(
        is_finite(a),
        Val.numv(is_intlike(a), z3.If(rval(a) < 0, -rval(a), rval(a))),
        z3.If(is_infv(a), POS_INF, NAN),
    )


def num_trunc(a):
    """int(a) for finite a: truncation toward zero"""
    r = rval(a)
    return intv_r(z3.If(r >= 0, z3.ToReal(z3.ToInt(r)), -z3.ToReal(z3.ToInt(-r))))


def num_float(a):
    """float(a) for a number"""
    return z3.If(is_finite(a), mk_flt(rval(a)), a)


def py_eq(a, b):
    """Python == on two values neither of which is an object with a user __eq__ (refs compare by identity)"""
    return z3.If(
        z3.And(is_num(a), is_num(b)),
        x_eq(a, b),
        a == b,
    )


attr_of = z3.Function("attr_of", Val, z3.StringSort(), Val)   # getattr(object, name) of an arbitrary Python object, where it succeeds
is_container = z3.Function("is_container", Val, z3.StringSort(), z3.BoolSort())   # isinstance(v, dict|list|tuple|set) of an arbitrary value: an unknown fact
