"""Concretise solver models into real Python objects, run the REAL function under CPython, and evaluate
contract clauses on what it did.  Used for (a) replaying counterexamples, (b) the differential check of the
encoding against CPython on every feasible path."""
import fractions
import importlib
import math
import traceback

import z3

from . import z as Z
from .engine import *
from .contracts import Spec, ObjView, N
from .calls import eval_clause, views_of, _attach_trace
from .repo import FunctionInfo


class NotConcretisable(Exception):
    pass


class StubPool:
    """a well-behaved pool: plain attributes; every attribute store is recorded"""

    def __init__(self, **kw):
        object.__setattr__(self, "_stores", [])
        for k, v in kw.items():
            object.__setattr__(self, k, v)

    def __setattr__(self, k, v):
        self._stores.append((k, v))
        object.__setattr__(self, k, v)

    def __repr__(self):
        return "StubPool(%s)" % ", ".join("%s=%r" % (k, v) for k, v in self.__dict__.items() if k != "_stores")


def make_stub_class(ty):
    """a stub class for an abstract collaborator; registered as a virtual subclass of the declared interfaces"""
    cls = type("Stub" + ty.name, (StubPool,), {})
    for k in getattr(ty, "isa", []):
        modname, cname = k.split(":")
        real = getattr(importlib.import_module(modname), cname)
        try:
            real.register(cls)
        except Exception:
            pass
    return cls


_stub_classes = {}


def frac_of(term):
    return fractions.Fraction(term.numerator_as_long(), term.denominator_as_long())


def exact_float(fr):
    f = float(fr)
    return fractions.Fraction(f) == fr


class Concretiser:
    def __init__(self, E, model, heap, dyadic_required=True):
        self.E, self.m, self.heap = E, model, heap
        self.objs = {}  # id -> python object
        self.types = {}  # id -> shape
        self.inexact = False

    def ev(self, t):
        return self.m.eval(t, model_completion=True)

    def value(self, term, ty=None):
        v = z3.simplify(self.ev(term))
        d = v.decl().name()
        if d == "none":
            return None
        if d == "boolv":
            return z3.is_true(v.arg(0))
        if d == "numv":
            fr = frac_of(v.arg(1))
            if z3.is_true(v.arg(0)):
                if fr.denominator != 1:
                    raise NotConcretisable("int-flagged value with non-integral real %s" % fr)
                return int(fr)
            if not exact_float(fr):
                self.inexact = True
            return float(fr)
        if d == "infv":
            return -math.inf if z3.is_true(v.arg(0)) else math.inf
        if d == "nanv":
            return math.nan
        if d == "strv":
            return v.arg(0).as_string()
        if d == "refv":
            return self.obj(v.arg(0).as_long(), ty)
        raise NotConcretisable("value %s" % v)

    def field(self, oid, name):
        arr = self.heap.get(name)
        if arr is None:
            raise NotConcretisable("no heap array for field %s" % name)
        return z3.Select(arr, z3.IntVal(oid))

    def obj(self, oid, ty):
        if oid in self.objs:
            return self.objs[oid]
        if oid in self.E.interned:
            raise NotConcretisable("interned engine object %r" % (self.E.interned[oid],))
        if isinstance(ty, TObj):
            cls = ty.cls
            real = getattr(importlib.import_module(cls.module.name), cls.name)
            o = object.__new__(real)
            self.objs[oid] = o
            self.types[oid] = ty
            for fname, fty in ty.fields.items():
                object.__setattr__(o, fname, self.value(self.field(oid, fname), fty))
            return o
        if isinstance(ty, TAbs):
            sc = _stub_classes.get(ty.name)
            if sc is None:
                sc = _stub_classes[ty.name] = make_stub_class(ty)
            o = sc()
            self.objs[oid] = o
            self.types[oid] = ty
            for fname, fty in ty.fields.items():
                object.__setattr__(o, fname, self.value(self.field(oid, fname), fty))
            o._stores.clear()
            return o
        raise NotConcretisable("object of shape %s" % (ty.describe() if ty else None))


def py_to_term(v, rev):
    if v is None:
        return Z.NONE
    if isinstance(v, bool):
        return Z.mk_bool(v)
    if isinstance(v, int):
        return Z.mk_int(v)
    if isinstance(v, float):
        if v == math.inf:
            return Z.POS_INF
        if v == -math.inf:
            return Z.NEG_INF
        if v != v:
            return Z.NAN
        fr = fractions.Fraction(v)
        return Z.mk_flt(z3.RealVal("%d/%d" % (fr.numerator, fr.denominator)))
    if isinstance(v, str):
        return Z.mk_str(v)
    if id(v) in rev:
        return Z.mk_ref(rev[id(v)])
    raise NotConcretisable("observed value %r" % (v,))


def how_to_call(fi, con):
    """python callable(args dict) running the real function"""
    modname = fi.module.name
    qual = fi.qualname

    def run(args):
        mod = importlib.import_module(modname)
        parts = qual.split(".")
        names = [a.arg for a in fi.node.args.posonlyargs + fi.node.args.args]
        if fi.cls is not None:
            self_obj = args[names[0]]
            rest = [args[n] for n in names[1:]]
            kw = {a.arg: args[a.arg] for a in fi.node.args.kwonlyargs if a.arg in args}
            if parts[-1] == "getter":
                return getattr(self_obj, parts[-2])
            if parts[-1] == "setter":
                return setattr(self_obj, parts[-2], rest[0])
            if parts[-1] == "__init__":
                real = getattr(mod, parts[0])
                return getattr(real, "__init__")(self_obj, *rest, **kw)
            return getattr(type(self_obj), parts[-1])(self_obj, *rest, **kw)
        f = getattr(mod, parts[0])
        kw = {a.arg: args[a.arg] for a in fi.node.args.kwonlyargs if a.arg in args}
        return f(*[args[n] for n in names], **kw)

    return run


def snapshot_objects(conc):
    snap = {}
    for oid, o in conc.objs.items():
        ty = conc.types[oid]
        snap[oid] = {f: getattr(o, f, None) for f in ty.fields}
    return snap


def run_real(E, con, fi, bound, model, heap0, ctx):
    """concretise the inputs of a model, run the real function; returns a dict describing the concrete run"""
    conc = Concretiser(E, model, heap0)
    args = {}
    for name, sv in bound.items():
        if isinstance(sv, SV):
            args[name] = conc.value(sv.t, sv.ty)
        else:
            raise NotConcretisable("parameter %s is an engine-level value %r" % (name, sv))
    new_obj = getattr(con, "new_object", None)
    if new_obj:
        # constructor: start from a blank instance
        o = args[new_obj]
        for k in list(vars(o)):
            object.__delattr__(o, k)
    pre = snapshot_objects(conc)
    inputs_repr = {k: repr(v) for k, v in args.items()}
    runner = how_to_call(fi, con)
    outcome = {"inputs": inputs_repr, "inexact_floats": conc.inexact}
    try:
        r = runner(args)
        outcome["kind"] = "return"
        outcome["result"] = r
    except BaseException as e:  # noqa
        outcome["kind"] = "raise"
        outcome["exception"] = e
        outcome["exception_repr"] = "%s: %s" % (type(e).__name__, e)
    outcome["post"] = snapshot_objects(conc)
    outcome["pre"] = pre
    outcome["conc"] = conc
    outcome["stores"] = {oid: list(getattr(o, "_stores", [])) for oid, o in conc.objs.items()}
    return outcome


def concrete_heaps(ctx, conc, pre, post):
    """z3 heaps (dict field -> array) describing the observed pre/post object states"""
    rev = {id(o): oid for oid, o in conc.objs.items()}

    def build(snap):
        heap = {}
        for oid, fields in snap.items():
            for f, v in fields.items():
                arr = heap.get(f)
                if arr is None:
                    arr = z3.K(z3.IntSort(), Z.NONE)
                heap[f] = z3.Store(arr, z3.IntVal(oid), py_to_term(v, rev))
        cls_arr = z3.K(z3.IntSort(), z3.IntVal(0))
        for oid, ty in conc.types.items():
            if isinstance(ty, TObj):
                cls_arr = z3.Store(cls_arr, z3.IntVal(oid), z3.IntVal(ctx.E.classes.cid(ty.cls)))
        heap["$cls"] = cls_arr
        return heap

    return build(pre), build(post), rev


def check_clause_concretely(E, con, fi, bound, model, heap0, ctx_factory, clause_kind, label):
    """run the real code on the model's input and evaluate one contract clause on what it actually did.
    returns dict(violated=bool|None, ...)"""
    ctx = ctx_factory()
    out = run_real(E, con, fi, bound, model, heap0, ctx)
    conc = out["conc"]
    old_h, new_h, rev = concrete_heaps(ctx, conc, out["pre"], out["post"])
    # missing arrays default to the model's pre-state arrays
    spec = Spec(ctx, old_h, new_h)
    # events: stores recorded by stub collaborators, in order of occurrence per object
    evs = []
    for oid, stores in out["stores"].items():
        for k, v in stores:
            evs.append(spec.event("store", Z.mk_ref(oid), k, py_to_term(v, rev)))
    tr = z3.K(z3.IntSort(), spec.event("none"))
    for i, e in enumerate(evs):
        tr = z3.Store(tr, z3.IntVal(i), e)
    spec.tr, spec.trlen, spec.tr_old_len = tr, z3.IntVal(len(evs)), z3.IntVal(0)
    cbound = {}
    for name, sv in bound.items():
        cbound[name] = SV(z3.simplify(model.eval(sv.t, model_completion=True)), sv.ty)
    views = views_of(spec, cbound, new_h)
    info = {"inputs": out["inputs"], "observed": {"kind": out["kind"]}, "inexact_floats": out["inexact_floats"]}
    if out["kind"] == "return":
        info["observed"]["result"] = repr(out["result"])
    else:
        info["observed"]["exception"] = out["exception_repr"]
    info["observed"]["post_state"] = {str(oid): {f: repr(v) for f, v in fs.items()} for oid, fs in out["post"].items()}
    info["observed"]["stores"] = {str(oid): [(k, repr(v)) for k, v in st] for oid, st in out["stores"].items() if st}
    if clause_kind == "raises":
        # the obligation said: nothing (or only the declared classes under their conditions) may escape
        if out["kind"] != "raise":
            info["violated"] = False
            return info
        exc = out["exception"]
        allowed = False
        for cname, fn in con.raises.items():
            from .calls import exc_class_of
            from .repo import ExternalRef as ER

            k = cname
            try:
                real = ER(k).native() if ":" not in k else getattr(importlib.import_module(k.split(":")[0]), k.split(":")[1])
            except Exception:
                continue
            if isinstance(exc, real):
                conds = eval_clause(fn, spec, views, exc=None)
                s = z3.Solver()
                s.add(z3.Not(z3.And(*conds.values())) if conds else z3.BoolVal(False))
                if s.check() == z3.unsat:
                    allowed = True
        info["violated"] = not allowed
        return info
    if out["kind"] != "return":
        info["violated"] = None
        info["note"] = "real function raised instead of returning on this input"
        return info
    res = out["result"]
    rv = None
    if con.result is not None:
        rt = py_to_term(res, rev)
        rv = spec.view(SV(rt, ctx.resolve_ty(con.result)), new_h)
    if clause_kind == "result-shape":
        rt = py_to_term(res, rev)
        goal = ctx.resolve_ty(con.result).inv(rt, goal=True)
    else:
        clauses = eval_clause(con.ensures, spec, views, result=rv)
        if label not in clauses:
            info["violated"] = None
            info["note"] = "clause %s not found" % label
            return info
        goal = clauses[label]
    s = z3.Solver()
    s.set("timeout", 10000)
    s.add(z3.Not(goal))
    r = s.check()
    info["violated"] = True if r == z3.sat else False if r == z3.unsat else None
    return info
