"""Concretise solver models into real Python objects, run the REAL function under CPython, and evaluate the
contract's own clauses on what it did.  Used for (a) replaying counterexamples, (b) the differential check of
the encoding against CPython, (c) native search for a failing input."""
import fractions
import importlib
import math
import traceback

import z3

from . import z as Z
from .engine import *
from .contracts import Spec, ObjView, N
from .calls import eval_clause, views_of, _attach_trace, exc_class_of
from .repo import FunctionInfo, ExternalRef as ER
from .concrete import HeapBuilder, holds


class NotConcretisable(Exception):
    pass


LOG = []  # global, ordered event log of the stub collaborators of the current run


class StubBase:
    """stub collaborator: plain attributes; attribute stores and declared method calls are logged in order"""

    def __init__(self, **kw):
        object.__setattr__(self, "_stores", [])
        for k, v in kw.items():
            object.__setattr__(self, k, v)

    def __setattr__(self, k, v):
        self._stores.append((k, v))
        LOG.append(("store", self, k, v))
        object.__setattr__(self, k, v)

    def __repr__(self):
        return "%s(%s)" % (type(self).__name__, ", ".join("%s=%r" % (k, v) for k, v in self.__dict__.items() if not k.startswith("_")))


StubPool = StubBase


class RecordingCallable:
    def __init__(self, kind, result=None, name="fn"):
        self.kind, self.result, self.name = kind, result, name
        self.__name__ = self.__qualname__ = name

    def __call__(self, *a, **k):
        LOG.append((self.kind, self) + tuple(a))
        if isinstance(self.result, BaseException):
            raise self.result
        return self.result

    def __repr__(self):
        return "<%s %s -> %r>" % (self.kind, self.name, self.result)


def make_stub_class(ty):
    """a stub class for an abstract collaborator; registered as a virtual subclass of the declared interfaces"""
    ns = {}
    for mname, mcon in ty.methods.items():
        def method(self, *a, _m=mname, _c=mcon, **k):
            LOG.append((_m, self) + tuple(a))
            return getattr(_c, "stub_result", None)

        ns[mname] = method
    bases = [StubBase]
    for k in getattr(ty, "isa", []):
        modname, cname = k.split(":")
        real = getattr(importlib.import_module(modname), cname)
        if hasattr(real, "register"):
            continue
    cls = type("Stub" + ty.name, tuple(bases), ns)
    for k in getattr(ty, "isa", []):
        modname, cname = k.split(":")
        real = getattr(importlib.import_module(modname), cname)
        try:
            real.register(cls)
        except Exception:
            pass
    return cls


_stub_classes = {}


def stub_class(ty):
    sc = _stub_classes.get(ty.name)
    if sc is None:
        sc = _stub_classes[ty.name] = make_stub_class(ty)
    return sc


def frac_of(term):
    return fractions.Fraction(term.numerator_as_long(), term.denominator_as_long())


def exact_float(fr):
    return fractions.Fraction(float(fr)) == fr


class Concretiser:
    def __init__(self, E, model, heap):
        self.E, self.m, self.heap = E, model, heap
        self.objs = {}  # id -> python object
        self.types = {}  # id -> shape
        self.inexact = False
        self.blank = set()
        self.relevant_kids = None  # class ids the obligation actually talks about (isa facts of others are noise)

    def ev(self, t):
        return self.m.eval(t, model_completion=True)

    def value(self, term, ty=None):
        v = z3.simplify(self.ev(term))
        d = v.decl().name()
        if isinstance(ty, TOpt):
            ty = None if d == "none" else ty.inner
        if d == "none":
            return None
        if d == "boolv":
            return z3.is_true(v.arg(0))
        if d == "numv":
            fr = frac_of(v.arg(1))
            if z3.is_true(v.arg(0)):
                if fr.denominator != 1:
                    raise NotConcretisable("int-flagged value with non-integral real %s" % fr)
                return int(fr)
            if not exact_float(fr):
                self.inexact = True
            return float(fr)
        if d == "infv":
            return -math.inf if z3.is_true(v.arg(0)) else math.inf
        if d == "nanv":
            return math.nan
        if d == "strv":
            return v.arg(0).as_string()
        if d == "refv":
            return self.obj(v.arg(0).as_long(), ty)
        raise NotConcretisable("value %s" % v)

    def py_of(self, x):
        """a python-level executor value (display of known shape with symbolic leaves) as the real Python object"""
        from .values import VDict, VSet, VTuple, VList, SV

        if isinstance(x, SV):
            return self.value(x.t, x.ty)
        if x is None or isinstance(x, (bool, int, float, str)):
            return x
        if isinstance(x, VDict) and getattr(x, "sym", None) is None:
            return {self.py_of(k): self.py_of(v) for k, v in x.items.items()}
        if isinstance(x, VSet):
            return {self.py_of(k) for k in x.items}
        if isinstance(x, VTuple):
            return tuple(self.py_of(k) for k in x.items)
        if isinstance(x, VList):
            return [self.py_of(k) for k in x.items]
        raise NotConcretisable("interned engine object %r" % (x,))

    def exception(self, oid):
        """an exception instance whose class realises the model's subclass facts"""
        from .engine import isa as isa_fn

        reg = self.E.classes
        cid = z3.simplify(self.ev(self.field(oid, "$cls")))
        if z3.is_int_value(cid) and cid.as_long() in reg.by_id:
            k = reg.by_id[cid.as_long()]
            nat = k.native() if isinstance(k, ER) else getattr(importlib.import_module(k.module.name), k.name)
            try:
                return nat()
            except TypeError:
                return nat("x", "y")
        true_classes = []
        for kid, k in reg.by_id.items():
            if self.relevant_kids is not None and kid not in self.relevant_kids:
                continue
            if isinstance(k, str) or not isinstance(k, ER):
                continue
            try:
                nat = k.native()
            except Exception:
                continue
            if not (isinstance(nat, type) and issubclass(nat, BaseException)):
                continue
            if z3.is_true(z3.simplify(self.ev(isa_fn(cid, z3.IntVal(kid))))):
                true_classes.append(nat)
        minimal = [a for a in true_classes if not any(b is not a and issubclass(b, a) for b in true_classes)] or [BaseException]
        try:
            cls = type("SymbolicFailure", tuple(minimal), {})
        except TypeError:
            cls = minimal[0]
        return cls("symbolic failure")

    def field(self, oid, name):
        arr = self.heap.get(name)
        if arr is None:
            raise NotConcretisable("no heap array for field %s" % name)
        return z3.Select(arr, z3.IntVal(oid))

    def seq_items(self, oid, elem_types=None, elem=None):
        if elem_types is None:
            n = z3.simplify(self.ev(self.field(oid, "$len"))).as_long()
            if n < 0 or n > 64:
                raise NotConcretisable("sequence length %d" % n)
        items = self.field(oid, "$item")
        out = []
        for k in range(n if elem_types is None else len(elem_types)):
            ety = elem_types[k] if elem_types is not None else elem
            out.append(self.value(z3.Select(items, z3.IntVal(k)), ety))
        return out

    def obj(self, oid, ty):
        if oid in self.objs:
            return self.objs[oid]
        if oid in self.E.interned:
            o = self.py_of(self.E.interned[oid])
            self.objs[oid] = o
            return o
        if isinstance(ty, TObj):
            cls = ty.cls
            real = getattr(importlib.import_module(cls.module.name), cls.name)
            if issubclass(real, tuple) and hasattr(real, "_fields"):
                # typing.NamedTuple: immutable, built from its field values at once
                o = real(**{fname: self.value(self.field(oid, fname), ty.fields.get(fname)) for fname in real._fields})
                self.objs[oid] = o
                self.types[oid] = ty
                return o
            o = real.__new__(real) if issubclass(real, BaseException) else object.__new__(real)
            self.objs[oid] = o
            self.types[oid] = ty
            if oid not in self.blank:
                for fname, fty in ty.fields.items():
                    object.__setattr__(o, fname, self.value(self.field(oid, fname), fty))
            return o
        if isinstance(ty, TExc):
            o = self.exception(oid)
            self.objs[oid] = o
            self.types[oid] = ty
            return o
        if isinstance(ty, TAbs) and getattr(ty, "real", None) is not None:
            vals = {fname: self.value(self.field(oid, fname), fty) for fname, fty in ty.fields.items()}
            o = ty.real(vals)
            self.objs[oid] = o
            self.types[oid] = ty
            return o
        if isinstance(ty, TAbs):
            o = stub_class(ty)()
            self.objs[oid] = o
            self.types[oid] = ty
            for fname, fty in ty.fields.items():
                object.__setattr__(o, fname, self.value(self.field(oid, fname), fty))
            for fname, fty in getattr(ty, "optional", {}).items():
                if "has:" + fname in self.heap and self.value(self.field(oid, "has:" + fname)) is True:     # (no array: the path never looked - absent will do)
                    object.__setattr__(o, fname, self.value(self.field(oid, fname), fty))
            o._stores.clear()
            return o
        if isinstance(ty, TTuple):
            o = tuple(self.seq_items(oid, elem_types=ty.elems))
            self.objs[oid] = o
            self.types[oid] = ty
            return o
        if isinstance(ty, TSeq):
            items = self.seq_items(oid, elem=ty.elem)
            if ty.kind == "tuple":
                o = tuple(items)
            elif ty.kind == "dict-items":
                o = dict(items)
            else:
                o = list(items)
            self.objs[oid] = o
            self.types[oid] = ty
            return o
        if isinstance(ty, TFn):
            o = RecordingCallable(getattr(ty.contract, "event_kind", "call"), getattr(ty.contract, "stub_result", None), "f%d" % oid)
            self.objs[oid] = o
            self.types[oid] = ty
            return o
        raise NotConcretisable("object of shape %s" % (ty.describe() if ty else None))


def how_to_call(fi, con):
    """python callable(args dict) running the real function"""
    modname = fi.module.name
    qual = fi.qualname

    def run(args):
        mod = importlib.import_module(modname)
        parts = qual.split(".")
        a = fi.node.args
        names = [x.arg for x in a.posonlyargs + a.args]
        kw = {x.arg: args[x.arg] for x in a.kwonlyargs if x.arg in args}
        star = list(args[a.vararg.arg]) if a.vararg is not None and a.vararg.arg in args else []
        if a.kwarg is not None and isinstance(args.get(a.kwarg.arg), dict):
            kw.update(args[a.kwarg.arg])          # **kwargs given as a display of known keys
        if fi.cls is not None and "staticmethod" not in fi.decorators:
            self_obj = args[names[0]]
            rest = [args[n] for n in names[1:]] + star
            if parts[-1] == "getter":
                return getattr(self_obj, parts[-2])
            if parts[-1] == "setter":
                return setattr(self_obj, parts[-2], rest[0])
            real = getattr(mod, parts[0])
            f = real.__dict__.get(parts[1]) or getattr(real, parts[1])
            r = f(self_obj, *rest, **kw)
            return _drive(r)
        if fi.cls is not None:
            real = getattr(mod, parts[0])
            return _drive(getattr(real, parts[1])(*[args[n] for n in names] + star, **kw))
        f = getattr(mod, parts[0])
        return _drive(f(*[args[n] for n in names] + star, **kw))

    return run


def _drive(r):
    """run a coroutine returned by an async function under a stub of trio.sleep (logged, never really sleeping)"""
    import inspect

    if not inspect.iscoroutine(r):
        return r
    raise NotConcretisable("coroutine function: native run needs an event loop driver")


def _event_terms(spec, hb, log):
    out = []
    for entry in log:
        kind = entry[0]
        args = [hb.term(x) for x in entry[1:5]]
        out.append(spec.event(kind, *args))
    return out


def isa_kids(formulas):
    """class ids that occur as second argument of isa(...) in the given formulas"""
    out, seen, todo = set(), set(), list(formulas)
    while todo:
        e = todo.pop()
        if e.get_id() in seen:
            continue
        seen.add(e.get_id())
        if z3.is_app(e) and e.decl().name() == "isa" and z3.is_int_value(e.arg(1)):
            out.add(e.arg(1).as_long())
        if z3.is_quantifier(e):
            todo.append(e.body())
        else:
            todo.extend(e.children())
    return out


def _display_type(x):
    """the heap shape a tuple display with typed symbolic leaves is re-encoded under (None: not such a display)"""
    from .values import VTuple

    if isinstance(x, VTuple):
        tys = [(i.ty if isinstance(i, SV) else _display_type(i)) for i in x.items]
        if all(t is not None for t in tys):
            return TTuple(*tys)
    return None


def run_and_check(E, con, fi, bound, model, heap0, want=None, relevant_kids=None):
    """concretise the model's inputs, run the real function, evaluate the contract's clauses on the real outcome.
    returns info dict with 'violated': list of violated clause labels (or ['raises'])"""
    conc = Concretiser(E, model, heap0)
    conc.relevant_kids = relevant_kids
    if con.new_object:
        sv = bound[con.new_object]
        conc.blank.add(z3.simplify(model.eval(Z.Val.id(sv.t), model_completion=True)).as_long())
    args = {}
    types = {}
    for name, sv in bound.items():
        if isinstance(sv, SV):
            args[name] = conc.value(sv.t, sv.ty)
            types[name] = sv.ty
        elif _display_type(sv) is not None:
            args[name] = conc.py_of(sv)          # a display of known size with symbolic leaves (e.g. *args of n pairs)
            types[name] = _display_type(sv)
        else:
            raise NotConcretisable("parameter %s is an engine-level value %r" % (name, sv))
    info = check_args(E, con, fi, args, types, want=want)
    info["inexact_floats"] = conc.inexact
    return info


def check_args(E, con, fi, args, types, want=None, check_requires=False):
    """run the real function on concrete arguments and evaluate the contract's clauses on what it did"""
    global LOG
    ctx = Ctx(E, [], "replay-eval")
    ctx.concrete = True

    def valid(f, tmo=20000):
        """validity of a clause on the concrete state, under the definitional facts collected while building it (fold unfoldings)"""
        from .concrete import ground, mentions_setsum

        if mentions_setsum(f) or ctx.ghost.get("setsum_axioms"):
            # set sums: evaluated explicitly over the known objects (the axioms of the uninterpreted ssum are not needed then)
            known = list(hb0.ids.values()) + (list(hb1_ids) if hb1_ids else [])
            pc = [p for p in ctx.pc if not z3.is_quantifier(p)]
            g = ground(f, known)
            return holds(z3.Implies(z3.And(*pc), g) if pc else g, tmo)
        return holds(z3.Implies(z3.And(*ctx.pc), f) if ctx.pc else f, tmo)

    hb1_ids = []
    hb0 = HeapBuilder(ctx)
    cb0 = {name: SV(hb0.encode(args[name], types[name]), types[name]) for name in args}
    old_h = hb0.heap()
    ctx.assume(ctx.alloc0 == hb0.next)       # objects created during the call get the ids after those of the entry state
    info = {"inputs": {k: _describe(v) for k, v in args.items()}}
    if check_requires:
        pre = Spec(ctx, old_h, old_h)
        pre.tr, pre.trlen, pre.tr_old_len = z3.K(z3.IntSort(), pre.event("none")), z3.IntVal(0), z3.IntVal(0)
        shapes_ok = z3.And(*[sv.ty.inv(sv.t, goal=True) for sv in cb0.values()])
        cl = eval_clause(con.requires, pre, views_of(pre, cb0, old_h))
        if valid(z3.And(shapes_ok, *cl.values()), 5000) is not True:
            info["violated"] = None
            info["note"] = "input does not satisfy the precondition"
            return info
    del LOG[:]
    runner = how_to_call(fi, con)
    kind = "return"
    result = exc = None
    try:
        result = runner(args)
    except NotConcretisable:
        raise
    except BaseException as e:  # noqa
        kind, exc = "raise", e
    log = list(LOG)
    # re-encode every reachable object in its post-state, keeping the pre-state ids
    hb1 = HeapBuilder(ctx, preset=hb0.ids, next_id=hb0.next, keep=hb0.keep)
    cb1 = {}
    for name in args:
        cb1[name] = SV(hb1.encode(args[name], types[name]), types[name])
    rv_term = None
    if kind == "return" and con.result is not None and not isinstance(con.result, TNone):
        rty = ctx.resolve_ty(con.result)
        rv_term = hb1.encode(result, rty)
    new_h = hb1.heap()
    hb1_ids = list(hb1.ids.values())
    spec = Spec(ctx, old_h, new_h)
    spec.mode = "prove"
    evs = _event_terms(spec, hb1, log)
    tr = z3.K(z3.IntSort(), spec.event("none"))
    for i, e in enumerate(evs):
        tr = z3.Store(tr, z3.IntVal(i), e)
    spec.tr, spec.trlen, spec.tr_old_len = tr, z3.IntVal(len(evs)), z3.IntVal(0)
    new_h = hb1.heap()
    spec.new_heap = new_h
    views = views_of(spec, cb1, new_h)
    info["observed"] = {"kind": kind, "events": [(e[0],) + tuple(_describe(x) for x in e[1:]) for e in log][:20]}
    info["observed"]["post_state"] = {k: _describe(v) for k, v in args.items()}
    violated = []
    if kind == "raise":
        info["observed"]["exception"] = "%s: %s" % (type(exc).__name__, exc)
        allowed = False
        for cname, fn in con.raises.items():
            try:
                real = ER(cname).native() if ":" not in cname else getattr(importlib.import_module(cname.split(":")[0]), cname.split(":")[1])
            except Exception:
                continue
            if isinstance(exc, real):
                et = hb1.term(exc)
                conds = eval_clause(fn, spec, views, exc=ObjView(spec, et, TExc(), hb1.heap()))
                if not conds or valid(z3.And(*conds.values())) is True:
                    allowed = True
        if not allowed:
            violated.append("raises")
        info["violated"] = violated
        return info
    info["observed"]["result"] = _describe(result)
    if con.never_returns:
        violated.append("never-returns")
    rv = None
    if rv_term is not None:
        rty = ctx.resolve_ty(con.result)
        if valid(rty.inv(rv_term, goal=True)) is not True:
            violated.append("result-shape")
        rv = spec.view(SV(rv_term, rty), new_h)
    clauses = eval_clause(con.ensures, spec, views, result=rv)
    for lab, f in clauses.items():
        if want is not None and lab not in want:
            continue
        r = valid(f)
        if r is False:
            violated.append(lab)
    info["violated"] = violated
    return info


# ------------------------------------------------------------------------------------------ native search
NUM_POOL = [0, 1, 2, 3, -1, -2, 0.5, 1.5, 2.5, -1.25, 7.5, 10, 0.0, 1.0]
STR_POOL = ["a", "b", "c", "logging", "x y", "k=v", ""]
EXC_POOL = [ValueError, KeyError, RuntimeError, StopIteration, KeyboardInterrupt, SystemExit, TypeError, LookupError]


def gen_value(E, ctx, ty, rng, depth=0):
    import math

    ty = ctx.resolve_ty(ty)
    if ty is None or isinstance(ty, TAny):
        return rng.choice([None, 0, 1, "s", 2.5, "", False, [], (), {"x": 1}, [1, 2]])
    if isinstance(ty, TOpt):
        return None if rng.random() < 0.3 else gen_value(E, ctx, ty.inner, rng, depth)
    if isinstance(ty, TNum):
        pool = list(NUM_POOL)
        if ty.inf:
            pool += [math.inf, -math.inf]
        if ty.only == "int":
            pool = [x for x in pool if isinstance(x, int)]
        if ty.only == "float":
            pool = [float(x) for x in pool]
        if ty.lo is not None:
            pool = [x for x in pool if x >= ty.lo]
        if ty.lo_strict is not None:
            pool = [x for x in pool if x > ty.lo_strict]
        if ty.hi is not None:
            pool = [x for x in pool if x <= ty.hi]
        return rng.choice(pool)
    if isinstance(ty, TBool):
        return rng.random() < 0.5
    if isinstance(ty, TStr):
        return rng.choice(STR_POOL)
    if isinstance(ty, TNone):
        return None
    if isinstance(ty, TExc):
        return rng.choice(EXC_POOL)("x")
    if depth > 4:
        raise NotConcretisable("shape too deep")
    if isinstance(ty, TObj):
        cls = ty.cls
        real = getattr(importlib.import_module(cls.module.name), cls.name)
        if issubclass(real, tuple) and hasattr(real, "_fields"):
            return real(**{f: gen_value(E, ctx, ty.fields.get(f), rng, depth + 1) for f in real._fields})
        o = object.__new__(real)
        for f, fty in ty.fields.items():
            object.__setattr__(o, f, gen_value(E, ctx, fty, rng, depth + 1))
        return o
    if isinstance(ty, TAbs):
        vals = {f: gen_value(E, ctx, fty, rng, depth + 1) for f, fty in ty.fields.items()}
        if getattr(ty, "real", None) is not None:
            return ty.real(vals)
        o = stub_class(ty)()
        for f, v in vals.items():
            object.__setattr__(o, f, v)
        for f, fty in getattr(ty, "optional", {}).items():
            if rng.random() < 0.5:
                object.__setattr__(o, f, gen_value(E, ctx, fty, rng, depth + 1))
        o._stores.clear()
        return o
    if isinstance(ty, TFn):
        rty = getattr(ty.contract, "result", None)
        res = gen_value(E, ctx, rty, rng, depth + 1) if rty is not None else None
        return RecordingCallable(getattr(ty.contract, "event_kind", None) or _event_kind_of(ty.contract), res, "f%d" % rng.randrange(1000))
    if isinstance(ty, TTuple):
        return tuple(gen_value(E, ctx, e, rng, depth + 1) for e in ty.elems)
    if isinstance(ty, TSeq):
        n = rng.choice([0, 1, 2, 2, 3])
        items = [gen_value(E, ctx, ty.elem, rng, depth + 1) for _ in range(n)]
        if ty.kind == "tuple":
            return tuple(items)
        if ty.kind == "dict-items":
            return dict(items)
        return items
    if type(ty).__name__ == "TSet":
        return {gen_value(E, ctx, ty.elem, rng, depth + 1) for _ in range(rng.choice([0, 1, 2, 3]))}
    if isinstance(ty, TMap):
        n = rng.choice([0, 1, 2, 3])
        return {gen_value(E, ctx, ty.key or TStr(), rng, depth + 1): gen_value(E, ctx, ty.val, rng, depth + 1) for _ in range(n)}
    raise NotConcretisable("no generator for shape %s" % ty.describe())


def _event_kind_of(con):
    # the event name an abstract callable emits: recorded by its contract's emits through ctx.emit(kind, ...)
    return getattr(con, "event_name", None) or con.key.split(":")[-1].split("#")[0]


def native_search(E, con, fi, seed=0, budget_s=8.0, max_samples=400):
    """search natively (no solver) for an input on which the REAL function breaks its contract: random inputs generated
    from the contract's shapes, filtered by the precondition, the contract's clauses evaluated on the real outcome"""
    import random
    import time as _t

    rng = random.Random(seed)
    ctx = Ctx(E, [], "native-search")
    t0 = _t.time()
    tried = accepted = 0
    if fi.is_async:
        return {"found": False, "why": "coroutine function: no native driver", "tried": 0}
    while _t.time() - t0 < budget_s and tried < max_samples:
        tried += 1
        try:
            args = {}
            types = {}
            custom = con.ns.get("gen_args") if hasattr(con, "ns") else None
            if custom is not None:
                # the sidecar's own generator of real inputs (states satisfying a representation invariant are rare under blind sampling)
                args = custom(rng)
                types = {name: ctx.resolve_ty(ty) for name, ty in con.params.items()}
            else:
                for name, ty in con.params.items():
                    if callable(ty) and not isinstance(ty, T):
                        raise NotConcretisable("parameter producer")
                    ty = ctx.resolve_ty(ty)
                    types[name] = ty
                    args[name] = gen_value(E, ctx, ty, rng)
            if con.new_object:
                o = args[con.new_object]
                for k in list(vars(o)):
                    object.__delattr__(o, k)
            info = check_args(E, con, fi, args, types, check_requires=True)
        except NotConcretisable as nc:
            return {"found": False, "why": "not concretisable: %s" % nc, "tried": tried}
        except Exception as ex:  # noqa
            continue
        if info.get("violated") is None:
            continue
        accepted += 1
        if info["violated"]:
            return {"found": True, "input": info["inputs"], "observed": info["observed"], "violated_clauses": info["violated"], "tried": tried, "accepted": accepted}
    return {"found": False, "tried": tried, "accepted": accepted}


def _describe(v, depth=0):
    try:
        return _describe_(v, depth)
    except Exception as ex:  # noqa  (describing an input must never fail the run: a real object's own __repr__ may be broken on a changed tree)
        return "<%s: cannot be described (%s)>" % (type(v).__name__, type(ex).__name__)


def _describe_(v, depth=0):
    if isinstance(v, (int, float, str, bool)) or v is None:
        return repr(v)
    if isinstance(v, (list, tuple)):
        return "%s%s%s" % ("[" if isinstance(v, list) else "(", ", ".join(_describe(x, depth + 1) for x in v), "]" if isinstance(v, list) else ")")
    if isinstance(v, dict):
        return "{%s}" % ", ".join("%s: %s" % (_describe(k, depth + 1), _describe(x, depth + 1)) for k, x in v.items())
    if isinstance(v, (StubBase, RecordingCallable)):
        return repr(v)
    if depth > 2:
        return "<%s>" % type(v).__name__
    d = getattr(v, "__dict__", None)
    if d is not None:
        return "%s(%s)" % (type(v).__name__, ", ".join("%s=%s" % (k, _describe(x, depth + 1)) for k, x in d.items() if not k.startswith("__")))
    return repr(v)


# ---- kept for the differential check -------------------------------------------------------------
def snapshot_objects(conc):
    snap = {}
    for oid, o in list(conc.objs.items()):
        ty = conc.types.get(oid)
        if isinstance(ty, TAbs) and getattr(ty, "observe", None) is not None:
            snap[oid] = dict(ty.observe(o))
        elif isinstance(ty, (TObj, TAbs)):
            snap[oid] = {f: getattr(o, f, None) for f in ty.fields}
    return snap


def run_real(E, con, fi, bound, model, heap0, ctx):
    """concretise the inputs of a model, run the real function; returns a dict describing the concrete run"""
    global LOG
    conc = Concretiser(E, model, heap0)
    if con.new_object:
        sv = bound[con.new_object]
        conc.blank.add(z3.simplify(model.eval(Z.Val.id(sv.t), model_completion=True)).as_long())
    args = {}
    for name, sv in bound.items():
        if isinstance(sv, SV):
            args[name] = conc.value(sv.t, sv.ty)
        else:
            args[name] = conc.py_of(sv)           # a display with symbolic leaves (raises NotConcretisable for anything else)
    # every object of the entry state lies below the allocation frontier; a model that puts one beyond it (through an unconstrained
    # default of a heap array) would make it collide with the objects the run allocates - such a model is not a usable input
    a0 = z3.simplify(model.eval(ctx.alloc0, model_completion=True))
    beyond = z3.is_int_value(a0) and any(isinstance(oid, int) and oid >= a0.as_long() for oid in conc.objs if oid not in conc.blank and oid not in E.interned)
    pre = snapshot_objects(conc)
    del LOG[:]
    outcome = {"inputs": {k: _describe(v) for k, v in args.items()}, "inexact_floats": conc.inexact}
    runner = how_to_call(fi, con)
    try:
        r = runner(args)
        outcome["kind"] = "return"
        outcome["result"] = r
    except NotConcretisable:
        raise
    except BaseException as e:  # noqa
        outcome["kind"] = "raise"
        outcome["exception"] = e
        outcome["exception_repr"] = "%s: %s" % (type(e).__name__, e)
    outcome["post"] = snapshot_objects(conc)
    outcome["pre"] = pre
    outcome["conc"] = conc
    outcome["entry_object_beyond_frontier"] = bool(beyond)
    outcome["nevents"] = len(LOG)
    outcome["stores"] = {oid: list(getattr(o, "_stores", [])) for oid, o in conc.objs.items()}
    return outcome
