"""Per-function verification driver: explore paths, collect obligations, discharge them."""
import os
import subprocess
import tempfile
import time
import traceback

import z3

from . import z as Z
from .engine import *
from .interp import Interp, Coro
from .calls import run_body, eval_clause, views_of, exc_class_of, _attach_trace, short
from .contracts import Spec, Contract, ObjView, _term
from . import loops as _loops  # noqa: attaches Spec.sum / Spec.lemma

Z3_TIMEOUT_MS = int(os.environ.get("VERIF_Z3_TIMEOUT_MS", "10000"))
CVC5_TIMEOUT_S = int(os.environ.get("VERIF_CVC5_TIMEOUT_S", "30"))
MAX_PATHS = int(os.environ.get("VERIF_MAX_PATHS", "4000"))


VACUITY_TIMEOUT_MS = 2000


class FunctionResult:
    def __init__(self, key):
        self.key = key
        self.obligations = []
        self.paths = 0
        self.paths_by_outcome = {}
        self.unsupported = []  # (path, message)
        self.engine_errors = []
        self.missing = False
        self.requires_sat = None
        self.notes = []
        self.inlined = []
        self.sha = None
        self.span = None
        self.file = None
        self.seconds = 0.0
        self.path_models = []  # (path label, decisions, outcome kind) for the differential check
        self.vacuous_paths = []  # paths whose full path condition is contradictory

    def summary(self):
        st = {}
        for o in self.obligations:
            st[o["status"]] = st.get(o["status"], 0) + 1
        return st


def symbolic_params(ctx, con, fi):
    """fresh symbolic arguments according to the contract's shapes"""
    bound = {}
    from . import engine as _eng

    _stable = _eng.stable_param_names()
    for name, ty in con.params.items():
        if callable(ty) and not isinstance(ty, T):
            with _stable:
                bound[name.lstrip("*")] = ty(ctx)
            continue
        ty = ctx.resolve_ty(ty)
        t = z3.Const("p_%s" % name, Z.Val)
        sv = ctx.typed(t, ty)
        if isinstance(ty, TExc):
            from .repo import ExternalRef as _ER

            bc = ctx.repo.get(ty.bound) if ":" in ty.bound else _ER(ty.bound)
            I0 = Interp(ctx)
            ctx.assume(I0.isa_term(sv, _ER("BaseException")))
            ctx.assume(I0.isa_term(sv, bc))
            ctx.assume(z3.Select(ctx.field_array("$cls"), Z.Val.id(t)) >= 1000)
        if isinstance(ty, TRef):
            ctx.assume(Z.Val.id(t) < ctx.alloc0)
            ctx.assume_class(t, ty)
            if con.new_object == name:
                # object under construction: no instance attribute exists yet
                ctx.partial_objs.add(z3.simplify(Z.Val.id(t)).sexpr())
            else:
                ctx.touch(sv)
        bound[name] = sv
    return bound


def check_exit(I, con, bound, old_heap, tr_old_len, outcome, value):
    """obligations at a function exit"""
    ctx = I.ctx
    if outcome == "return" and con.result is not None and not isinstance(con.result, TNone):
        from .objects import materialise_for

        value = materialise_for(I, value, con.result)   # a returned display where the contract speaks of a heap container
    new_heap = ctx.snapshot()
    spec = Spec(ctx, old_heap, new_heap)
    spec.mode = "prove"
    _attach_trace(spec, ctx, tr_old_len)
    views = views_of(spec, bound, new_heap)
    name = short(con.key)
    if outcome == "return" and con.never_returns:
        ctx.oblige("%s/never-returns" % name, False, kind="post")
    if outcome == "return":
        rty = con.result
        if rty is not None and not isinstance(rty, TNone):
            if value is None and not isinstance(rty, (TAny, TOpt)):
                ctx.oblige("%s/result-shape" % name, False, kind="post")
            else:
                from .objects import materialise_for

                value = materialise_for(I, value, rty)
                sv = ctx.to_val(value)
                rty = ctx.resolve_ty(rty)
                ctx.oblige("%s/result-shape" % name, rty.inv(sv.t, goal=True), kind="post")
                value = SV(sv.t, rty)
        elif isinstance(rty, TNone):
            sv = ctx.to_val(value)
            ctx.oblige("%s/result-shape" % name, Z.is_none(sv.t), kind="post")
        spec.result = value
        rv = spec.view(value, new_heap) if value is not None else None
        for lab, f in eval_clause(con.ensures, spec, views, result=rv).items():
            ctx.oblige("%s/ensures[%s]" % (name, lab), f, kind="post")
    else:
        exc = value
        goals = []
        labels = []
        for cname, fn in con.raises.items():
            cls = exc_class_of(I, cname)
            m = I.isa_term(exc, cls)
            m = z3.BoolVal(m) if isinstance(m, bool) else m
            conds = eval_clause(fn, spec, views, exc=ObjView(spec, exc.t, exc.ty, new_heap))
            goals.append(z3.And(m, *conds.values()))
            labels.append(cname)
        cidt = I.exc_class_term(exc)
        cname = ""
        if z3.is_int_value(cidt):
            k = I.E.classes.by_id[cidt.as_long()]
            cname = getattr(k, "name", None) or getattr(k, "dotted", "")
        ctx.oblige("%s/raises[%s]" % (name, "|".join(labels) or "nothing"), z3.Or(*goals) if goals else z3.BoolVal(False), kind="post", meta={"raised": cname})
    # frame
    check_frame(I, con, spec, views, old_heap, name)
    if not con.has_events:
        ctx.oblige("%s/no-events" % name, ctx.trlen == tr_old_len, kind="frame")


def check_frame(I, con, spec, views, old_heap, name):
    ctx = I.ctx
    oldviews = views_of(Spec(ctx, old_heap, old_heap), {k: v for k, v in views.items()}, old_heap) if False else None
    allowed = {}
    if con.writes is not None:
        # the write set is evaluated in the pre-state
        pre = Spec(ctx, old_heap, old_heap)
        pviews = {k: pre.old(v) if hasattr(v, "_heap") else v for k, v in views.items()}
        for w in con.writes(pre, **pviews):
            if w[0] == "all":
                allowed.setdefault(w[1], []).append(w[2])
            else:
                objv, fname = w
                idt = objv.id if hasattr(objv, "id") else Z.Val.id(_term(objv))
                allowed.setdefault(fname, []).append(lambda x, idt=idt: x == idt)
    # every heap location written by the code itself (directly or through a callee's frame) lies in the declared
    # frame or belongs to an object allocated during the call; what the ENVIRONMENT changes meanwhile is not a write
    seen = set()
    x = z3.Int("fx")
    new_id = None
    if con.new_object and hasattr(views.get(con.new_object), "t"):
        # the object under construction is as good as allocated by the call: whatever __init__ stores into it (also private attributes
        # no clause mentions) is inside the frame; what it must hold afterwards is said by the postconditions
        new_id = Z.Val.id(views[con.new_object].t)
    for fname, kind, what in ctx.own_stores:
        if fname in ("__context__", "__cause__", "__suppress_context__") or fname.startswith("$ghost") or fname.startswith("rec:") or fname.startswith("$arg") or fname == "$nargs":
            continue
        preds = allowed.get(fname, [])
        if kind == "id":
            key = (fname, what.sexpr())
            if key in seen:
                continue
            seen.add(key)
            inW = z3.Or(*[p(what) for p in preds]) if preds else z3.BoolVal(False)
            if new_id is not None:
                inW = z3.Or(inW, what == new_id)
            ctx.oblige("%s/frame[%s]" % (name, fname), z3.Or(what >= ctx.alloc0, inW), kind="frame")
        else:
            inW = z3.Or(*[p(x) for p in preds]) if preds else z3.BoolVal(False)
            if new_id is not None:
                inW = z3.Or(inW, x == new_id)
            goal = z3.ForAll([x], z3.Implies(z3.And(x < ctx.alloc0, what(x)), inW))
            key = (fname, goal.sexpr())
            if key in seen:
                continue
            seen.add(key)
            ctx.oblige("%s/frame[%s]" % (name, fname), goal, kind="frame")


def run_decorated(I, con, fi, bound):
    """the function AS ITS DECORATORS LEAVE IT: the decorator expressions are evaluated by the interpreter on the raw function (so the real
    code of an in-repo decorator runs), `after_decoration` may arrange the state the wrapper starts from (e.g. a guard that is held), then
    the resulting callable is called with the contract's arguments"""
    from .engine import Frame

    ctx = I.ctx

    def decorate(f):
        mframe = Frame(None, {}, [], f.module)
        mframe.cls_ctx = f.cls
        fn = Closure(f, [])
        fn.cls_ctx = f.cls
        fn.is_raw = True          # what the wrappers call is the undecorated function
        out = fn
        for d in reversed(f.node.decorator_list):
            out = I.call(I.eval(mframe, d), [out], {})
        return out

    # class-definition time: every method of the class that carries decorators of the repository gets its wrapper ONCE (guards are shared
    # by all calls); calls of these methods from the body go through the wrappers (calls.invoke)
    decorated = {}
    siblings = [m for m in (fi.cls.members.values() if fi.cls is not None else []) if isinstance(m, FunctionInfo)] or [fi]
    for m in siblings:
        if not getattr(m.node, "decorator_list", None):
            continue
        if m is not fi and not all(_decorator_from_repo(I, m, d) for d in m.node.decorator_list):
            continue
        try:
            decorated[m.key] = decorate(m)
        except Unsupported:
            if m is fi:
                raise
    fn = decorated.get(fi.key)
    for k, v in decorated.items():
        if not (isinstance(v, Closure) and getattr(v, "is_raw", False)):
            ctx.ghost[("decorated", k)] = v
    hook = getattr(con, "after_decoration", None)
    if hook is not None:
        hook(ctx, I, [v for v in decorated.values()], bound)
    ctx.own_stores = []          # what decorating does (at class-definition time) is not a write of the call
    a = fi.node.args
    names = [x.arg for x in a.posonlyargs + a.args]
    if fn is None:
        value = run_body(I, fi, dict(bound), [], fi.cls)       # the function itself carries no decorator: its own body (its callees may)
    else:
        value = I.call(fn, [bound[n] for n in names], {})
    if isinstance(value, Coro):
        value = value.thunk()
    return value


def _decorator_from_repo(I, f, d):
    """the decorator expression names a function defined in the repository (e.g. exclusive()), not a library one (property, staticmethod ...)"""
    import ast as _ast

    node = d.func if isinstance(d, _ast.Call) else d
    if not isinstance(node, _ast.Name):
        return False
    r = I.repo.resolve_global(f.module, node.id)
    return isinstance(r, FunctionInfo) or (isinstance(r, tuple) and r and r[0] == "import" and str(r[1]).startswith("cobald"))


def explore(E, con, fi, res, body_runner=None):
    pending = [[]]
    npaths = 0
    all_obs = []
    while pending:
        prefix = pending.pop()
        if npaths >= MAX_PATHS:
            res.unsupported.append(("*", "path budget of %d exceeded" % MAX_PATHS))
            break
        label = "p%d" % npaths
        npaths += 1
        ctx = Ctx(E, prefix, label, top_contract=con)
        I = Interp(ctx)
        outcome = None
        try:
            bound = symbolic_params(ctx, con, fi)
            if con.setup is not None:
                con.setup(ctx, I, bound)
                ctx.own_stores = []      # the sidecar's construction of the entry state is not a write of the code under verification
            old_heap = ctx.snapshot()
            pre = Spec(ctx, old_heap, old_heap)
            _attach_trace(pre, ctx, ctx.trlen)
            for lab, f in eval_clause(con.requires, pre, views_of(pre, bound, old_heap)).items():
                ctx.assume(f)
            if not ctx.feasible():
                raise PathEnd()
            # snapshot again: typed loads during requires may have added field arrays
            old_heap = ctx.snapshot()
            tr_old_len = ctx.trlen
            ctx.ghost["entry"] = (old_heap, tr_old_len, bound)
            if con.published is not None:
                def hook(what, _ctx=ctx, _bound=bound, _old=old_heap, _tr=tr_old_len):
                    sp = Spec(_ctx, _old, _ctx.snapshot())
                    sp.mode = "prove"
                    _attach_trace(sp, _ctx, _tr)
                    for lab, f in eval_clause(con.published, sp, views_of(sp, _bound, sp.new_heap)).items():
                        _ctx.oblige("%s/published[%s]" % (short(con.key), lab), f, kind="invariant", meta={"after": what})
                ctx.store_hook = hook
            try:
                if getattr(con, "decorated", False):
                    value = run_decorated(I, con, fi, bound)
                elif body_runner is not None:
                    value = body_runner(I, fi, bound)
                else:
                    value = run_body(I, fi, dict(bound), getattr(con, "closure_env", None) and con.closure_env(ctx, I, bound) or [], fi.cls)
                    if isinstance(value, Coro):
                        value = value.thunk()
                outcome = "return"
            except PyRaise as pr:
                outcome = "raise"
                value = pr.exc
            except (BreakSig, ContinueSig):
                raise EngineError("break/continue escaped a function body")
            check_exit(I, con, bound, old_heap, tr_old_len, outcome, value)
        except PathEnd:
            outcome = outcome or "end"
        except Unsupported as u:
            res.unsupported.append((label, str(u)))
            outcome = "unsupported"
        except EngineError as ee:
            res.engine_errors.append((label, str(ee)))
            outcome = "engine-error"
        except z3.Z3Exception as ze:
            res.engine_errors.append((label, "z3: %s\n%s" % (ze, traceback.format_exc())))
            outcome = "engine-error"
        res.paths_by_outcome[outcome] = res.paths_by_outcome.get(outcome, 0) + 1
        if os.environ.get("VERIF_DEBUG_EVENTS"):
            print("PATH", label, outcome, ctx.decisions, [(k, [z3.simplify(a).sexpr()[:40] for a in e.children()[1:4]]) for k, e in (ctx.events or [])])
        for n in ctx.notes:
            if n not in res.notes:
                res.notes.append(n)
        all_obs.extend(ctx.obligations)
        pending.extend(ctx.alternatives)
    res.paths = npaths
    return all_obs


# ------------------------------------------------------------------------------------------ solving
def discharge(ob, thorough=False):
    t0 = time.time()
    s = z3.Solver()
    s.set("timeout", Z3_TIMEOUT_MS)
    for f in ob.pc:
        s.add(f)
    s.add(z3.Not(ob.goal))
    r = s.check()
    ob.backend = "z3"
    if r == z3.unsat:
        ob.status = "discharged"
    elif r == z3.sat:
        ob.status = "refuted"
        ob.model = s.model()
    else:
        ob.status = "undecided"
        ob.detail = "z3: %s" % s.reason_unknown()
        _retry_unknown(ob)
    z3_status = ob.status
    if ob.status == "undecided" or thorough:
        st, detail = cvc5_check(s)
        if ob.status == "undecided":
            if st == "unsat":
                ob.status, ob.backend = "discharged", "cvc5"
            elif st == "sat":
                ob.status, ob.backend = "refuted", "cvc5"
                ob.detail += " | cvc5: sat (no model imported)"
            else:
                ob.detail += " | cvc5: %s" % detail
        else:
            ob.meta["cvc5"] = st
            if (st == "unsat" and z3_status == "refuted") or (st == "sat" and z3_status == "discharged"):
                ob.status = "solver-disagreement"
                ob.detail = "z3=%s cvc5=%s" % (z3_status, st)
    ob.seconds = time.time() - t0
    return ob


def _alternates(f):
    """does the formula contain a quantifier nested in another quantifier (or an existential at all)?"""
    todo = [(f, 0)]
    seen = set()
    while todo:
        e, depth = todo.pop()
        if (e.get_id(), depth) in seen:
            continue
        seen.add((e.get_id(), depth))
        if z3.is_quantifier(e):
            if depth >= 1 or not e.is_forall():
                return True
            todo.append((e.body(), depth + 1))
        else:
            todo.extend((ch, depth) for ch in e.children())
    return False


def _retry_unknown(ob):
    """z3 said unknown.  Retry (a) with other random seeds - an answer there is an answer to the same query - and
    (b) looking for a counter-model among small sequences (every $len <= 1, <= 2): `sat` under an extra
    restriction is still a model of the unrestricted query, so it counts as a refutation; `unsat` under a
    restriction proves nothing and is ignored."""
    # (c) proving from FEWER assumptions is always sound: drop the assumptions with quantifier alternation
    # (forall-exists facts such as "every key is claimed by some plugin" feed matching loops and are rarely needed)
    slim = [f for f in ob.pc if not _alternates(f)]
    if len(slim) < len(ob.pc):
        s = z3.Solver()
        s.set("timeout", Z3_TIMEOUT_MS)
        s.add(*slim)
        s.add(z3.Not(ob.goal))
        if s.check() == z3.unsat:
            ob.status = "discharged"
            ob.detail += " | retry without %d quantifier-alternating assumptions: unsat" % (len(ob.pc) - len(slim))
            return
    # (d) the same query in a FRESH z3 context: instantiation heuristics depend on the order in which terms were created in the
    # long-lived context of a worker (a query that is instant on its own can time out after hundreds of others); the answer to the
    # translated query is an answer to the same query
    try:
        c2 = z3.Context()
        s = z3.Solver(ctx=c2)
        s.set("timeout", Z3_TIMEOUT_MS)
        for f in ob.pc:
            s.add(f.translate(c2))
        s.add(z3.Not(ob.goal).translate(c2))
        r = s.check()
        if r == z3.unsat:
            ob.status = "discharged"
            ob.detail += " | retry in a fresh solver context: unsat"
            return
    except z3.Z3Exception:
        pass
    lens = z3.Const("H_$len", IntArr)
    x = z3.Int("bx")
    attempts = [("seed=11", None, 11), ("len<=1", z3.ForAll([x], z3.Select(lens, x) <= 1), 0), ("len<=2", z3.ForAll([x], z3.Select(lens, x) <= 2), 0), ("seed=23", None, 23)]
    for label, extra, seed in attempts:
        s = z3.Solver()
        s.set("timeout", max(3000, Z3_TIMEOUT_MS // 2))
        s.set("random_seed", seed)
        for f in ob.pc:
            s.add(f)
        s.add(z3.Not(ob.goal))
        if extra is not None:
            s.add(extra)
        r = s.check()
        if r == z3.sat:
            ob.status, ob.model = "refuted", s.model()
            ob.detail += " | retry %s: sat" % label
            return
        if r == z3.unsat and extra is None:
            ob.status = "discharged"
            ob.detail += " | retry %s: unsat" % label
            return


def cvc5_check(solver):
    smt = solver.to_smt2()
    # z3 prints (check-sat) at the end; cvc5 needs a logic and accepts the rest for the fragments used here
    text = "(set-logic ALL)\n" + smt
    with tempfile.NamedTemporaryFile("w", suffix=".smt2", delete=False) as fh:
        fh.write(text)
        path = fh.name
    try:
        p = subprocess.run(["/usr/bin/cvc5", "--strings-exp", "--tlimit=%d" % (CVC5_TIMEOUT_S * 1000), path], capture_output=True, text=True, timeout=CVC5_TIMEOUT_S + 5)
        out = (p.stdout or "").strip().splitlines()
        first = out[0] if out else ""
        if first in ("sat", "unsat", "unknown"):
            return first, first
        return "error", (p.stderr or p.stdout or "")[:200].replace("\n", " ")
    except subprocess.TimeoutExpired:
        return "timeout", "timeout"
    finally:
        os.unlink(path)


def static_obligations(E, con):
    """obligations decided by the engine on the AST itself (MRO / attribute resolution, wiring of names)"""
    out = []
    if con.static is None:
        return out
    for lab, val in con.static(E).items():
        ob = Obligation("%s/static[%s]" % (short(con.key), lab), [], z3.BoolVal(bool(val)), "ast", kind="static")
        ob.status = "discharged" if val else "refuted"
        ob.backend = "ast"
        ob.detail = "decided on the AST (class/attribute resolution)"
        out.append(ob)
    return out


def bounded_refutation(E, con, fi, obs, bound=2):
    """An undecided obligation is usually one that is FALSE but whose counter-model the solver cannot build through the
    quantifiers.  Re-generate the function's obligations in refutation mode (every sequence has <= `bound` items, the
    specification's quantifiers are expanded over that range) and look for a counter-model of the same-named
    obligation there.  `sat` under this extra restriction is a model of the unrestricted obligation too, so it counts
    as a refutation; `unsat`/`unknown` there proves nothing and leaves the obligation undecided."""
    wanted = {ob.full_name: ob for ob in obs if ob.status == "undecided"}
    E.bounded = bound
    try:
        res2 = FunctionResult(con.key)
        obs2 = explore(E, con, fi, res2)
    except Exception:  # noqa
        obs2 = []
    finally:
        E.bounded = None
    by_name = {}
    for o2 in obs2:
        by_name.setdefault(o2.name, []).append(o2)
    for full, ob in wanted.items():
        for o2 in by_name.get(ob.name, []):
            s = z3.Solver()
            s.set("timeout", Z3_TIMEOUT_MS)
            s.add(*o2.pc)
            s.add(z3.Not(o2.goal))
            if s.check() == z3.sat:
                ob.status = "refuted"
                ob.model = s.model()
                ob.pc, ob.goal = o2.pc, o2.goal
                ob.detail += " | refuted in bounded mode (sequences of at most %d items, quantifiers expanded): sat" % bound
                ob.meta["bounded_refutation"] = bound
                break


def empty_sets_refutation(obs):
    """Refutation of set-sum obligations the solver leaves `unknown` (their path conditions carry the set-sum axioms - quantified over
    ALL membership and field arrays - for which z3 cannot build a model).  Candidate interpretation: EVERY set of objects mentioned on
    the path is empty and every ground ssum / scard term is 0.  The query is the path condition WITHOUT the set-sum axioms, plus the
    candidate, plus the negated goal; the remaining quantified assumptions (representation invariants, frame facts) are within
    reach of z3's model-based instantiation.  `sat` is a genuine counter-model: read ssum / scard as the true sum / cardinality -
    they are 0 on the empty sets, exactly what the candidate fixed for every ground term, and the axioms are theorems about them
    (lean/SetSum.lean) - and the whole path condition holds while the goal fails."""
    from . import setsum as SS

    def is_axiom(q):
        # the axioms of pyvc/setsum.py bind variables named ax_*
        return z3.is_quantifier(q) and q.num_vars() > 0 and all(q.var_name(i).startswith("ax_") for i in range(q.num_vars()))

    def ground_terms(es):
        mems, sums, seen = {}, {}, set()

        def walk(e, bound):
            if z3.is_quantifier(e):
                walk(e.body(), True)
                return
            if not z3.is_app(e):
                return
            k = (e.get_id(), bound)
            if k in seen:
                return
            seen.add(k)
            for ch in e.children():
                walk(ch, bound)
            if bound and _has_var(e):
                return
            if e.sort() == SS.MemSort:
                mems[e.get_id()] = e
            if e.decl().name() in ("ssum", "scard"):
                sums[e.get_id()] = e
        for e in es:
            walk(e, False)
        return list(mems.values()), list(sums.values())

    for ob in obs:
        if ob.status != "undecided":
            continue
        axioms = [p for p in ob.pc if is_axiom(p)]
        if not axioms:
            continue
        rest = [p for p in ob.pc if not is_axiom(p)]
        mems, sums = ground_terms(list(ob.pc) + [ob.goal])
        cand = [m == SS.EMPTY for m in mems] + [t == 0 for t in sums]
        s = z3.Solver()
        s.set("timeout", 2 * Z3_TIMEOUT_MS)
        s.add(*rest)
        s.add(*cand)
        s.add(z3.Not(ob.goal))
        if s.check() == z3.sat:
            ob.status = "refuted"
            ob.model = s.model()
            ob.detail += (" | refuted with the candidate interpretation 'every set of objects on this path is empty' (path condition without the set-sum axioms + candidate "
                          "+ negated goal: sat; the axioms are theorems about the true sum, which is 0 on empty sets as the candidate fixes it)")
            ob.meta["empty_sets_refutation"] = True


def _has_var(e):
    if z3.is_var(e):
        return True
    if z3.is_app(e):
        return any(_has_var(c) for c in e.children())
    if z3.is_quantifier(e):
        return _has_var(e.body())
    return False


def witness_cover(E, con):
    """vacuity guard for preconditions the solver cannot satisfy by itself (quantified representation invariants):
    the sidecar names real objects, built by the real constructors, and the precondition is evaluated on them"""
    from .concrete import HeapBuilder, holds

    ctx = Ctx(E, [], "witness")
    ctx.concrete = True
    hb = HeapBuilder(ctx)
    objs = con.witness()
    bound = {}
    for name, ty in con.params.items():
        ty = ctx.resolve_ty(ty)
        bound[name] = SV(hb.encode(objs[name], ty), ty)
    heap = hb.heap()
    spec = Spec(ctx, heap, heap)
    spec.tr, spec.trlen, spec.tr_old_len = ctx.tr, ctx.trlen, ctx.trlen
    shapes_ok = z3.And(*[sv.ty.inv(sv.t, goal=True) for sv in bound.values()])
    cl = eval_clause(con.requires, spec, views_of(spec, bound, heap))
    r = holds(z3.Implies(z3.And(*ctx.pc), z3.And(shapes_ok, *cl.values())))
    return "sat" if r is True else "witness-does-not-satisfy-requires(%s)" % r


_DECORATORS_UNDERSTOOD = ("property", "staticmethod", "classmethod", "abc.abstractmethod", "abstractmethod", "overload", "contextmanager", "singledispatch", "stepwise",
                          "service(", "functools.wraps(", "wraps(", "exclusive(", "plugin_constraints(", "constraints(", "yaml_tag(", "control.add(")


def _is_cache_decorator(d):
    base = d.split("(")[0]
    return base in ("lru_cache", "functools.lru_cache", "cache", "functools.cache")


def _decorator_understood(d):
    """decorators whose effect the engine / the sidecars model (the ones the pinned tree uses), property setters, and the memoising
    decorators of functools, which are handled through their side condition (cache_side_condition)"""
    if _is_cache_decorator(d) or d.endswith(".setter") or d.endswith(".getter") or d.endswith(".register") or ".register(" in d:
        return True
    return any(d == k or (k.endswith("(") and d.startswith(k)) for k in _DECORATORS_UNDERSTOOD)


def cache_side_condition(E, con, fi, res):
    """functools.lru_cache / cache (assumed contract): calls whose arguments compare EQUAL share one cache entry (typed=False), so the
    wrapped function may only be memoised if equal arguments give IDENTICAL results.  Obligation: for two argument lists that are
    pairwise == (Python equality: True == 1 == 1.0), the body returns the same value."""
    from .values import SV
    from .engine import fresh_val

    if any("typed=True" in d for d in fi.decorators if _is_cache_decorator(d)):
        return []
    pending, out, npaths = [[]], [], 0
    while pending and npaths < 64:
        prefix = pending.pop()
        npaths += 1
        ctx = Ctx(E, prefix, "cache%d" % npaths, top_contract=con)
        I = Interp(ctx)
        try:
            a = symbolic_params(ctx, con, fi)
            b = {}
            for name, v in a.items():
                if not isinstance(v, SV):
                    raise Unsupported("lru_cache side condition: parameter %s is not a plain value" % name)
                b[name] = ctx.typed(fresh_val("q_" + name), v.ty)
                eq = I.equal(v, b[name])
                ctx.assume(z3.BoolVal(eq) if isinstance(eq, bool) else eq)
            old = ctx.snapshot()
            pre = Spec(ctx, old, old)
            _attach_trace(pre, ctx, ctx.trlen)
            for bound in (a, b):
                for lab, f in eval_clause(con.requires, pre, views_of(pre, bound, old)).items():
                    ctx.assume(f)
            ra = run_body(I, fi, dict(a), [], fi.cls)
            rb = run_body(I, fi, dict(b), [], fi.cls)
            ta, tb = ctx.to_val(ra).t, ctx.to_val(rb).t
            ctx.oblige("%s/lru_cache[equal-arguments-give-identical-results]" % short(con.key), ta == tb, kind="pre")
        except PathEnd:
            pass
        except PyRaise:
            pass            # a raising call is not cached
        except Unsupported as u:
            res.unsupported.append(("cache%d" % npaths, str(u)))
        out.extend(ctx.obligations)
        pending.extend(ctx.alternatives)
    return out


def verify_contract(E, con, thorough=False):
    res = FunctionResult(con.key)
    t0 = time.time()
    fi = E.repo.get(con.body_key or con.key)
    if con.skip_body:
        res.notes.append("body not verified here (abstract/external contract)")
        return res, []
    if con.key.startswith("static:"):
        res.requires_sat = "sat"
        return res, static_obligations(E, con)
    if not isinstance(fi, FunctionInfo):
        res.missing = True
        return res, []
    res.sha, res.span, res.file = fi.sha(), fi.span(), fi.module.path
    unknown_deco = [d for d in fi.decorators if not _decorator_understood(d)]
    if unknown_deco:
        # the function that runs is `decorator(body)`, not the body: without an assumed contract for the decorator nothing is decided
        res.unsupported.append(("*", "function is wrapped by decorator(s) without an assumed contract: %s" % ", ".join(unknown_deco)))
        return res, []
    obs = explore(E, con, fi, res)
    if any(_is_cache_decorator(d) for d in fi.decorators):
        obs.extend(cache_side_condition(E, con, fi, res))
    # vacuity: the precondition must be satisfiable
    ctx = Ctx(E, [], "cover")
    try:
        bound = symbolic_params(ctx, con, fi)
        if con.setup is not None:
            con.setup(ctx, Interp(ctx), bound)
        pre = Spec(ctx, ctx.snapshot(), None)
        _attach_trace(pre, ctx, ctx.trlen)
        for lab, f in eval_clause(con.requires, pre, views_of(pre, bound, pre.old_heap)).items():
            ctx.assume(f)
        s = z3.Solver()
        s.set("timeout", 3000 if any(z3.is_quantifier(f) for f in ctx.pc) else Z3_TIMEOUT_MS)   # quantified invariants: a model is out of reach anyway; what matters is that `unsat` is not derived
        s.add(*ctx.pc)
        res.requires_sat = str(s.check())
        if res.requires_sat == "unknown" and con.witness is not None:
            res.requires_sat = witness_cover(E, con)
    except Exception as ex:  # noqa
        res.requires_sat = "error: %s" % ex
    for ob in obs:
        discharge(ob, thorough)
    if any(ob.status == "undecided" for ob in obs):
        bounded_refutation(E, con, fi, obs)
    if any(ob.status == "undecided" for ob in obs):
        empty_sets_refutation(obs)
    # vacuity guard per path: the feasibility solver sees only the quantifier-free part of the path condition, so a contradiction that
    # involves a quantified fact (a callee's postcondition against the caller's trace, say) is invisible while exploring and makes EVERYTHING
    # on that path provable.  The full path condition at the end of every path must not be refutable.
    last = {}
    for ob in obs:
        if ob.kind != "static":
            last[ob.path] = ob
    res.vacuous_paths = []
    for path, ob in last.items():
        s = z3.Solver()
        s.set("timeout", VACUITY_TIMEOUT_MS)
        s.add(*ob.pc)
        if s.check() == z3.unsat:
            core_hint = ""
            res.vacuous_paths.append(path)
    obs.extend(static_obligations(E, con))
    res.seconds = time.time() - t0
    res.inlined = sorted(E.inlined)
    return res, obs


# ------------------------------------------------------------------------------------------ differential check
def differential(E, con, fi, max_paths=64):
    """Execute the real body symbolically with every in-repo callee INLINED (no callee contracts, so the
    semantics is deterministic), take a model of each completed path, run the real function natively on the
    concretised input and compare result / exception class / final fields / number of stores.
    A mismatch means the encoding of Python is wrong (engine error)."""
    from . import replay as R

    saved = E.contracts
    E.contracts = {k: c for k, c in saved.items() if c.kind != "repo"}
    stats = {"paths": 0, "validated": 0, "not_concretisable": 0, "mismatches": [], "skipped_havoc": 0, "inexact": 0}
    import ast as _ast

    if any(isinstance(n, (_ast.Yield, _ast.YieldFrom)) for n in _ast.walk(fi.node)):
        # a generator function: calling it natively runs nothing (it returns the generator / context manager) - nothing to compare
        stats["generator_not_compared"] = True
        return stats
    try:
        pending = [[]]
        while pending and stats["paths"] < max_paths:
            prefix = pending.pop()
            stats["paths"] += 1
            ctx = Ctx(E, prefix, "d%d" % stats["paths"], top_contract=con)
            I = Interp(ctx)
            try:
                bound = symbolic_params(ctx, con, fi)
                if con.setup is not None:
                    con.setup(ctx, I, bound)
                # displays (python-level lists / dicts / sets) are mutated IN PLACE by the symbolic run: remember their entry content,
                # the concrete run must start from it
                entry_displays = [(o, (dict(o.items) if isinstance(o, VDict) else list(o.items))) for o in list(E.interned.values()) if isinstance(o, (VList, VDict, VSet))]
                old_heap = ctx.snapshot()
                pre = Spec(ctx, old_heap, old_heap)
                _attach_trace(pre, ctx, ctx.trlen)
                for lab, f in eval_clause(con.requires, pre, views_of(pre, bound, old_heap)).items():
                    ctx.assume(f)
                old_heap = ctx.snapshot()
                tr_old = ctx.trlen
                try:
                    value = run_body(I, fi, dict(bound), [], fi.cls)
                    if isinstance(value, Coro):
                        value = value.thunk()
                    kind = "return"
                except PyRaise as pr:
                    kind, value = "raise", pr.exc
                if ctx.ghost.get("havocked") or ctx.ghost.get("nondet"):
                    stats["skipped_havoc"] += 1
                    pending.extend(ctx.alternatives)
                    continue
                s = z3.Solver()
                s.set("timeout", 5000)
                s.add(*ctx.pc)
                if s.check() != z3.sat:
                    pending.extend(ctx.alternatives)
                    continue
                m = s.model()
                heap0 = dict(old_heap) if con.setup is not None else dict(ctx.heap0)   # a sidecar-constructed entry state is the entry state
                for k in ctx.heap:
                    heap0.setdefault(k, ctx.heap0.get(k))
                exit_displays = [(o, o.items) for o, _ in entry_displays]
                for o, items0 in entry_displays:
                    o.items = items0
                try:
                    out = R.run_real(E, con, fi, bound, m, heap0, ctx)
                except (R.NotConcretisable, RecursionError):
                    # (RecursionError: the model's heap is cyclic where Python data cannot be - a sequence that contains itself)
                    stats["not_concretisable"] += 1
                    pending.extend(ctx.alternatives)
                    continue
                finally:
                    for o, items1 in exit_displays:
                        o.items = items1
                conc = out["conc"]
                out["bound"] = bound
                if conc.inexact:
                    stats["inexact"] += 1
                try:
                    mism = _compare(E, ctx, I, m, conc, out, kind, value, tr_old, con)
                except RecursionError:
                    stats["not_concretisable"] += 1
                    pending.extend(ctx.alternatives)
                    continue
                if mism and out.get("entry_object_beyond_frontier"):
                    # the model's entry state is not a state (an object beyond the allocation frontier collides with what the run allocates)
                    stats["ill_formed_model_not_compared"] = stats.get("ill_formed_model_not_compared", 0) + 1
                elif mism and conc.inexact:
                    # the model's real-valued inputs are not exactly representable as doubles: the concrete run starts from ROUNDED
                    # inputs, and a discontinuous operation (floor division) may then land on the other side - not comparable
                    stats["inexact_not_compared"] = stats.get("inexact_not_compared", 0) + 1
                elif out.get("admits_undecided"):
                    stats["admits_undecided_not_compared"] = stats.get("admits_undecided_not_compared", 0) + 1
                elif mism:
                    stats["mismatches"].append({"path": ctx.path_label, "decisions": ctx.decisions, "inputs": out["inputs"], "what": mism})
                else:
                    stats["validated"] += 1
            except (PathEnd, Unsupported):
                pass
            pending.extend(ctx.alternatives)
    finally:
        E.contracts = saved
    return stats


def _num_close(a, b, exact, _depth=0):
    import math

    if isinstance(a, bool) or isinstance(b, bool):
        return a is b
    if isinstance(a, (int, float)) and isinstance(b, (int, float)):
        if type(a) is not type(b):
            return False
        if isinstance(a, float) and (math.isnan(a) or math.isnan(b)):
            return math.isnan(a) and math.isnan(b)
        if a == b:
            return True
        if exact or math.isinf(a) or math.isinf(b):
            return False
        return abs(a - b) <= 1e-9 * max(1.0, abs(a), abs(b))
    if a is b:
        return True
    try:
        if a == b:
            return True
    except Exception:  # noqa
        return False
    if _depth < 4 and type(a) is type(b):
        # containers / objects created during the call: same structure (an object the function built has no identity to compare)
        if isinstance(a, (tuple, list)):
            return len(a) == len(b) and all(_num_close(x, y, exact, _depth + 1) for x, y in zip(a, b))
        if isinstance(a, dict):
            return len(a) == len(b) and all(_num_close(ka, kb, exact, _depth + 1) and _num_close(va, vb, exact, _depth + 1) for (ka, va), (kb, vb) in zip(a.items(), b.items()))
        da, db = getattr(a, "__dict__", None), getattr(b, "__dict__", None)
        if isinstance(da, dict) and isinstance(db, dict) and type(a).__module__.startswith("cobald."):
            shared = [k for k in da if k in db]
            return bool(shared) and all(_num_close(da[k], db[k], exact, _depth + 1) for k in shared)
    return False


def _admits(E, ctx, m, bound, result_term, real):
    """is `result == <CPython's result>` consistent with the path condition for the model's inputs (parameters, their display leaves and
    the entry heap pinned to the model)?  True / False / None (not expressible or solver undecided)"""
    from .concrete import HeapBuilder

    if not (real is None or isinstance(real, (bool, int, float, str))):
        return None
    s = z3.Solver()
    s.set("timeout", 5000)
    s.add(*ctx.pc)

    def pin(x):
        if isinstance(x, SV):
            s.add(x.t == m.eval(x.t, model_completion=True))
        elif isinstance(x, VDict):
            for v in x.items.values():
                pin(v)
        elif isinstance(x, (VList, VTuple, VSet)):
            for v in x.items:
                pin(v)

    for v in (bound or {}).values():
        pin(v)
    for k, arr in ctx.heap0.items():
        if arr is not None and z3.is_const(arr):
            s.add(arr == m.eval(arr, model_completion=True))
    s.add(result_term == HeapBuilder(ctx).term(real))
    r = s.check()
    return True if r == z3.sat else False if r == z3.unsat else None


def _compare(E, ctx, I, m, conc, out, kind, value, tr_old, con):
    from . import replay as R

    exact = not conc.inexact
    if kind != out["kind"]:
        return "symbolic path %ss but CPython %ss (%s)" % (kind, out["kind"], out.get("exception_repr", out.get("result")))
    final = R.Concretiser(E, m, ctx.heap)
    final.objs = conc.objs
    final.types = conc.types
    if kind == "return":
        try:
            sym = final.value(ctx.to_val(value).t, con.result)
        except R.NotConcretisable:
            return None
        if not _num_close(sym, out["result"], exact):
            # the model completes UNINTERPRETED parts of the encoding (e.g. the text a float renders to) arbitrarily: what has to hold is that
            # the encoding ADMITS CPython's result for these very inputs
            adm = _admits(E, ctx, m, out.get("bound"), ctx.to_val(value).t, out["result"])
            if adm is None:
                out["admits_undecided"] = True      # neither equal under the model's completion nor decided by the solver: not compared
                return None
            if adm is False:
                return "result: symbolic %r, CPython %r (the encoding does not admit CPython's result for these inputs)" % (sym, out["result"])
    else:
        cidt = z3.simplify(m.eval(I.exc_class_term(value), model_completion=True))
        if z3.is_int_value(cidt) and cidt.as_long() in E.classes.by_id:
            k = E.classes.by_id[cidt.as_long()]
            nm = getattr(k, "name", None) or getattr(k, "dotted", "").split(".")[-1]
            if nm != type(out["exception"]).__name__:
                return "exception class: symbolic %s, CPython %s" % (nm, type(out["exception"]).__name__)
    for oid, o in list(conc.objs.items()):
        ty = conc.types.get(oid)
        if not isinstance(ty, (TObj, TAbs)) or getattr(ty, "observe", None) is not None:
            continue  # ghost fields of real library objects are only meaningful where the library defines them
        assigned = None
        if oid in getattr(conc, "blank", ()) and con.new_object and (out.get("bound") or {}).get(con.new_object) is not None:
            # the object under construction: an attribute this path never assigned is not an instance attribute at all (CPython falls back to
            # whatever the class defines, the encoding leaves it arbitrary) - only what the path stored is compared
            assigned = ctx.present.get(z3.simplify(Z.Val.id(out["bound"][con.new_object].t)).sexpr(), set())
        for f, fty in ty.fields.items():
            if f not in ctx.heap or (assigned is not None and f not in assigned):
                continue
            try:
                sym = final.value(z3.Select(ctx.heap[f], z3.IntVal(oid)), fty)
            except R.NotConcretisable:
                continue
            real = out["post"][oid].get(f)
            if not _num_close(sym, real, exact):
                adm = _admits(E, ctx, m, out.get("bound"), z3.Select(ctx.heap[f], z3.IntVal(oid)), real)
                if adm is True:
                    continue
                if adm is None:
                    out["admits_undecided"] = True       # (a container, or the solver did not decide): not compared
                    continue
                return "field %s of object %d: symbolic %r, CPython %r" % (f, oid, sym, real)
    nstores = sum(len(s) for oid, s in out["stores"].items() if getattr(conc.types.get(oid), "events", True))     # shapes declared without store events do not count theirs
    symn = z3.simplify(m.eval(ctx.trlen - tr_old, model_completion=True))
    if z3.is_int_value(symn) and symn.as_long() != nstores and all(k == "store" for k, _ in (ctx.events or [])):
        return "store events: symbolic %s, CPython %d" % (symn, nstores)
    return None
