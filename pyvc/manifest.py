"""Regenerate MANIFEST.json from pyvc.props (python -m pyvc.manifest)."""
import json
import os

from .props import PROPS, NOT_APPLICABLE

VERIF = os.path.dirname(os.path.dirname(os.path.abspath(__file__)))


def main():
    checks = []
    for pid in sorted(PROPS):
        m = PROPS[pid]
        checks.append(
            {
                "property_id": pid,
                "quick_cmd": "./check %s --tier quick" % pid,
                "thorough_cmd": "./check %s --tier thorough" % pid,
                "evidence_file": "/verif/evidence/%s.json" % pid,
                "replay_cmd_template": "./check replay {path}",
                "engine": "pyvc",
                "level_claimed": {"category": m["level"], "text": m["text"], "design_ref": "DESIGN.md " + m.get("design_ref", "")},
                "level_note": m["note"],
                "technique": m["technique"],
            }
        )
    man = {
        "version": 1,
        "setup_cmd": "sh ./setup.sh",
        "hooks": {
            "guard": "COBALD_VERIF",
            "enable": "none needed: the verifier re-reads /repo/src with ast on every run and never instruments it; no hook commits exist",
            "baseline_off_cmd": "cd /repo && /venv/bin/python -m pytest -ra -q -p no:cacheprovider --timeout=900 --continue-on-collection-errors",
            "source_commits": [],
            "add_only": True,
        },
        "engines": [
            {
                "name": "pyvc",
                "path": "/verif/pyvc",
                "serves_properties": sorted(PROPS),
                "kind_free_text": "contract-based deductive verifier for the Python subset cobald uses: sidecar contracts (/verif/contracts), verification conditions generated from the real AST per path, callers checked against callee contracts, loops by inductive invariants, discharged by z3 5.1 with cvc5 1.0.3 as fallback/second opinion; counterexamples replayed on the real code; encoding differential-tested against CPython on every run",
            }
        ],
        "checks": checks,
        "notes": "exit codes: 0 all obligations discharged, 1 VIOLATION (refuted obligation), 2 undecided only, 3 engine error. Repairs of genuine defects are the unguarded 'fix:' commits in /repo listed in known_findings.json; no hook commits.",
        "not_applicable": [{"property_id": k, "reason": v} for k, v in sorted(NOT_APPLICABLE.items()) if k not in PROPS],
    }
    with open(os.path.join(VERIF, "MANIFEST.json"), "w") as fh:
        json.dump(man, fh, indent=1)
    try:
        import jsonschema

        jsonschema.validate(man, json.load(open("/root/.vp/MANIFEST.schema.json")))
        print("MANIFEST.json valid: %d checks, %d not applicable" % (len(checks), len(man["not_applicable"])))
    except ImportError:
        print("written (jsonschema unavailable)")


if __name__ == "__main__":
    main()
