"""Concrete heaps: encode real Python values (numbers, strings, tuples, lists, dict items, opaque objects) as z3
constants so that the SAME contract predicates that are proved symbolically can be evaluated on concrete runs
(bounded stand-ins, replays)."""
import fractions
import math

import z3

from . import z as Z
from .engine import Ctx, Engine
from .contracts import Spec


class HeapBuilder:
    def __init__(self, ctx, preset=None, next_id=1, keep=None):
        self.ctx = ctx
        self.ids = {}
        self.preset = dict(preset or {})  # python id -> heap id to reuse (post-state encoding keeps pre-state ids)
        self.keep = list(keep or [])
        self.next = next_id
        self.mhas = z3.K(z3.IntSort(), z3.K(Z.Val, z3.BoolVal(False)))
        self.mval = z3.K(z3.IntSort(), z3.K(Z.Val, Z.NONE))
        self.len_arr = z3.K(z3.IntSort(), z3.IntVal(0))
        self.item_arr = z3.K(z3.IntSort(), z3.K(z3.IntSort(), Z.NONE))
        self.fields = {}

    def new_id(self, obj):
        self.keep.append(obj)
        if id(obj) in self.preset:
            i = self.preset[id(obj)]
        else:
            i = self.next
            self.next += 1
        self.ids[id(obj)] = i
        return i

    def term(self, v):
        if v is None:
            return Z.NONE
        if isinstance(v, bool):
            return Z.mk_bool(v)
        if isinstance(v, int):
            return Z.mk_int(v)
        if isinstance(v, float):
            if v == math.inf:
                return Z.POS_INF
            if v == -math.inf:
                return Z.NEG_INF
            if v != v:
                return Z.NAN
            fr = fractions.Fraction(v)
            return Z.mk_flt(z3.RealVal("%d/%d" % (fr.numerator, fr.denominator)))
        if isinstance(v, str):
            return Z.mk_str(v)
        if id(v) in self.ids:
            return Z.mk_ref(self.ids[id(v)])
        if isinstance(v, (tuple, list)):
            i = self.new_id(v)
            self._seq(i, [self.term(x) for x in v])
            return Z.mk_ref(i)
        if isinstance(v, dict):
            i = self.new_id(v)
            self._seq(i, [self.term((k, x)) for k, x in v.items()])
            return Z.mk_ref(i)
        i = self.new_id(v)
        return Z.mk_ref(i)

    def _seq(self, i, terms):
        self.len_arr = z3.Store(self.len_arr, z3.IntVal(i), z3.IntVal(len(terms)))
        arr = z3.K(z3.IntSort(), Z.NONE)
        for k, t in enumerate(terms):
            arr = z3.Store(arr, z3.IntVal(k), t)
        self.item_arr = z3.Store(self.item_arr, z3.IntVal(i), arr)

    def set_field(self, obj, name, value):
        t = self.term(obj)
        arr = self.fields.get(name, z3.K(z3.IntSort(), Z.NONE))
        self.fields[name] = z3.Store(arr, Z.Val.id(t), self.term(value))

    def encode(self, obj, ty):
        """encode a real object according to a shape: declared fields of objects, items of sequences/tuples, dict items"""
        from .types import TObj, TAbs, TSeq, TTuple, TOpt, TFn

        if isinstance(ty, TOpt):
            if obj is None:
                return Z.NONE
            ty = ty.inner
        if isinstance(ty, TAbs) and getattr(ty, "observe", None) is not None:
            # a real library object standing for an abstract collaborator: its ghost fields are observed natively
            if id(obj) in self.ids:
                return Z.mk_ref(self.ids[id(obj)])
            i = self.new_id(obj)
            arr = self.fields.get("$cls", z3.K(z3.IntSort(), z3.IntVal(0)))
            self.fields["$cls"] = z3.Store(arr, z3.IntVal(i), z3.IntVal(self.ctx.E.classes.cid("abs:" + ty.name)))
            for f, v in ty.observe(obj).items():
                arr = self.fields.get(f, z3.K(z3.IntSort(), Z.NONE))
                self.fields[f] = z3.Store(arr, z3.IntVal(i), self.encode(v, ty.fields.get(f)))
            return Z.mk_ref(i)
        if isinstance(ty, (TObj, TAbs)):
            if id(obj) in self.ids:
                return Z.mk_ref(self.ids[id(obj)])
            i = self.new_id(obj)
            if isinstance(ty, TObj):
                cls = self.ctx.resolve_ty(ty).cls
                arr = self.fields.get("$cls", z3.K(z3.IntSort(), z3.IntVal(0)))
                self.fields["$cls"] = z3.Store(arr, z3.IntVal(i), z3.IntVal(self.ctx.E.classes.cid(cls)))
            else:
                arr = self.fields.get("$cls", z3.K(z3.IntSort(), z3.IntVal(0)))
                self.fields["$cls"] = z3.Store(arr, z3.IntVal(i), z3.IntVal(self.ctx.E.classes.cid("abs:" + ty.name)))
            for f, fty in ty.fields.items():
                try:
                    v = getattr(obj, f)
                except AttributeError:
                    continue            # an attribute the object does not have (yet): a blank object under construction
                arr = self.fields.get(f, z3.K(z3.IntSort(), Z.NONE))
                self.fields[f] = z3.Store(arr, z3.IntVal(i), self.encode(v, fty))
            for f, fty in (getattr(ty, "optional", {}) if isinstance(ty, TAbs) else {}).items():
                present = f in getattr(obj, "__dict__", {}) or hasattr(obj, f)
                arr = self.fields.get("has:" + f, z3.K(z3.IntSort(), Z.mk_bool(False)))
                self.fields["has:" + f] = z3.Store(arr, z3.IntVal(i), Z.mk_bool(bool(present)))
                if present:
                    arr = self.fields.get(f, z3.K(z3.IntSort(), Z.NONE))
                    self.fields[f] = z3.Store(arr, z3.IntVal(i), self.encode(getattr(obj, f), fty))
            return Z.mk_ref(i)
        from .types import TMap

        if type(ty).__name__ == "TSet":
            if id(obj) in self.ids:
                return Z.mk_ref(self.ids[id(obj)])
            i = self.new_id(obj)
            has = z3.K(Z.Val, z3.BoolVal(False))
            for k in list(obj):
                has = z3.Store(has, self.encode(k, ty.elem) if ty.elem is not None else self.term(k), z3.BoolVal(True))
            self.mhas = z3.Store(self.mhas, z3.IntVal(i), has)
            return Z.mk_ref(i)
        if isinstance(ty, TMap):
            if id(obj) in self.ids:
                return Z.mk_ref(self.ids[id(obj)])
            i = self.new_id(obj)
            has = z3.K(Z.Val, z3.BoolVal(False))
            val = z3.K(Z.Val, Z.NONE)
            for k, v in obj.items():
                kt = self.encode(k, ty.key) if ty.key is not None else self.term(k)
                has = z3.Store(has, kt, z3.BoolVal(True))
                val = z3.Store(val, kt, self.encode(v, ty.val) if ty.val is not None else self.term(v))
            self.mhas = z3.Store(self.mhas, z3.IntVal(i), has)
            self.mval = z3.Store(self.mval, z3.IntVal(i), val)
            return Z.mk_ref(i)
        if isinstance(ty, TSeq):
            if id(obj) in self.ids:
                return Z.mk_ref(self.ids[id(obj)])
            i = self.new_id(obj)
            items = list(obj.items()) if isinstance(obj, dict) else list(obj)
            self._seq(i, [self.encode(x, ty.elem) for x in items])
            return Z.mk_ref(i)
        if isinstance(ty, TTuple):
            i = self.new_id(obj)
            self._seq(i, [self.encode(x, ety) for x, ety in zip(obj, ty.elems)])
            return Z.mk_ref(i)
        return self.term(obj)

    def heap(self):
        h = dict(self.fields)
        h["$len"] = self.len_arr
        h["$item"] = self.item_arr
        h["$mhas"] = self.mhas
        h["$mval"] = self.mval
        h.setdefault("$cls", z3.K(z3.IntSort(), z3.IntVal(0)))
        return h


def holds(formula, timeout_ms=20000):
    """validity of a closed formula over concrete heaps"""
    s = z3.Solver()
    s.set("timeout", timeout_ms)
    s.add(z3.Not(formula))
    r = s.check()
    return True if r == z3.unsat else False if r == z3.sat else None


# ---- grounding of set-sum clauses on concrete heaps -------------------------------------------------------------------------
def ground(f, ids, max_index=8):
    """rewrite a clause for evaluation on a CONCRETE heap: quantifiers over Val range over the known objects (plus one unknown
    reference and None - outside the known objects every membership array is False), quantifiers over Int over 0..max_index,
    ssum / scard become explicit finite sums over the known objects.  Only used to evaluate clauses on concrete runs (replay)."""
    from . import setsum as SS

    cands = [Z.mk_ref(i) for i in sorted(set(ids))] + [Z.mk_ref(10 ** 6 + 7), Z.NONE]
    cache = {}
    keep = []

    def go(e):
        key = e.get_id()
        if key in cache:
            return cache[key]
        keep.append(e)          # AST ids are only unique among live ASTs: keep every visited term alive while the cache is
        if z3.is_quantifier(e) and e.is_lambda():
            cache[key] = e          # an array given by comprehension: Select on it beta-reduces
            return e
        if z3.is_quantifier(e):
            n = e.num_vars()
            sorts = [e.var_sort(i) for i in range(n)]
            doms = []
            for srt in sorts:
                if srt == Z.Val:
                    doms.append(cands)
                elif srt == z3.IntSort():
                    doms.append([z3.IntVal(k) for k in range(-1, max_index + 1)])
                else:
                    cache[key] = e
                    return e
            import itertools

            parts = []
            body = e.body()
            for combo in itertools.product(*doms):
                # de Bruijn: variable 0 is the LAST bound variable
                parts.append(go(z3.substitute_vars(body, *reversed(combo))))
            r = z3.And(*parts) if e.is_forall() else z3.Or(*parts)
            cache[key] = r
            return r
        if z3.is_app(e):
            d = e.decl()
            kids = [go(c) for c in e.children()]
            if d.name() == "ssum" and len(kids) == 2:
                m, fl = kids
                r = z3.Sum([z3.If(z3.Select(m, x), Z.rval(z3.Select(fl, Z.Val.id(x))), z3.RealVal(0)) for x in cands[:-2]] + [z3.RealVal(0)])
            elif d.name() == "scard" and len(kids) == 1:
                r = z3.Sum([z3.If(z3.Select(kids[0], x), z3.IntVal(1), z3.IntVal(0)) for x in cands[:-2]] + [z3.IntVal(0)])
            elif kids:
                r = d(*kids)
            else:
                r = e
            cache[key] = r
            return r
        cache[key] = e
        return e

    return go(f)


def mentions_setsum(f):
    s = f.sexpr()
    return "ssum" in s or "scard" in s or "$mhas" in s
