"""Verdict, VIOLATION / KNOWN-FINDING lines, replay files and the evidence file of one property run."""
import hashlib
import json
import os
import sys
import time

from . import runner as RN

VERIF = RN.VERIF


def _safe(name):
    return "".join(ch if ch.isalnum() or ch in "._-" else "_" for ch in name)[:150]


def finish(pid, tier, seed, E, results, t0, extra=None):
    from .props import PROPS

    meta = PROPS[pid]
    kf = RN.load_known_findings()
    listed = {f["id"]: f for f in kf.get("findings", []) if f["property"] == pid}
    lines = []
    violations = []
    known_hits = {}
    vacuity_notes = []
    undecided = []
    engine = []
    total = discharged = refuted_n = 0
    by_backend = {"z3": 0, "cvc5": 0}
    solver_s = 0.0
    functions = []
    trusted = set(meta.get("trusted_base", []))
    inlined = set()
    diff_validated = 0
    diff_total = 0
    samples = []
    ob_hashes = set()
    bounded = list((extra or {}).get("bounded", []))
    for r in results:
        if r.get("error"):
            engine.append("%s: worker crashed: %s" % (r["key"], r["error"][:600]))
            continue
        if r.get("skip_body"):
            continue
        if r.get("missing"):
            undecided.append("%s: function under contract is no longer present" % r["key"])
            continue
        _o = r.get("paths_by_outcome") or {}
        if r.get("paths") and not (_o.get("return") or _o.get("raise") or _o.get("unsupported") or _o.get("engine-error")):
            # vacuity guard: every path was cut (infeasible assumption) before it reached an exit - no postcondition was ever checked
            undecided.append("%s: none of the %d explored path(s) reaches an exit of the function - the contract was checked at no exit (vacuous)" % (r["key"], r["paths"]))
        for p in r.get("vacuous_paths", []):
            undecided.append("%s@%s: the assumptions collected along this path (callee postconditions, loop invariants, library contracts) are CONTRADICTORY - "
                             "everything on it is vacuously true, so nothing was proved there" % (r["key"], p))
        for p, msg in r.get("unsupported", []):
            undecided.append("%s@%s: unsupported construct: %s" % (r["key"], p, msg))
        for p, msg in r.get("engine_errors", []):
            engine.append("%s@%s: %s" % (r["key"], p, msg[:500]))
        if r.get("requires_sat") == "unknown":
            # quantified preconditions (representation invariants): the solver cannot build a model, but the canary holds -
            # `false` is NOT derivable from the precondition within the budget (a vacuous precondition would make it so)
            vacuity_notes.append("%s: satisfiability of the precondition undecided by z3 (quantified invariant); vacuity canary passed: `false` is not derivable from it" % r["key"])
        elif r.get("requires_sat") != "sat":
            engine.append("%s: precondition is not satisfiable (%s) - vacuous contract" % (r["key"], r.get("requires_sat")))
        d = r.get("differential")
        if d:
            if d.get("error"):
                engine.append("%s: differential check crashed: %s" % (r["key"], d["error"]))
            else:
                diff_validated += d["validated"]
                diff_total += d["paths"]
                for mm in d["mismatches"]:
                    engine.append("%s: encoding disagrees with CPython on path %s: %s (inputs %s)" % (r["key"], mm["path"], mm["what"], mm["inputs"]))
        for h in r.get("hyp", []):
            trusted.add("hypothesis (%s): %s" % (r["key"].split(":")[-1], h))
        for n in r.get("notes", []):
            trusted.add("note (%s): %s" % (r["key"].split(":")[-1], n))
        inlined.update(r.get("inlined", []))
        f_obs = r["obligations"]
        functions.append(
            {
                "function": r["key"],
                "file": r.get("file"),
                "lines": r.get("span"),
                "sha256_16": r.get("sha"),
                "paths": r.get("paths"),
                "paths_by_outcome": r.get("paths_by_outcome"),
                "obligations": len(f_obs),
                "discharged": sum(1 for o in f_obs if o["status"] == "discharged"),
                "seconds": r.get("seconds"),
            }
        )
        if r.get("sample"):
            samples.append(r["sample"])
        if len(f_obs) == 0 and not r.get("unsupported"):
            # vacuity guard; a contract all of whose paths hit an unsupported construct is UNDECIDED (reported as such), not a crash
            engine.append("%s: zero obligations generated" % r["key"])
        for o in f_obs:
            total += 1
            solver_s += o["seconds"]
            ob_hashes.add(o["name"])
            st = o["status"]
            if st == "discharged":
                discharged += 1
                by_backend[o["backend"]] = by_backend.get(o["backend"], 0) + 1
            elif st == "undecided":
                undecided.append("%s@%s: %s" % (o["name"], o["path"], o["detail"]))
            elif st == "solver-disagreement":
                engine.append("%s@%s: %s" % (o["name"], o["path"], o["detail"]))
            elif st == "refuted":
                refuted_n += 1
                kid = o.get("known_id")
                if kid and kid in listed and o.get("outside_region") == "discharged":
                    known_hits.setdefault(kid, []).append(o)
                else:
                    violations.append((r["key"], o))
    # known findings: the witness must still fail natively
    known_count = 0
    for kid, obs in known_hits.items():
        f = listed[kid]
        ok, outtxt = RN.run_witness(f["witness"])
        if ok:
            lines.append("KNOWN-FINDING: property=%s %s [%s; obligation %s refuted only inside the listed region, witness re-run natively]" % (pid, f["text"], kid, obs[0]["name"]))
            known_count += len(obs)
        else:
            # the obligation is refuted but the recorded failing input does not fail any more: whatever this is, it is NOT the listed finding -
            # a listed finding suppresses only itself, so the refutation is reported like any other
            for o in obs:
                o = dict(o)
                o["detail"] = (o.get("detail") or "") + " | inside the region of known finding %s, but its recorded witness no longer fails natively (%s): not that finding" % (kid, outtxt[-120:].strip())
                violations.append((o.get("function", kid), o))
    # violations: one line per distinct obligation name
    os.makedirs(os.path.join(VERIF, "replays", pid), exist_ok=True)
    seen = set()
    for key, o in violations:
        if o["name"] in seen:
            continue
        seen.add(o["name"])
        rp = os.path.join(VERIF, "replays", pid, _safe(o["name"]) + ".json")
        rep = o.get("replay") or {}
        confirmed = bool(rep.get("confirmed"))
        with open(rp, "w") as fh:
            json.dump(
                {
                    "property": pid,
                    "obligation": "%s@%s" % (o["name"], o["path"]),
                    "function": key,
                    "clause": o.get("label"),
                    "path_decisions": o.get("decisions"),
                    "solver": o["backend"],
                    "solver_output": o.get("solver_output"),
                    "replayed_on_real_code": confirmed,
                    "replay": rep,
                    "known_region_check": {"known_id": o.get("known_id"), "outside_region": o.get("outside_region")} if o.get("known_id") else None,
                    "rerun": "cd /verif && ./check %s --tier %s" % (pid, tier),
                },
                fh,
                indent=1,
                default=str,
            )
        lines.append("VIOLATION property=%s replay=%s%s" % (pid, rp, "" if confirmed else " no-failing-input-found"))
    for kl in (extra or {}).get("known_lines", []):
        lines.append(kl)
    for extra_v in (extra or {}).get("violations", []):
        lines.append(extra_v)
    for extra_e in (extra or {}).get("engine", []):
        engine.append(extra_e)
    for extra_u in (extra or {}).get("undecided", []):
        undecided.append(extra_u)
    nviol = len(seen) + len((extra or {}).get("violations", []))
    if engine:
        code = 3
    elif nviol:
        code = 1
    elif undecided:
        code = 2
    else:
        code = 0
    for u in undecided[:40]:
        lines.append("UNDECIDED property=%s %s" % (pid, u))
    for e in engine[:40]:
        lines.append("ENGINE-ERROR property=%s %s" % (pid, e))
    wall = time.time() - t0
    cov = {
        "obligations": total,
        "discharged": discharged + known_count,
        "discharged_only_outside_known_region": known_count,
        "refuted": refuted_n,
        "known_findings": known_count,
        "undecided": len(undecided),
        "by_backend": by_backend,
        "solver_s": round(solver_s, 3),
        "functions_under_contract": functions,
        "inlined": sorted(inlined),
        "traces_validated_against_impl": diff_validated,
        "differential_paths": diff_total,
        "checker_cmd": "cd /verif && ./check %s --tier %s  (pyvc: ast -> VCs from /repo/src, z3 %s; cvc5 1.0.3 for z3's unknowns%s)" % (pid, tier, _z3v(), " and as second opinion on every obligation" if tier == "thorough" else ""),
        "trusted_base": sorted(trusted),
        "bounded": bounded,
        "samples": samples[:4] or [{"note": "no discharged post obligation to sample"}],
        "evaluations": total,
        "distinct_nontrivial": len(ob_hashes),
        "rule": "one evaluation = one verification condition generated from the current source; distinct = distinct obligation names (function/clause), every one involves at least one symbolic input",
        "explanation": meta.get("explanation", ""),
        "verdict": {0: "all obligations discharged", 1: "obligation refuted", 2: "undecided", 3: "engine error"}[code],
        "messages": lines[:60],
        "vacuity_notes": vacuity_notes,
    }
    if (extra or {}).get("coverage"):
        cov.update(extra["coverage"])
    ev = {
        "property_id": pid,
        "tier": tier,
        "seed": int(seed),
        "level": meta["level"],
        "coverage": cov,
        "assumptions": sorted(trusted),
        "wall_s": round(wall, 3),
        "violations": nviol,
    }
    os.makedirs(os.path.join(VERIF, "evidence"), exist_ok=True)
    with open(os.path.join(VERIF, "evidence", "%s.json" % pid), "w") as fh:
        json.dump(ev, fh, indent=1, default=str)
    for ln in lines:
        print(ln)
    print("SUMMARY property=%s tier=%s obligations=%d discharged=%d refuted=%d known=%d undecided=%d engine_errors=%d differential=%d/%d wall=%.1fs exit=%d" % (pid, tier, total, discharged, refuted_n, known_count, len(undecided), len(engine), diff_validated, diff_total, wall, code))
    return code


def _z3v():
    import z3

    return z3.get_version_string()
