"""Static shapes (type invariants) of symbolic values.  A shape is part of a contract's precondition:
it says which Val constructors a term may take and which fields an object has (DESIGN.md 2.2)."""
import z3
from . import z as Z


class T:
    def inv(self, t, goal=False):
        """type invariant of the Val term t as a z3 Bool"""
        return z3.BoolVal(True)

    def describe(self):
        return self.__class__.__name__


class TAny(T):
    pass


class TNum(T):
    """int | float, optionally +-inf / nan / bool; optionally restricted in sign or to int/float"""

    def __init__(self, inf=False, nan=False, boolean=False, only=None, lo=None, hi=None, lo_strict=None):
        self.inf, self.nan, self.boolean, self.only = inf, nan, boolean, only
        self.lo, self.hi, self.lo_strict = lo, hi, lo_strict

    def inv(self, t, goal=False):
        """goal=True: the form used in obligations.  It omits ``wf`` (an int carries an integral real), which is
        an invariant of the encoding itself: every operation that builds an int builds it from integral parts."""
        if self.only == "int":
            alts = [Z.is_intv(t)]
        elif self.only == "float":
            alts = [Z.is_fltv(t)]
        else:
            alts = [Z.is_intv(t), Z.is_fltv(t)]
        if self.boolean:
            alts.append(Z.is_boolv(t))
        if self.inf:
            alts.append(Z.is_infv(t))
        if self.nan:
            alts.append(Z.is_nanv(t))
        f = z3.Or(*alts) if goal else z3.And(z3.Or(*alts), Z.wf(t))
        if self.lo is not None:
            f = z3.And(f, z3.Or(Z.is_pinf(t), z3.And(Z.is_finite(t), Z.rval(t) >= self.lo)))
        if self.lo_strict is not None:
            f = z3.And(f, z3.Or(Z.is_pinf(t), z3.And(Z.is_finite(t), Z.rval(t) > self.lo_strict)))
        if self.hi is not None:
            f = z3.And(f, z3.Or(Z.is_ninf(t), z3.And(Z.is_finite(t), Z.rval(t) <= self.hi)))
        return f

    @property
    def static_finite(self):
        """values of this shape are finite int/float (no bool, inf, nan): arithmetic needs no case analysis"""
        return not (self.inf or self.nan or self.boolean)

    def describe(self):
        return "Num(inf=%s,nan=%s,bool=%s,only=%s,lo=%s,hi=%s)" % (self.inf, self.nan, self.boolean, self.only, self.lo if self.lo is not None else self.lo_strict, self.hi)


class TBool(T):
    def inv(self, t, goal=False):
        return Z.is_boolv(t)


class TStr(T):
    def inv(self, t, goal=False):
        return Z.is_strv(t)


class TNone(T):
    def inv(self, t, goal=False):
        return Z.is_none(t)


class TOpt(T):
    def __init__(self, inner):
        self.inner = inner

    def inv(self, t, goal=False):
        return z3.Or(Z.is_none(t), self.inner.inv(t, goal))


class TRef(T):
    def inv(self, t, goal=False):
        return z3.And(Z.is_refv(t), Z.Val.id(t) > 0)


class TObj(TRef):
    """instance of an in-repo class (exact class, so attribute resolution is static) with typed instance fields"""

    DECLARED = {}      # class key -> shapes with declared fields that the loaded sidecars speak about

    def __init__(self, cls_key, **fields):
        self.cls_key = cls_key
        self.fields = fields
        self.cls = None  # resolved lazily by the engine
        if fields:
            TObj.DECLARED.setdefault(cls_key, []).append(self)

    @staticmethod
    def declared_field(cls_key, name):
        """the shape the sidecars declare for attribute `name` of instances of this class (None if they do not, or disagree in kind)"""
        found = [s.fields[name] for s in TObj.DECLARED.get(cls_key, []) if name in s.fields]
        if found and all(type(f) is type(found[0]) and getattr(f, "kind", None) == getattr(found[0], "kind", None) for f in found):
            return found[0]
        return None

    def describe(self):
        return "Obj(%s)" % self.cls_key


class TAbs(TRef):
    """abstract collaborator: an object known only through an interface.
    ``fields``: attributes whose reads are pure and whose writes store faithfully (+ a store event);
    ``methods``: name -> abstract contract (see contracts.Abstract)"""

    def __init__(self, name, fields=None, methods=None, events=True, optional=None):
        self.name = name
        self.fields = fields or {}
        self.methods = methods or {}
        self.events = events
        # attributes the object MAY have (heap fields `has:<name>` / `<name>`): reading an absent one is an AttributeError,
        # a store creates it
        self.optional = optional or {}

    def describe(self):
        return "Abs(%s)" % self.name


class TFn(TRef):
    """abstract callable with an interface contract"""

    def __init__(self, contract):
        self.contract = contract

    def inv(self, t, goal=False):
        return Z.is_refv(t)


class TSeq(TRef):
    """heap sequence (list / tuple of unknown length): $len[id] >= 0, items $item[id][k] : elem"""

    def __init__(self, elem, kind="list"):
        self.elem = elem
        self.kind = kind


class TExc(TRef):
    """exception object; class id in $cls; `bound`: the class is some subclass of this (dotted name or repo key)"""

    def __init__(self, bound="BaseException"):
        self.bound = bound


class TTuple(TRef):
    """heap tuple of fixed arity with per-position shapes (e.g. a (threshold, controller) pair)"""

    def __init__(self, *elems):
        self.elems = list(elems)

    def describe(self):
        return "Tuple(%s)" % ", ".join(e.describe() for e in self.elems)


class TMap(TRef):
    """heap dict with symbolic keys: $mhas[id][key] : Bool, $mval[id][key] : Val (values of shape `val`)"""

    def __init__(self, val=None, key=None):
        self.val = val
        self.key = key

    def describe(self):
        return "Map(%s)" % (self.val.describe() if self.val else "Any")
