"""AST interpreter over symbolic values (statements, expressions, calls)."""
import ast
import z3

from . import z as Z
from .engine import *
from .engine import _fresh_counter


class GenExp:
    """unevaluated generator expression / comprehension body"""

    def __init__(self, node, frame):
        self.node, self.frame = node, frame


class Coro:
    """result of calling an async function: runs when awaited"""

    def __init__(self, thunk, label=""):
        self.thunk, self.label = thunk, label
        self.attrs = {}


class CtxMgr:
    def __init__(self, enter, exit_):
        self.enter, self.exit_ = enter, exit_


class ExcInstance:
    pass


BUILTIN_NAMES = set(dir(__import__("builtins")))


class Interp:
    def __init__(self, ctx):
        self.ctx = ctx
        self.E = ctx.E
        self.repo = ctx.repo
        self.handled = []  # stack of exceptions being handled (for bare raise)
        from . import builtins_ as B

        self.B = B

    # =================================================================================== names
    def lookup(self, frame, name):
        if name in frame.locals:
            return frame.locals[name]
        for env in reversed(frame.closure_env):
            if name in env:
                return env[name]
        return self.lookup_global(frame.module, name)

    def lookup_global(self, module, name):
        r = self.repo.resolve_global(module, name)
        if r is not None:
            return self.materialise(r)
        if name in BUILTIN_NAMES:
            obj = getattr(__import__("builtins"), name)
            if isinstance(obj, type) and issubclass(obj, BaseException):
                return ExternalRef(name)
            if name in ("True", "False", "None"):
                return obj
            if name in ("object", "int", "float", "str", "bool", "dict", "list", "tuple", "set", "frozenset", "type"):
                return Builtin(name)
            return Builtin(name)
        raise Unsupported("unresolved name %s in %s" % (name, module.name))

    def materialise(self, r):
        if isinstance(r, FunctionInfo):
            return Closure(r, [])
        if isinstance(r, (ClassInfo, ExternalRef, ModuleInfo)):
            return r
        if isinstance(r, tuple) and r[0] == "expr":
            _, m, node = r
            fr = Frame(None, {}, [], m)
            return self.eval(fr, node)
        raise Unsupported("binding %r" % (r,))

    # =================================================================================== statements
    def exec_block(self, frame, stmts):
        for s in stmts:
            self.exec_stmt(frame, s)

    def exec_stmt(self, frame, s):
        m = getattr(self, "st_" + s.__class__.__name__, None)
        if m is None:
            raise Unsupported("statement %s at line %s" % (s.__class__.__name__, getattr(s, "lineno", "?")))
        return m(frame, s)

    def st_Pass(self, frame, s):
        pass

    def st_Expr(self, frame, s):
        if isinstance(s.value, ast.Constant):
            return
        self.eval(frame, s.value)

    def st_Import(self, frame, s):
        for a in s.names:
            frame.locals[a.asname or a.name.split(".")[0]] = ExternalRef(a.name if a.asname else a.name.split(".")[0])

    def st_Assign(self, frame, s):
        v = self.eval(frame, s.value)
        for t in s.targets:
            self.assign(frame, t, v)

    def st_AnnAssign(self, frame, s):
        if s.value is not None:
            self.assign(frame, s.target, self.eval(frame, s.value))

    def st_AugAssign(self, frame, s):
        # a.x op= v : load a.x (a evaluated once), compute, store
        if isinstance(s.target, ast.Attribute):
            obj = self.eval(frame, s.target.value)
            cur = self.getattr(obj, s.target.attr)
            new = self.binop(s.op, cur, self.eval(frame, s.value))
            self.setattr(obj, s.target.attr, new)
        elif isinstance(s.target, ast.Name):
            cur = self.lookup(frame, s.target.id)
            rhs = self.eval(frame, s.value)
            if isinstance(cur, VList) and isinstance(s.op, ast.Add):
                cur.items.extend(self.iterate_concrete(rhs))
                return
            new = self.binop(s.op, cur, rhs)
            frame.locals[s.target.id] = new
        elif isinstance(s.target, ast.Subscript):
            obj = self.eval(frame, s.target.value)
            idx = self.eval(frame, s.target.slice)
            cur = self.subscript(obj, idx)
            new = self.binop(s.op, cur, self.eval(frame, s.value))
            self.store_subscript(obj, idx, new)
        else:
            raise Unsupported("augassign target")

    def assign(self, frame, target, v):
        if isinstance(target, ast.Name):
            frame.locals[target.id] = v
        elif isinstance(target, ast.Attribute):
            obj = self.eval(frame, target.value)
            self.setattr(obj, target.attr, v)
        elif isinstance(target, (ast.Tuple, ast.List)):
            items = self.iterate_concrete(v, expect=len(target.elts))
            if len(items) != len(target.elts):
                raise Unsupported("unpacking length mismatch")
            for t, it in zip(target.elts, items):
                self.assign(frame, t, it)
        elif isinstance(target, ast.Subscript):
            obj = self.eval(frame, target.value)
            idx = self.eval(frame, target.slice)
            self.store_subscript(obj, idx, v)
        else:
            raise Unsupported("assignment target %s" % target.__class__.__name__)

    def st_Return(self, frame, s):
        raise ReturnSig(self.eval(frame, s.value) if s.value is not None else None)

    def st_If(self, frame, s):
        c = self.cond(frame, s.test)
        if c:
            self.exec_block(frame, s.body)
        else:
            self.exec_block(frame, s.orelse)

    def cond(self, frame, test):
        v = self.eval(frame, test)
        t = self.ctx.truth(v)
        return self.ctx.branch(t, "if@%s" % getattr(test, "lineno", "?"))

    def st_Assert(self, frame, s):
        if not self.cond(frame, s.test):
            args = [self.eval(frame, s.msg)] if s.msg is not None else []
            raise PyRaise(self.make_exception(ExternalRef("AssertionError"), args))

    def st_Raise(self, frame, s):
        if s.exc is None:
            if not self.handled:
                raise Unsupported("bare raise outside handler")
            raise PyRaise(self.handled[-1])
        e = self.eval(frame, s.exc)
        e = self.ctx.from_val(e) if isinstance(e, SV) else e
        if isinstance(e, (ClassInfo, ExternalRef)):
            e = self.call(e, [], {})
        if not isinstance(e, SV):
            raise Unsupported("raise of %r" % (e,))
        if s.cause is not None:
            cause = self.eval(frame, s.cause)
            self.ctx.store_raw(self.ctx.ref_id(e), "__cause__", self.ctx.to_val(cause).t)
            self.ctx.store_raw(self.ctx.ref_id(e), "__suppress_context__", Z.mk_bool(True))
        elif self.handled:
            self.ctx.store_raw(self.ctx.ref_id(e), "__context__", self.handled[-1].t)
        raise PyRaise(e)

    def st_Try(self, frame, s):
        try:
            try:
                self.exec_block(frame, s.body)
            except PyRaise as pr:
                exc = pr.exc
                for h in s.handlers:
                    if h.type is None or self.exc_matches(exc, self.eval(frame, h.type)):
                        if h.name:
                            frame.locals[h.name] = exc
                        self.handled.append(exc)
                        try:
                            self.exec_block(frame, h.body)
                        finally:
                            self.handled.pop()
                        break
                else:
                    raise
            else:
                self.exec_block(frame, s.orelse)
        except (PyRaise, ReturnSig, BreakSig, ContinueSig) as sig:
            if s.finalbody:
                self.exec_block(frame, s.finalbody)
            raise
        else:
            if s.finalbody:
                self.exec_block(frame, s.finalbody)

    def st_FunctionDef(self, frame, s):
        qual = (frame.fi.qualname + "." if frame.fi is not None else "") + s.name
        fi = FunctionInfo(frame.module, qual, s)
        fi.cls = None
        fn = Closure(fi, frame.closure_env + [frame.locals])
        fn.cls_ctx = frame.cls_ctx
        for d in reversed(s.decorator_list):
            dec = self.eval(frame, d)
            fn = self.call(dec, [fn], {})
        frame.locals[s.name] = fn

    st_AsyncFunctionDef = st_FunctionDef

    def st_Break(self, frame, s):
        raise BreakSig()

    def st_Continue(self, frame, s):
        raise ContinueSig()

    def st_Delete(self, frame, s):
        raise Unsupported("del")

    def st_With(self, frame, s, is_async=False):
        if len(s.items) != 1:
            raise Unsupported("multi-item with")
        item = s.items[0]
        mgr = self.eval(frame, item.context_expr)
        mv = self.ctx.from_val(mgr) if isinstance(mgr, SV) else mgr
        if is_async and isinstance(mv, SV) and isinstance(mv.ty, TAbs) and "__aenter__" in mv.ty.methods and "__aexit__" in mv.ty.methods:
            obj = mv
            mgr = CtxMgr(lambda: self.await_(self.call(AbstractMethod(obj, "__aenter__", obj.ty.methods["__aenter__"]), [], {})),
                         lambda exc: bool(self.await_(self.call(AbstractMethod(obj, "__aexit__", obj.ty.methods["__aexit__"]), [None, None, None], {}))) and False)
        elif isinstance(mv, SV) and isinstance(mv.ty, TAbs) and "__enter__" in mv.ty.methods and "__exit__" in mv.ty.methods:
            # an abstract library object that is a context manager (a lock, a semaphore): its assumed __enter__ / __exit__ contracts
            obj = mv
            mgr = CtxMgr(lambda: self.call(AbstractMethod(obj, "__enter__", obj.ty.methods["__enter__"]), [], {}),
                         lambda exc: bool(self.call(AbstractMethod(obj, "__exit__", obj.ty.methods["__exit__"]), [None, None, None], {})) and False)
        if not isinstance(mgr, CtxMgr):
            raise Unsupported("with on %r" % (mgr,))
        v = mgr.enter()
        if item.optional_vars is not None:
            self.assign(frame, item.optional_vars, v)
        try:
            self.exec_block(frame, s.body)
        except PyRaise as pr:
            if mgr.exit_(pr.exc):
                return
            raise
        except (ReturnSig, BreakSig, ContinueSig):
            mgr.exit_(None)
            raise
        else:
            mgr.exit_(None)

    def st_AsyncWith(self, frame, s):
        return self.st_With(frame, s, True)

    # ---- loops ------------------------------------------------------------------------------------
    def st_For(self, frame, s, is_async=False):
        ordinal = frame.loop_ordinal
        frame.loop_ordinal += 1
        it = self.eval(frame, s.iter)
        it = self.ctx.from_val(it) if isinstance(it, SV) else it
        conc = self.try_concrete_iter(it)
        if conc is None:
            conc = self.B.known_length_iter(self, it)
        if conc is not None:
            for item in conc:
                self.assign(frame, s.target, item)
                try:
                    self.exec_block(frame, s.body)
                except BreakSig:
                    return
                except ContinueSig:
                    continue
            self.exec_block(frame, s.orelse)
            return
        from .loops import symbolic_for

        symbolic_for(self, frame, s, it, ordinal)

    def st_AsyncFor(self, frame, s):
        return self.st_For(frame, s, True)

    def st_While(self, frame, s):
        ordinal = frame.loop_ordinal
        frame.loop_ordinal += 1
        from .loops import symbolic_while

        symbolic_while(self, frame, s, ordinal)

    # =================================================================================== expressions
    def eval(self, frame, e):
        m = getattr(self, "ex_" + e.__class__.__name__, None)
        if m is None:
            raise Unsupported("expression %s at line %s" % (e.__class__.__name__, getattr(e, "lineno", "?")))
        return m(frame, e)

    def ex_Constant(self, frame, e):
        v = e.value
        if v is Ellipsis:
            raise Unsupported("Ellipsis")
        return v

    def ex_Name(self, frame, e):
        return self.lookup(frame, e.id)

    def ex_Attribute(self, frame, e):
        obj = self.eval(frame, e.value)
        return self.getattr(obj, e.attr)

    def ex_Tuple(self, frame, e):
        return VTuple(self.eval_elts(frame, e.elts))

    def ex_List(self, frame, e):
        if e.elts and all(isinstance(x, ast.Starred) for x in e.elts):
            from . import setsum

            parts = [self.eval(frame, x.value) for x in e.elts]
            if all(setsum.iterable_mem(self, p) is not None for p in parts):
                return setsum.union_enum(self, parts)      # [*a, *b] over sets: an enumeration of the union
            out = []
            for p in parts:
                out.extend(self.iterate_concrete(p))
            return VList(out)
        return VList(self.eval_elts(frame, e.elts))

    def ex_Set(self, frame, e):
        return VSet(self.eval_elts(frame, e.elts))

    def eval_elts(self, frame, elts):
        out = []
        for x in elts:
            if isinstance(x, ast.Starred):
                out.extend(self.iterate_concrete(self.eval(frame, x.value)))
            else:
                out.append(self.eval(frame, x))
        return out

    def ex_Dict(self, frame, e):
        d = VDict()
        for k, v in zip(e.keys, e.values):
            if k is None:
                src = self.eval(frame, v)
                src = self.ctx.from_val(src) if isinstance(src, SV) else src
                if not isinstance(src, VDict):
                    raise Unsupported("** of non-concrete dict")
                d.items.update(src.items)
            else:
                kk = self.eval(frame, k)
                d.items[self.hashable(kk)] = self.eval(frame, v)
        return d

    def hashable(self, k):
        if isinstance(k, (str, int, float, bool)) or k is None:
            return k
        if isinstance(k, (ExternalRef, ClassInfo, ModuleInfo)):
            return k  # modules / classes: hashable by identity
        if isinstance(k, SV):
            c = const_of(k.t)
            if c is not None:
                return c[0]
        if isinstance(k, VTuple):
            return tuple(self.hashable(x) for x in k.items)
        raise Unsupported("non-constant dict key %r" % (k,))

    def ex_IfExp(self, frame, e):
        if self.cond(frame, e.test):
            return self.eval(frame, e.body)
        return self.eval(frame, e.orelse)

    def ex_BoolOp(self, frame, e):
        # Python semantics: returns the deciding operand
        is_and = isinstance(e.op, ast.And)
        if id(e) in (self.ctx.ghost.get("truth_only") or ()):
            # inside all(...) / any(...) over a sequence of unknown length only the TRUTH of the element expression matters, and the expression
            # is pure: `a and b` / `a or b` is the conjunction / disjunction of the operands' truth values - no fork on the generic element
            ts = []
            for k, sub in enumerate(e.values):
                try:
                    t = self.ctx.truth(self.eval(frame, sub))
                except PyRaise:
                    if k == 0:
                        raise
                    # a later operand raises when evaluated unconditionally: Python's short-circuit may be what protects it - not handled here
                    raise Unsupported("boolean operator whose later operand can raise (short-circuit evaluation matters)")
                ts.append(z3.BoolVal(t) if isinstance(t, bool) else t)
            return SV(Z.mk_bool(z3.And(*ts) if is_and else z3.Or(*ts)), TBool())
        v = None
        for i, sub in enumerate(e.values):
            v = self.eval(frame, sub)
            if i == len(e.values) - 1:
                return v
            t = self.ctx.truth(v)
            b = self.ctx.branch(t, "boolop@%s" % getattr(e, "lineno", "?"))
            if is_and and not b:
                return v
            if not is_and and b:
                return v
        return v

    def ex_UnaryOp(self, frame, e):
        v = self.eval(frame, e.operand)
        if isinstance(e.op, ast.Not):
            t = self.ctx.truth(v)
            if isinstance(t, bool):
                return not t
            return SV(Z.mk_bool(z3.Not(t)), TBool())
        if isinstance(e.op, ast.USub):
            if isinstance(v, (int, float)) and not isinstance(v, bool):
                return -v
            sv = self.num_operand(v)
            return SV(Z.num_neg(sv.t), TNum(inf=True, nan=True))
        if isinstance(e.op, ast.UAdd):
            return v
        raise Unsupported("unary op")

    def ex_BinOp(self, frame, e):
        a = self.eval(frame, e.left)
        b = self.eval(frame, e.right)
        return self.binop(e.op, a, b)

    def ex_Compare(self, frame, e):
        left = self.eval(frame, e.left)
        result = None
        for op, right_e in zip(e.ops, e.comparators):
            right = self.eval(frame, right_e)
            r = self.compare(op, left, right)
            if len(e.ops) == 1:
                return r
            # chained: short-circuit
            t = self.ctx.truth(r)
            if not self.ctx.branch(t, "cmpchain"):
                return False
            result = r
            left = right
        return True

    def ex_Lambda(self, frame, e):
        fi = FunctionInfo(frame.module, (frame.fi.qualname + "." if frame.fi else "") + "<lambda>", e)
        fi.name = "<lambda>"
        fn = Closure(fi, frame.closure_env + [frame.locals])
        fn.cls_ctx = frame.cls_ctx
        return fn

    def ex_Yield(self, frame, e):
        """`yield x` in the body of the function under contract (a @contextmanager generator): the value is recorded and the body goes
        on as if the consumer resumed it at once with None - what follows the yield is what runs when the context is left"""
        if self.ctx.depth > 1:
            raise Unsupported("yield in a called function (generators are only supported as the function under contract)")
        v = self.eval(frame, e.value) if e.value is not None else None
        self.ctx.ghost.setdefault("yielded", []).append(v)
        self.ctx.note("generator body executed straight through: each yield hands its value out and is resumed at once")
        return None

    def ex_Await(self, frame, e):
        v = self.eval(frame, e.value)
        return self.await_(v)

    def await_(self, v):
        if isinstance(v, Coro):
            return v.thunk()
        v2 = self.ctx.from_val(v) if isinstance(v, SV) else v
        if isinstance(v2, Coro):
            return v2.thunk()
        if isinstance(v2, SV) and isinstance(v2.ty, TAbs) and "__await__" in v2.ty.methods:
            from .calls import apply_contract

            return apply_contract(self, v2.ty.methods["__await__"], [v2], {}, callee_label="%s.__await__" % v2.ty.name)
        raise Unsupported("await of %r" % (v,))

    def ex_JoinedStr(self, frame, e):
        parts = []
        for p in e.values:
            if isinstance(p, ast.Constant):
                parts.append(self.ctx.to_val(p.value))
            else:
                v = self.eval(frame, p.value)
                parts.append(self.B.to_str(self, v, repr_=(p.conversion == ord("r"))))
        return self.B.concat_strs(self, parts)

    def ex_GeneratorExp(self, frame, e):
        return GenExp(e, frame)

    def ex_ListComp(self, frame, e):
        return self.B.comprehension(self, GenExp(e, frame), "list")

    def ex_SetComp(self, frame, e):
        return self.B.comprehension(self, GenExp(e, frame), "set")

    def ex_DictComp(self, frame, e):
        return self.B.comprehension(self, GenExp(e, frame), "dict")

    def ex_Starred(self, frame, e):
        raise Unsupported("starred expression outside call/display")

    def ex_Subscript(self, frame, e):
        obj = self.eval(frame, e.value)
        if isinstance(e.slice, ast.Slice):
            lo = self.eval(frame, e.slice.lower) if e.slice.lower is not None else None
            hi = self.eval(frame, e.slice.upper) if e.slice.upper is not None else None
            if e.slice.step is not None:
                # a constant step on a sequence of known size (x[::-1], x[::2]): computed on the display; a string constant likewise
                step = self.eval(frame, e.slice.step)
                o2 = self.ctx.from_val(obj) if isinstance(obj, SV) else obj
                ints = lambda v: v is None or (isinstance(v, int) and not isinstance(v, bool))
                if isinstance(step, int) and not isinstance(step, bool) and step != 0 and ints(lo) and ints(hi):
                    if isinstance(o2, (VTuple, VList)):
                        return o2.__class__(o2.items[lo:hi:step])
                    if isinstance(o2, str):
                        return o2[lo:hi:step]
                raise Unsupported("slice step")
            return self.B.slice_(self, obj, lo, hi)
        idx = self.eval(frame, e.slice)
        return self.subscript(obj, idx)

    def ex_Call(self, frame, e):
        fn = self.eval(frame, e.func)
        # zero-argument super()
        if isinstance(fn, Builtin) and fn.name == "super" and not e.args:
            selfname = frame.fi.node.args.args[0].arg
            return SuperProxy(frame.locals[selfname], frame.cls_ctx)
        args = []
        for a in e.args:
            if isinstance(a, ast.Starred):
                v = self.eval(frame, a.value)
                v2 = self.ctx.from_val(v) if isinstance(v, SV) else v
                if isinstance(v2, SV) and isinstance(v2.ty, TSeq):
                    args.append(StarArg(v2))
                    continue
                args.extend(self.iterate_concrete(v))
            else:
                args.append(self.eval(frame, a))
        kwargs = {}
        for k in e.keywords:
            v = self.eval(frame, k.value)
            if k.arg is None:
                v = self.ctx.from_val(v) if isinstance(v, SV) else v
                if not isinstance(v, VDict):
                    raise Unsupported("**kwargs of non-concrete mapping")
                for kk, vv in v.items.items():
                    if kk in kwargs:
                        raise PyRaise(self.make_exception(ExternalRef("TypeError"), ["got multiple values for keyword argument"]))
                    kwargs[kk] = vv
            else:
                kwargs[k.arg] = v
        return self.call(fn, args, kwargs, site=e)

    # =================================================================================== operations
    def num_operand(self, v):
        """coerce to an SV that is known to be a number, or raise TypeError outcome / Unsupported"""
        if isinstance(v, bool):
            return SV(Z.mk_bool(v), TNum(boolean=True))
        if isinstance(v, (int, float)):
            return self.ctx.to_val(v)
        if isinstance(v, SV):
            if isinstance(v.ty, (TAny, TOpt)):
                v = self.ctx.narrow(v)
            if isinstance(v.ty, (TNum, TBool)):
                return v
            if isinstance(v.ty, TOpt):
                if self.ctx.branch(Z.is_none(v.t), "operand-is-None"):
                    raise PyRaise(self.make_exception(ExternalRef("TypeError"), ["unsupported operand type NoneType"]))
                return self.num_operand(self.ctx.typed(v.t, v.ty.inner))
            if isinstance(v.ty, TAny):
                if self.ctx.branch(Z.is_num(v.t), "isnum"):
                    return v
                raise PyRaise(self.make_exception(ExternalRef("TypeError"), ["unsupported operand type"]))
        raise Unsupported("numeric operand %r" % (v,))

    def binop(self, op, a, b):
        a = self.ctx.from_val(a) if isinstance(a, SV) else a
        b = self.ctx.from_val(b) if isinstance(b, SV) else b
        # python-level constants
        if isinstance(a, (int, float, str)) and isinstance(b, (int, float, str)) and not isinstance(op, ast.Mod):
            try:
                return _PYOPS[type(op)](a, b)
            except ZeroDivisionError:
                raise PyRaise(self.make_exception(ExternalRef("ZeroDivisionError"), []))
            except TypeError:
                raise PyRaise(self.make_exception(ExternalRef("TypeError"), []))
        if isinstance(op, ast.RShift):
            return self.B.rshift(self, a, b)
        # strings
        if self.B.is_strlike(a):
            if isinstance(op, ast.Mod):
                return self.B.str_format_percent(self, a, b)
            if isinstance(op, ast.Add) and self.B.is_strlike(b):
                return self.B.concat_strs(self, [self.ctx.to_val(a), self.ctx.to_val(b)])
            if isinstance(op, ast.Add) and (b is None or isinstance(b, (bool, int, float, VTuple, VList, VDict, VSet)) or (isinstance(b, SV) and isinstance(b.ty, (TNum, TBool, TNone)))):
                raise PyRaise(self.make_exception(ExternalRef("TypeError"), ["can only concatenate str (not a number / None / container) to str"]))
            if isinstance(op, (ast.Sub, ast.Div, ast.FloorDiv, ast.Pow, ast.MatMult, ast.BitAnd, ast.BitOr, ast.BitXor, ast.LShift)) and (
                    b is None or isinstance(b, (bool, int, float, str, VTuple, VList, VDict, VSet, ClassInfo, ExternalRef)) or type(b).__name__ in ("TypeOf", "Builtin")
                    or (isinstance(b, SV) and isinstance(b.ty, (TNum, TBool, TNone, TStr)))):
                # str defines none of these operators, and the right operand is of a kind that has no reflected version either
                raise PyRaise(self.make_exception(ExternalRef("TypeError"), ["unsupported operand type(s) for a str"]))
            raise Unsupported("string operator %s" % op.__class__.__name__)
        if isinstance(a, (VTuple, VList)) and isinstance(b, (VTuple, VList)) and isinstance(op, ast.Add):
            return a.__class__(a.items + b.items)
        if isinstance(a, VSet) and isinstance(b, VSet) and isinstance(op, ast.BitOr):
            return VSet(list(dict.fromkeys(a.items + b.items)))
        if isinstance(a, SymSet) and isinstance(b, SymSet) and isinstance(op, ast.Sub):
            return SymSet(lambda k, p=a.pred, q=b.pred: z3.And(p(k), z3.Not(q(k))), "difference")
        if isinstance(a, SymSet) and isinstance(b, VSet) and isinstance(op, ast.Sub):
            terms = [self.ctx.to_val(x).t for x in b.items]
            return SymSet(lambda k, p=a.pred: z3.And(p(k), *[k != t for t in terms]), "difference")
        x = self.num_operand(a)
        y = self.num_operand(b)
        rt = TNum(inf=True, nan=True)
        if isinstance(x.ty, TNum) and isinstance(y.ty, TNum) and x.ty.static_finite and y.ty.static_finite:
            # both operands are finite int/float by their shapes: the finite case of CPython's arithmetic, no case analysis
            xr, yr = Z.Val.r(x.t), Z.Val.r(y.t)
            bi = z3.And(Z.Val.isint(x.t), Z.Val.isint(y.t))
            if isinstance(op, ast.Add):
                return SV(Z.Val.numv(bi, xr + yr), TNum())
            if isinstance(op, ast.Sub):
                return SV(Z.Val.numv(bi, xr - yr), TNum())
            if isinstance(op, ast.Mult):
                return SV(Z.Val.numv(bi, xr * yr), TNum())
            if isinstance(op, ast.Div):
                if self.ctx.branch(yr == 0, "divzero"):
                    raise PyRaise(self.make_exception(ExternalRef("ZeroDivisionError"), ["division by zero"]))
                return SV(Z.mk_flt(xr / yr), TNum(only="float"))
        if isinstance(op, ast.Add):
            return SV(Z.num_add(x.t, y.t), rt)
        if isinstance(op, ast.Sub):
            return SV(Z.num_sub(x.t, y.t), rt)
        if isinstance(op, ast.Mult):
            return SV(Z.num_mul(x.t, y.t), rt)
        if isinstance(op, (ast.Div, ast.FloorDiv, ast.Mod)):
            if self.ctx.branch(Z.sign_zero(y.t), "divzero"):
                raise PyRaise(self.make_exception(ExternalRef("ZeroDivisionError"), ["division by zero"]))
            if isinstance(op, ast.Div):
                return SV(Z.num_truediv(x.t, y.t), rt)
            return SV(self.floordiv_mod(x, y, isinstance(op, ast.Mod)), rt)
        raise Unsupported("binary operator %s" % op.__class__.__name__)

    def floordiv_mod(self, x, y, want_mod):
        """a // b and a % b for b != 0.  On finite operands the quotient is a fresh integer q constrained by
        q*b <= a < (q+1)*b (b > 0; mirrored for b < 0) - the definition of floor division - so that the
        solver sees the monomial q*b instead of a division by a symbolic term."""
        ctx = self.ctx
        fin = z3.And(Z.is_finite(x.t), Z.is_finite(y.t))
        if not ctx.branch(fin, "floordiv-finite"):
            return (Z.num_mod if want_mod else Z.num_floordiv)(x.t, y.t)
        a, b = Z.rval(x.t), Z.rval(y.t)
        q = fresh("q", z3.IntSort())
        qr = z3.ToReal(q)
        ctx.assume(z3.If(b > 0, z3.And(qr * b <= a, a < qr * b + b), z3.And(qr * b >= a, a > qr * b + b)))
        both_int = z3.And(Z.is_intlike(x.t), Z.is_intlike(y.t))
        if want_mod:
            return Z.mk_num(both_int, a - qr * b)
        return Z.mk_num(both_int, qr)

    def compare(self, op, a, b):
        ctx = self.ctx
        a = ctx.from_val(a) if isinstance(a, SV) else a
        b = ctx.from_val(b) if isinstance(b, SV) else b
        if isinstance(op, (ast.Is, ast.IsNot)):
            r = self.identical(a, b)
            if isinstance(op, ast.IsNot):
                r = (not r) if isinstance(r, bool) else z3.Not(r)
            return r if isinstance(r, bool) else SV(Z.mk_bool(r), TBool())
        if isinstance(op, (ast.In, ast.NotIn)):
            r = self.B.contains(self, b, a)
            if isinstance(op, ast.NotIn):
                r = (not r) if isinstance(r, bool) else z3.Not(r)
            return r if isinstance(r, bool) else SV(Z.mk_bool(r), TBool())
        if isinstance(op, (ast.Eq, ast.NotEq)):
            r = self.equal(a, b)
            if isinstance(op, ast.NotEq):
                r = (not r) if isinstance(r, bool) else z3.Not(r)
            return r if isinstance(r, bool) else SV(Z.mk_bool(r), TBool())
        # ordering
        if isinstance(a, (int, float)) and isinstance(b, (int, float)):
            return _PYCMP[type(op)](a, b)
        if self.B.is_strlike(a) and self.B.is_strlike(b):
            x, y = ctx.to_val(a), ctx.to_val(b)
            sa, sb = Z.Val.s(x.t), Z.Val.s(y.t)
            f = {ast.Lt: sa < sb, ast.LtE: sa <= sb, ast.Gt: sb < sa, ast.GtE: sb <= sa}[type(op)]
            return SV(Z.mk_bool(f), TBool())
        x = self.num_operand(a)
        y = self.num_operand(b)
        f = {
            ast.Lt: lambda: Z.x_lt(x.t, y.t),
            ast.LtE: lambda: Z.x_le(x.t, y.t),
            ast.Gt: lambda: Z.x_lt(y.t, x.t),
            ast.GtE: lambda: Z.x_le(y.t, x.t),
        }[type(op)]()
        return SV(Z.mk_bool(f), TBool())

    def identical(self, a, b):
        if not isinstance(a, SV) and not isinstance(b, SV):
            if isinstance(a, (ClassInfo, ExternalRef, ModuleInfo, Builtin)) or isinstance(b, (ClassInfo, ExternalRef, ModuleInfo, Builtin)):
                return a == b
            if a is None or b is None:
                return a is b
            if isinstance(a, bool) or isinstance(b, bool):
                return a is b
            if isinstance(a, Closure) and isinstance(b, Closure):
                return a is b or (a.fi.node is b.fi.node and not a.env and not b.env)
            return a is b
        x, y = self.ctx.to_val(a), self.ctx.to_val(b)
        if a is None or b is None or isinstance(x.ty, (TRef, TNone)) or isinstance(y.ty, (TRef, TNone)):
            return x.t == y.t
        if isinstance(x.ty, TAny) or isinstance(y.ty, TAny):
            # identity of immutable literals is unspecified in Python; only none/bool/ref identity is modelled
            ok = z3.Or(Z.is_none(x.t), Z.is_refv(x.t), Z.is_boolv(x.t), Z.is_none(y.t), Z.is_refv(y.t), Z.is_boolv(y.t))
            if self.ctx.branch(ok, "is-operands"):
                return x.t == y.t
            raise Unsupported("identity comparison of number/str values")
        raise Unsupported("identity comparison %r is %r" % (a, b))

    def equal(self, a, b):
        if not isinstance(a, SV) and not isinstance(b, SV):
            if isinstance(a, (VTuple, VList)) and isinstance(b, (VTuple, VList)):
                if type(a) is not type(b):
                    return False
                if len(a.items) != len(b.items):
                    return False
                conj = []
                for x, y in zip(a.items, b.items):
                    r = self.equal(x, y)
                    if r is False:
                        return False
                    if r is not True:
                        conj.append(r)
                return z3.And(*conj) if conj else True
            if isinstance(a, VDict) and isinstance(b, VDict):
                if set(a.items) != set(b.items):
                    return False
                conj = []
                for k in a.items:
                    r = self.equal(a.items[k], b.items[k])
                    if r is False:
                        return False
                    if r is not True:
                        conj.append(r)
                return z3.And(*conj) if conj else True
            if isinstance(a, (VTuple, VList, VDict, VSet)) or isinstance(b, (VTuple, VList, VDict, VSet)):
                if isinstance(a, (int, float, str, bool, type(None))) or isinstance(b, (int, float, str, bool, type(None))):
                    return False
                if isinstance(a, (ClassInfo, ExternalRef, ModuleInfo, Closure)) or isinstance(b, (ClassInfo, ExternalRef, ModuleInfo, Closure)):
                    return False
                kinds = (VTuple, VList, VDict, VSet)
                if isinstance(a, kinds) and isinstance(b, kinds) and type(a) is not type(b):
                    return False        # a dict never equals a tuple, a list never equals a set, ...
                raise Unsupported("container equality")
            if isinstance(a, (ClassInfo, ExternalRef, ModuleInfo, Builtin, Closure)) or isinstance(b, (ClassInfo, ExternalRef, ModuleInfo, Builtin, Closure)):
                return self.identical(a, b)
            return a == b
        if isinstance(a, (VTuple, VList, VDict, VSet)) or isinstance(b, (VTuple, VList, VDict, VSet)):
            other = b if isinstance(a, (VTuple, VList, VDict, VSet)) else a
            if isinstance(other.ty, (TNum, TStr, TBool, TNone)):
                return False
            if isinstance(other.ty, TAny):
                # a container of known size against an ARBITRARY value (e.g. a loop-carried local): equal or not - an unknown fact, both explored
                self.ctx.ghost["nondet"] = True
                return fresh("container_equals_unknown", z3.BoolSort())
            raise Unsupported("equality of container and symbolic value")
        x, y = self.ctx.to_val(a), self.ctx.to_val(b)
        for v in (x, y):
            if isinstance(v.ty, TObj):
                cls = self.ctx.resolve_ty(v.ty).cls
                _, m = self.repo.lookup_member(cls, "__eq__")
                if m is not None:
                    raise Unsupported("user-defined __eq__")
        return Z.py_eq(x.t, y.t)

    # ---- exceptions -------------------------------------------------------------------------------
    def make_exception(self, cls, args, cause=None):
        ctx = self.ctx
        e = ctx.alloc(cls, TExc())
        for i, a in enumerate(args[:2]):
            ctx.store_raw(ctx.ref_id(e), "$arg%d" % i, ctx.to_val(a).t)
        ctx.store_raw(ctx.ref_id(e), "$nargs", Z.mk_int(len(args)))
        return e

    def exc_class_term(self, exc):
        return z3.simplify(z3.Select(self.ctx.field_array("$cls"), self.ctx.ref_id(exc)))

    def exc_matches(self, exc, spec):
        spec = self.ctx.from_val(spec) if isinstance(spec, SV) else spec
        if isinstance(spec, VTuple):
            for s in spec.items:
                if self.exc_matches(exc, s):
                    return True
            return False
        if not isinstance(spec, (ClassInfo, ExternalRef)):
            raise Unsupported("except clause with %r" % (spec,))
        return self.ctx.branch(self.isa_term(exc, spec), "except-%s" % (spec.name if isinstance(spec, ClassInfo) else spec.dotted))

    def isa_term(self, exc, cls):
        """z3 Bool / python bool: the (exception) object's class is a subclass of cls"""
        ctx = self.ctx
        cidt = self.exc_class_term(exc)
        reg = self.E.classes
        if z3.is_int_value(cidt):
            k = reg.by_id[cidt.as_long()]
            return reg.is_sub(k, cls)
        return ctx.isa_formula(cidt, cls)

    def sym_exception(self, bound_cls, label="exc"):
        """a fresh exception object whose class is an unknown subclass of bound_cls"""
        ctx = self.ctx
        e = ctx.alloc(None, TExc())
        cid = fresh("cls_" + label, z3.IntSort())
        ctx.store_raw(ctx.ref_id(e), "$cls", cid)
        reg = self.E.classes
        ctx.ghost[("symcls", cid.sexpr())] = []
        ctx.assume(self.isa_term(e, ExternalRef("BaseException")))
        ctx.assume(self.isa_term(e, bound_cls))
        ctx.assume(cid >= 1000)
        return e

    # ---- iteration helpers --------------------------------------------------------------------------
    def try_concrete_iter(self, it):
        it = self.ctx.from_val(it) if isinstance(it, SV) else it
        if isinstance(it, (VTuple, VList, VSet)):
            return list(it.items)
        if isinstance(it, VDict):
            return list(it.items.keys())
        if isinstance(it, self.B.ConcreteIter):
            items = list(it.items)
            if getattr(it, "oneshot", False):
                it.items = []         # exhausted by this iteration
            return items
        if isinstance(it, GenExp):
            return self.B.genexp_concrete(self, it)
        return None

    def iterate_concrete(self, v, expect=None):
        c = self.try_concrete_iter(v)
        if c is None:
            if isinstance(v, SV) and isinstance(v.ty, TTuple):
                items = z3.Select(self.ctx.field_array("$item"), self.ctx.ref_id(v))
                return [self.ctx.typed(z3.Select(items, z3.IntVal(k)), ety) for k, ety in enumerate(v.ty.elems)]
            if isinstance(v, SV) and isinstance(v.ty, TSeq) and expect is not None:
                # unpacking a heap tuple of declared arity
                ln = z3.Select(self.ctx.field_array("$len"), self.ctx.ref_id(v))
                if not self.ctx.branch(ln == expect, "unpack-len"):
                    raise PyRaise(self.make_exception(ExternalRef("ValueError"), ["unpack"]))
                return [self.B.seq_item(self, v, z3.IntVal(k)) for k in range(expect)]
            raise Unsupported("iteration over non-concrete %r" % (v,))
        return c

    # ---- subscripts -------------------------------------------------------------------------------
    def subscript(self, obj, idx):
        return self.B.subscript(self, obj, idx)

    def store_subscript(self, obj, idx, v):
        return self.B.store_subscript(self, obj, idx, v)

    # =================================================================================== attributes
    def getattr(self, obj, name):
        from .objects import getattr_
        return getattr_(self, obj, name)

    def setattr(self, obj, name, v):
        from .objects import setattr_
        return setattr_(self, obj, name, v)

    # =================================================================================== calls
    def call(self, fn, args, kwargs, site=None):
        from .calls import call_
        return call_(self, fn, args, kwargs, site)


import operator

_PYOPS = {
    ast.Add: operator.add,
    ast.Sub: operator.sub,
    ast.Mult: operator.mul,
    ast.Div: operator.truediv,
    ast.FloorDiv: operator.floordiv,
    ast.Mod: operator.mod,
}
_PYCMP = {ast.Lt: operator.lt, ast.LtE: operator.le, ast.Gt: operator.gt, ast.GtE: operator.ge}
