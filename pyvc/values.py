"""Python-side value wrappers used by the symbolic executor."""
import z3
from . import z as Z
from .types import T, TAny, TNum, TBool, TStr, TNone, TRef, TObj, TAbs, TFn, TSeq, TExc, TOpt

ANY = TAny()


class SV:
    """symbolic value: a z3 term of sort Val plus an optional static shape"""

    __slots__ = ("t", "ty")

    def __init__(self, t, ty=None):
        self.t = t
        self.ty = ty or ANY

    def __repr__(self):
        return "SV(%s : %s)" % (Z.S(self.t), self.ty.describe())


class VTuple:
    """immutable sequence of known length (tuple display, *args, concrete tuples)"""

    def __init__(self, items):
        self.items = list(items)

    def __repr__(self):
        return "VTuple(%r)" % (self.items,)


class VList:
    """mutable list of known length, local to a path (paths re-execute from scratch, so Python-level mutation is per path)"""

    def __init__(self, items):
        self.items = list(items)

    def __repr__(self):
        return "VList(%r)" % (self.items,)


class VDict:
    """mutable dict with concrete (Python str / hashable constant) keys, insertion ordered"""

    def __init__(self, items=None):
        self.items = dict(items or {})

    def __repr__(self):
        return "VDict(%r)" % (self.items,)


class SymKey:
    """a dict key that is a tuple with SYMBOLIC leaves (e.g. a (low, high) range): hashed by identity; store_subscript decides - by
    branching on the path condition - whether it equals a key already present"""

    def __init__(self, key):
        self.key = key

    def __repr__(self):
        return "SymKey(%r)" % (self.key,)


def unkey(k):
    """a VDict key as the program sees it"""
    if isinstance(k, SymKey):
        return k.key
    if isinstance(k, tuple):
        return VTuple([unkey(x) for x in k])
    return k


class VSet:
    """mutable set of known size of python-hashable constants"""

    def __init__(self, items=()):
        self.items = list(items)


class Closure:
    def __init__(self, fi, env, self_val=None, defaults=None, kwdefaults=None):
        self.fi = fi
        self.env = env  # enclosing frames' locals (list of dicts), innermost last
        self.self_val = self_val
        self.defaults = defaults
        self.kwdefaults = kwdefaults
        self.attrs = {}  # function attributes set by code (e.g. __requirements__)

    def __repr__(self):
        return "<closure %s>" % self.fi.key


class BoundMethod:
    def __init__(self, self_val, fn, owner=None):
        self.self_val = self_val
        self.fn = fn  # FunctionInfo
        self.owner = owner

    def __repr__(self):
        return "<bound %s of %r>" % (self.fn.key, self.self_val)


class AbstractMethod:
    def __init__(self, self_val, name, contract):
        self.self_val, self.name, self.contract = self_val, name, contract


class Builtin:
    def __init__(self, name):
        self.name = name

    def __repr__(self):
        return "<builtin %s>" % self.name


class SeqMethod:
    """bound method of a container / str value"""

    def __init__(self, obj, name):
        self.obj, self.name = obj, name


class TypeOf:
    """result of type(x) for a symbolic x"""

    def __init__(self, sv):
        self.sv = sv


class PartialFn:
    """functools.partial(f, *a, **k) (assumed contract: partial(f,*a,**k)(*b,**l) == f(*a,*b,**k,**l))"""

    def __init__(self, fn, args, kwargs):
        self.fn, self.args, self.kwargs = fn, list(args), dict(kwargs)


class SymSet:
    """a set given by its membership predicate over Val terms: {k | pred(k)} (keys views, set comprehensions, differences)"""

    def __init__(self, pred, label="set"):
        self.pred, self.label = pred, label


class MapIter:
    """dict.values() / .items() / .keys() of a heap map: iterated through the map's key sequence ($len/$item of the map)"""

    def __init__(self, m, mode):
        self.m, self.mode = m, mode


class StarArg:
    """*seq in a call where seq is a heap sequence of unknown length (only assumed library contracts accept it)"""

    def __init__(self, sv):
        self.sv = sv


class SuperProxy:
    def __init__(self, self_val, after_cls):
        self.self_val, self.after_cls = self_val, after_cls


def const_of(t):
    """concrete python value of a Val term if it simplifies to a literal, else None (returns a 1-tuple)"""
    s = Z.S(t)
    if not z3.is_app(s):
        return None
    d = s.decl().name()
    if d == "none":
        return (None,)
    if d == "boolv" and (z3.is_true(s.arg(0)) or z3.is_false(s.arg(0))):
        return (z3.is_true(s.arg(0)),)
    if d == "numv" and (z3.is_true(s.arg(0)) or z3.is_false(s.arg(0))) and z3.is_rational_value(s.arg(1)):
        a = s.arg(1)
        if z3.is_true(s.arg(0)):
            if a.denominator_as_long() != 1:
                return None
            return (a.numerator_as_long(),)
        return (a.numerator_as_long() / a.denominator_as_long(),)
    if d == "infv" and (z3.is_true(s.arg(0)) or z3.is_false(s.arg(0))):
        return (float("-inf") if z3.is_true(s.arg(0)) else float("inf"),)
    if d == "strv" and z3.is_string_value(s.arg(0)):
        return (s.arg(0).as_string(),)
    return None
