"""Contract objects and the specification vocabulary (views over a heap snapshot).

Clauses are Python callables ``f(c, **params)`` returning z3 Bools (or dicts label -> Bool).
Parameters arrive as *views*: numbers as ``N`` (extended-real arithmetic, total), objects as
``ObjView`` bound to one heap snapshot (``c.old(x)`` rebinds to the pre-state), sequences as ``SeqView``.
"""
import z3

from . import z as Z
from .types import *
from .values import *
from .repo import ExternalRef


class N:
    """spec-level number: wraps a Val term; arithmetic is CPython's on (int | real | +-inf | nan), comparisons extended-real"""

    def __init__(self, t, fin=False):
        self.fin = fin  # statically known finite int/float: arithmetic without case analysis
        if isinstance(t, N):
            self.fin = fin or t.fin
            t = t.t
        elif hasattr(t, "t") and z3.is_expr(getattr(t, "t")) and not isinstance(t, SV):
            t = t.t
        elif isinstance(t, bool):
            t = Z.mk_bool(t)
        elif isinstance(t, int):
            t = Z.mk_int(t)
            self.fin = True
        elif isinstance(t, float):
            self.fin = t not in (float("inf"), float("-inf")) and t == t
            t = Z.POS_INF if t == float("inf") else Z.NEG_INF if t == float("-inf") else Z.mk_flt(repr(t))
        elif isinstance(t, SV):
            t = t.t
        elif z3.is_expr(t) and t.sort() != Z.Val:
            self.fin = True
            if t.sort() == z3.IntSort():
                t = Z.mk_int(t)
            elif t.sort() == z3.RealSort():
                t = Z.mk_flt(t)
            else:
                raise TypeError("cannot make N from %s" % t.sort())
        if z3.is_expr(t) and z3.is_app(t) and t.decl().name() == "numv":
            self.fin = True
        self.t = t

    def _o(self, o):
        return o if isinstance(o, N) else N(o)

    # components
    @property
    def r(self):
        return Z.Val.r(self.t) if self.fin else Z.rval(self.t)

    def _both_fin(self, o):
        return self.fin and isinstance(o, N) and o.fin

    @property
    def finite(self):
        return Z.is_finite(self.t)

    @property
    def isint(self):
        return Z.is_intlike(self.t)

    @property
    def is_pinf(self):
        return Z.is_pinf(self.t)

    @property
    def is_ninf(self):
        return Z.is_ninf(self.t)

    @property
    def is_nan(self):
        return Z.is_nanv(self.t)

    def __add__(self, o):
        o = self._o(o)
        if self._both_fin(o):
            return N(Z.Val.numv(z3.And(Z.Val.isint(self.t), Z.Val.isint(o.t)), self.r + o.r), fin=True)
        return N(Z.num_add(self.t, N(o).t))

    __radd__ = __add__

    def __sub__(self, o):
        o = self._o(o)
        if self._both_fin(o):
            return N(Z.Val.numv(z3.And(Z.Val.isint(self.t), Z.Val.isint(o.t)), self.r - o.r), fin=True)
        return N(Z.num_sub(self.t, N(o).t))

    def __rsub__(self, o):
        return N(Z.num_sub(N(o).t, self.t))

    def __mul__(self, o):
        o = self._o(o)
        if self._both_fin(o):
            return N(Z.Val.numv(z3.And(Z.Val.isint(self.t), Z.Val.isint(o.t)), self.r * o.r), fin=True)
        return N(Z.num_mul(self.t, N(o).t))

    __rmul__ = __mul__

    def __truediv__(self, o):
        return N(Z.num_truediv(self.t, N(o).t))

    def __neg__(self):
        return N(Z.num_neg(self.t))

    def __abs__(self):
        if self.fin:
            return N(Z.Val.numv(Z.Val.isint(self.t), z3.If(self.r < 0, -self.r, self.r)), fin=True)
        return N(Z.num_abs(self.t))

    # comparisons: plain real comparisons when both sides are finite by their shapes, extended-real otherwise
    def __lt__(self, o):
        o = self._o(o)
        return self.r < o.r if self._both_fin(o) else Z.x_lt(self.t, o.t)

    def __le__(self, o):
        o = self._o(o)
        return self.r <= o.r if self._both_fin(o) else Z.x_le(self.t, o.t)

    def __gt__(self, o):
        o = self._o(o)
        return self.r > o.r if self._both_fin(o) else Z.x_lt(o.t, self.t)

    def __ge__(self, o):
        o = self._o(o)
        return self.r >= o.r if self._both_fin(o) else Z.x_le(o.t, self.t)

    def __eq__(self, o):
        if o is None:
            return Z.is_none(self.t)
        o = self._o(o)
        return self.r == o.r if self._both_fin(o) else Z.x_eq(self.t, o.t)

    def __ne__(self, o):
        return z3.Not(self.__eq__(o))

    def same(self, o):
        """identical value including int/float kind"""
        return self.t == N(o).t

    __hash__ = None

    def __repr__(self):
        return "N(%s)" % Z.S(self.t)


class AnyView:
    def __init__(self, t):
        self.t = t.t if isinstance(t, SV) else t

    def __eq__(self, o):
        if o is None:
            return Z.is_none(self.t)
        if isinstance(o, str):
            return self.t == Z.mk_str(o)
        return self.t == _term(o)

    def __ne__(self, o):
        return z3.Not(self.__eq__(o))

    @property
    def is_none(self):
        return Z.is_none(self.t)

    @property
    def truthy(self):
        return Z.truthy(self.t)

    @property
    def n(self):
        return N(self.t)

    __hash__ = None


def _term(x):
    if isinstance(x, (N, AnyView, ObjView, SeqView, TupleView, MapView)):
        return x.t
    if isinstance(x, SV):
        return x.t
    if x is None:
        return Z.NONE
    if isinstance(x, bool):
        return Z.mk_bool(x)
    if isinstance(x, int):
        return Z.mk_int(x)
    if isinstance(x, float):
        return N(x).t
    if isinstance(x, str):
        return Z.mk_str(x)
    if z3.is_expr(x):
        return x
    raise TypeError("no term for %r" % (x,))


def has_bound_var(e):
    seen, todo = set(), [e]
    while todo:
        x = todo.pop()
        if x.get_id() in seen:
            continue
        seen.add(x.get_id())
        if z3.is_var(x):
            return True
        todo.extend(x.children())
    return False


class ListView(list):
    """view of a display of known length; .raw is the executor's own object (its identity is the display's identity)"""
    raw = None


class DictView(dict):
    raw = None


class ObjView:
    """object bound to a heap snapshot; attribute access reads raw fields (no property resolution)"""

    def __init__(self, spec, t, ty, heap):
        object.__setattr__(self, "_spec", spec)
        object.__setattr__(self, "t", t)
        object.__setattr__(self, "ty", ty)
        object.__setattr__(self, "_heap", heap)

    @property
    def id(self):
        return Z.Val.id(self.t)

    def field(self, name, ty=None):
        spec = self._spec
        arr = spec.ctx.rd(self._heap, name)
        t = z3.Select(arr, Z.Val.id(self.t))
        fty = ty
        if fty is None and isinstance(self.ty, (TObj, TAbs)):
            fty = self.ty.fields.get(name)
            if fty is None and isinstance(self.ty, TAbs):
                fty = getattr(self.ty, "optional", {}).get(name)
        return spec.view_term(t, fty, self._heap)

    def has(self, name):
        """an optional attribute (TAbs.optional) is present in this heap"""
        return Z.Val.b(z3.Select(self._spec.ctx.rd(self._heap, "has:" + name), Z.Val.id(self.t)))

    def __getattr__(self, name):
        if name.startswith("__"):
            raise AttributeError(name)
        return self.field(name)

    def __eq__(self, o):
        return self.t == _term(o)

    def __ne__(self, o):
        return self.t != _term(o)

    def cls_is(self, cls_key):
        spec = self._spec
        c = spec.ctx.repo.get(cls_key) if ":" in cls_key else ExternalRef(cls_key)
        cidt = z3.simplify(z3.Select(spec.ctx.rd(self._heap, "$cls"), self.id))
        if not z3.is_int_value(cidt) and not has_bound_var(cidt) and spec.ctx.E.classes.is_exception_class(c):
            spec.ctx.isa_formula(cidt, c)  # instantiates: cid == id(c) => its subclass facts are c's
        return cidt == spec.ctx.E.classes.cid(c)

    def isa(self, cls_key):
        from .engine import isa as isa_fn

        spec = self._spec
        c = spec.ctx.repo.get(cls_key) if ":" in cls_key else ExternalRef(cls_key)
        cidt = z3.simplify(z3.Select(spec.ctx.rd(self._heap, "$cls"), self.id))
        reg = spec.ctx.E.classes
        if z3.is_int_value(cidt):
            return z3.BoolVal(reg.is_sub(reg.by_id[cidt.as_long()], c))
        if has_bound_var(cidt):
            return isa_fn(cidt, reg.cid(c))
        return spec.ctx.isa_formula(cidt, c)

    __hash__ = None


class SeqView:
    def __init__(self, spec, t, ty, heap):
        self._spec, self.t, self.ty, self._heap = spec, t, ty, heap

    @property
    def id(self):
        return Z.Val.id(self.t)

    @property
    def len(self):
        return z3.Select(self._spec.ctx.rd(self._heap, "$len"), self.id)

    def __getitem__(self, k):
        if isinstance(k, int):
            k = z3.IntVal(k)
        items = z3.Select(self._spec.ctx.rd(self._heap, "$item"), self.id)
        return self._spec.view_term(z3.Select(items, k), self.ty.elem if isinstance(self.ty, TSeq) else None, self._heap)

    def item_term(self, k):
        items = z3.Select(self._spec.ctx.rd(self._heap, "$item"), self.id)
        return z3.Select(items, k)

    def distinct(self):
        return self._spec.forall("di dj", lambda i, j: z3.Implies(z3.And(0 <= i, i < j, j < self.len), self.item_term(i) != self.item_term(j)))

    def contains_id(self, idt):
        return self._spec.exists("ck", lambda k: z3.And(0 <= k, k < self.len, Z.Val.id(self.item_term(k)) == idt))

    __hash__ = None


class MapView:
    def __init__(self, spec, t, ty, heap):
        self._spec, self.t, self.ty, self._heap = spec, t, ty, heap

    @property
    def id(self):
        return Z.Val.id(self.t)

    @property
    def keys(self):
        """the key sequence (insertion order)"""
        return SeqView(self._spec, self.t, TSeq(self.ty.key), self._heap)

    def wf(self):
        """well-formed map: the key sequence lists exactly the present keys, each once"""
        s = self._spec
        ks = self.keys
        k = z3.Const("wfk", Z.Val)
        listed = lambda key: s.exists("wq", lambda q: z3.And(0 <= q, q < ks.len, ks.item_term(q) == key))
        return z3.And(ks.len >= 0, s.forall("wj", lambda j: z3.Implies(z3.And(0 <= j, j < ks.len), self.has(ks.item_term(j)))),
                      ks.distinct(), z3.ForAll([k], z3.Implies(self.has(k), listed(k))))

    def has(self, key):
        return z3.Select(z3.Select(self._spec.ctx.rd(self._heap, "$mhas"), self.id), _term(key))

    def __getitem__(self, key):
        t = z3.Select(z3.Select(self._spec.ctx.rd(self._heap, "$mval"), self.id), _term(key))
        return self._spec.view_term(t, self.ty.val, self._heap)

    __hash__ = None


class SetView:
    """heap set of objects bound to a heap snapshot: membership array, set sums (pyvc/setsum.py)"""

    def __init__(self, spec, t, ty, heap):
        self._spec, self.t, self.ty, self._heap = spec, t, ty, heap

    @property
    def id(self):
        return Z.Val.id(self.t)

    @property
    def mem(self):
        return z3.Select(self._spec.ctx.rd(self._heap, "$mhas"), self.id)

    def has(self, x):
        return z3.Select(self.mem, _term(x))

    def sum(self, field, heap=None):
        from . import setsum

        setsum.ensure_axioms(self._spec.ctx)
        return setsum.ssum(self.mem, self._spec.ctx.rd(heap if heap is not None else self._heap, field))

    @property
    def card(self):
        from . import setsum

        return setsum.scard(self.mem)

    __hash__ = None


class TupleView:
    def __init__(self, spec, t, ty, heap):
        self._spec, self.t, self.ty, self._heap = spec, t, ty, heap

    @property
    def id(self):
        return Z.Val.id(self.t)

    def __getitem__(self, k):
        items = z3.Select(self._spec.ctx.rd(self._heap, "$item"), self.id)
        return self._spec.view_term(z3.Select(items, z3.IntVal(k)), self.ty.elems[k], self._heap)

    __hash__ = None


class Spec:
    """evaluation context of contract clauses"""

    def __init__(self, ctx, old_heap, new_heap=None):
        self.ctx = ctx
        self.old_heap = old_heap
        self.new_heap = new_heap if new_heap is not None else old_heap
        self.events = None
        self.tr = None
        self.trlen = None
        self.tr_old_len = None
        self.result = None
        self.exc = None
        self.extra = {}

    # logic
    And = staticmethod(lambda *a: z3.And(*[_b(x) for x in a]) if a else z3.BoolVal(True))
    Or = staticmethod(lambda *a: z3.Or(*[_b(x) for x in a]) if a else z3.BoolVal(False))
    Not = staticmethod(lambda a: z3.Not(_b(a)))
    Implies = staticmethod(lambda a, b: z3.Implies(_b(a), _b(b)))
    Iff = staticmethod(lambda a, b: _b(a) == _b(b))
    If = staticmethod(z3.If)

    def view(self, v, heap=None):
        heap = heap if heap is not None else self.new_heap
        if isinstance(v, SV):
            return self.view_term(v.t, v.ty, heap)
        if isinstance(v, (VTuple, VList)):
            r = ListView(self.view(x, heap) for x in v.items)
            r.raw = v
            return r
        if isinstance(v, VDict) and getattr(v, "sym", None) is not None:
            return self.view(v.sym, heap)          # a display that became a heap map
        if isinstance(v, VDict):
            r = DictView((k, self.view(x, heap)) for k, x in v.items.items())
            r.raw = v
            return r
        if isinstance(v, bool) or v is None or isinstance(v, (str,)):
            return v
        if isinstance(v, (int, float)):
            return N(v)
        return v

    def view_term(self, t, ty, heap):
        if isinstance(ty, (TNum,)):
            return N(t, fin=ty.static_finite)
        if isinstance(ty, TSeq):
            return SeqView(self, t, ty, heap)
        if isinstance(ty, TTuple):
            return TupleView(self, t, ty, heap)
        if isinstance(ty, TMap):
            return MapView(self, t, ty, heap)
        if type(ty).__name__ == "TSet":
            return SetView(self, t, ty, heap)
        if isinstance(ty, (TObj, TAbs, TExc, TFn, TRef)):
            if isinstance(ty, TObj):
                self.ctx.resolve_ty(ty)
            return ObjView(self, t, ty, heap)
        return AnyView(t)

    def old(self, x):
        for cls in (ObjView, SeqView, MapView, TupleView, SetView):
            if isinstance(x, cls):
                return cls(self, x.t, x.ty, self.old_heap)
        return x

    def new(self, x):
        for cls in (ObjView, SeqView, MapView, TupleView, SetView):
            if isinstance(x, cls):
                return cls(self, x.t, x.ty, self.new_heap)
        return x

    def loop_done(self, ordinal):
        """the sequence loop `ordinal` of the function under verification has iterated to exhaustion on this path (None: the path
        returned without completing that loop) - together with the iteration contract: every element got its iteration"""
        it = self.ctx.ghost.get("loops_done", {}).get(ordinal)
        return None if it is None else it.t

    def unchanged(self, obj, *fields):
        return z3.And(*[z3.Select(self.ctx.rd(self.new_heap, f), obj.id) == z3.Select(self.ctx.rd(self.old_heap, f), obj.id) for f in fields])

    def bound_method(self, obj, fn_key):
        """the value of `obj.method` (a bound method is identified by function and receiver)"""
        fi = self.ctx.repo.get(fn_key)
        sv = SV(obj.t, obj.ty) if not isinstance(obj, SV) else obj
        return self.ctx.to_val(BoundMethod(sv, fi)).t

    def for_each(self, name, body):
        """forall index j: body(j) - schematic: where the clause is to be PROVED it is stated for a fresh arbitrary constant
        (so that fold unfoldings and lemma instances mentioned by body are instantiated at it); where it is ASSUMED it is
        the universally quantified formula"""
        if getattr(self, "mode", "assume") == "prove":
            from .engine import fresh

            return _b(body(fresh(name, z3.IntSort())))
        return self.forall(name, body)

    def any_index(self, name="j_any"):
        """a fresh arbitrary index: a clause stated for it holds for every index (the constant is unconstrained)"""
        from .engine import fresh

        return fresh(name, z3.IntSort())

    def forall(self, names, body):
        vs = [z3.Int(n) for n in names.split()]
        B = getattr(self.ctx.E, "bounded", None)
        if B is not None:
            # refutation mode: every sequence has at most B items and every quantified index is guarded by a range
            # inside [0, len], so the quantifier equals the finite conjunction over 0..B
            import itertools

            return z3.And(*[_b(body(*[z3.IntVal(k) for k in ks])) for ks in itertools.product(range(B + 1), repeat=len(vs))])
        return z3.ForAll(vs, _b(body(*vs)))

    def exists(self, names, body):
        vs = [z3.Int(n) for n in names.split()]
        B = getattr(self.ctx.E, "bounded", None)
        if B is not None:
            import itertools

            return z3.Or(*[_b(body(*[z3.IntVal(k) for k in ks])) for ks in itertools.product(range(B + 1), repeat=len(vs))])
        return z3.Exists(vs, _b(body(*vs)))

    def event(self, kind, a=None, b=None, c=None, d=None):
        from .engine import Event

        def tv(x):
            return Z.NONE if x is None else _term(x)

        return Event.ev(z3.IntVal(self.ctx.E.event_kind(kind)), tv(a), tv(b), tv(c), tv(d))

    def events_are(self, *expected):
        """the events appended by this call are exactly these, in this order"""
        n = len(expected)
        conj = [self.trlen == self.tr_old_len + n]
        for k, ev in enumerate(expected):
            conj.append(z3.Select(self.tr, self.tr_old_len + k) == ev)
        return z3.And(*conj)

    def no_events(self):
        return self.trlen == self.tr_old_len

    def n_events(self):
        return self.trlen - self.tr_old_len

    def event_at(self, k):
        return z3.Select(self.tr, self.tr_old_len + k)

    # positions counted from the entry of the FUNCTION (in loop invariants event_at counts from the loop's entry)
    def fn_event_at(self, k):
        return z3.Select(self.tr, self.fn_tr_old_len + k)

    def fn_n_events(self):
        return self.trlen - self.fn_tr_old_len


def _b(x):
    if isinstance(x, bool):
        return z3.BoolVal(x)
    return x


class Loop:
    def __init__(self, inv, modifies=None, local_types=None, decreases=None, label=None, step=None):
        self.inv = inv
        self.step = step  # per-iteration contract: clauses over (state at iteration start, state at iteration end)
        self.modifies = modifies
        self.local_types = local_types or {}
        self.decreases = decreases
        self.label = label


class Contract:
    def __init__(self, key, ns):
        self.key = key
        self.ns = ns
        self.params = ns.get("params", {})
        self.result = ns.get("result", None)
        self.requires = ns.get("requires")
        self.ensures = ns.get("ensures")
        self.raises = ns.get("raises", {})
        self.writes = ns.get("writes")
        self.loops = ns.get("loops", {})
        self.props = ns.get("props", [])
        self.doc = ns.get("__doc__") or ""
        self.events_free = ns.get("events_free", False)
        self.fresh_result = ns.get("fresh_result", False)
        self.setup = ns.get("setup")  # optional: extra symbolic environment for verifying the body
        self.kind = ns.get("kind", "repo")  # repo | abstract | external
        self.emits = ns.get("emits")  # for abstract/external: callable producing events at call sites
        self.known = ns.get("known", {})  # obligation label -> known finding id
        self.replay = ns.get("replay")
        self.clauses_from = ns.get("clauses_from", "")
        self.pure = ns.get("pure", False)
        self.hyp = ns.get("hyp", [])  # interface hypotheses / assumed facts, textual, for the evidence
        self.skip_body = ns.get("skip_body", False)
        self.has_events = ns.get("has_events", False)
        self.never_returns = ns.get("never_returns", False)
        self.new_object = ns.get("new_object")
        self.emits_after = ns.get("emits_after")  # (c, ctx, outcome, value, **views): events appended once the outcome is known
        self.published = ns.get("published")  # (c, **params) -> {label: Bool}: invariant of state other threads read, checked after EVERY store
        self.body_key = ns.get("body_key")  # this contract is proved against the body of that function, while callers use the function's own (interface) contract
        self.announce = ns.get("announce", False)  # call sites of this function append a ghost `call` event (key, receiver, first argument)
        self.exact_raises = ns.get("exact_raises", False)  # a library raises exactly the named class, not an unknown subclass
        self.decorated = ns.get("decorated", False)  # verify the function as its decorators leave it (verify.run_decorated)
        self.after_decoration = ns.get("after_decoration")
        self.ghost_call = ns.get("ghost_call")  # ghost_call(spec, ctx, **views): python-level record of a call made under this contract (callers' clauses read it)
        self.transparent = ns.get("transparent", False)  # callers execute the real body (inlined) instead of using the contract
        self.delegate = ns.get("delegate")  # (I, **bound) -> value: the abstract callee's outcome IS the outcome of this call (pass-through)
        self.is_async = ns.get("is_async", False)  # abstract coroutine function: the call returns an awaitable
        self.closure_env = ns.get("closure_env")  # (ctx, I, bound) -> [dict]: free variables of a nested function under contract
        self.static = ns.get("static")  # (E) -> {label: bool}: facts decided on the AST itself (class resolution, wiring)
        self.witness = ns.get("witness")  # () -> dict of real objects satisfying requires (vacuity guard for quantified preconditions)

    def __repr__(self):
        return "<contract %s>" % self.key


REGISTRY = {}


def contract(key, **kw):
    def deco(cls):
        ns = dict(cls.__dict__)
        ns.update(kw)
        c = Contract(key, ns)
        REGISTRY.setdefault(kw.get("group", "default"), {})[key] = c
        return c

    return deco
