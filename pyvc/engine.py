"""Symbolic executor over the real AST of /repo/src/cobald, producing verification conditions.

One *path* is one re-execution of the function under a recorded list of decisions (stateless
exploration): every nondeterministic choice (undetermined branch, callee outcome, loop
continue/exit) calls ``Ctx.choose``.  Python-level exceptions carry Python's control flow.
Anything the executor has no rule for raises ``Unsupported`` -> the function is *undecided*.
"""
import ast
import builtins as _builtins
import inspect
import itertools
import time

import z3

from . import z as Z
from .repo import Repo, FunctionInfo, ClassInfo, PropertyInfo, ExternalRef, ModuleInfo
from .types import *
from .values import *


class Unsupported(Exception):
    pass


class EngineError(Exception):
    pass


class PathEnd(Exception):
    pass


class PyRaise(Exception):
    def __init__(self, exc):
        self.exc = exc  # SV (ref to exception object)


class ReturnSig(Exception):
    def __init__(self, value):
        self.value = value


class BreakSig(Exception):
    pass


class ContinueSig(Exception):
    pass


NONE_SV = SV(Z.NONE, TNone())

IntArr = z3.ArraySort(z3.IntSort(), z3.IntSort())
ValArr = z3.ArraySort(z3.IntSort(), Z.Val)
ItemArr = z3.ArraySort(z3.IntSort(), ValArr)

_Ev = z3.Datatype("Event")
_Ev.declare("ev", ("e_kind", z3.IntSort()), ("e_a", Z.Val), ("e_b", Z.Val), ("e_c", Z.Val), ("e_d", Z.Val))
Event = _Ev.create()
EvArr = z3.ArraySort(z3.IntSort(), Event)

MHasArr = z3.ArraySort(z3.IntSort(), z3.ArraySort(Z.Val, z3.BoolSort()))
MValArr = z3.ArraySort(z3.IntSort(), z3.ArraySort(Z.Val, Z.Val))
SPECIAL_SORTS = {"$len": IntArr, "$cls": IntArr, "$item": ItemArr, "$mhas": MHasArr, "$mval": MValArr}

isa = z3.Function("isa", z3.IntSort(), z3.IntSort(), z3.BoolSort())

_fresh_counter = itertools.count()


_param_names = None      # while a contract's symbolic parameters are built: {name: occurrences} - their leaves get STABLE names


def fresh(name, sort):
    if _param_names is not None:
        # a counter-model is replayed in a fresh context: the leaves of a parameter must be the same constants there
        k = _param_names.get(name, 0)
        _param_names[name] = k + 1
        return z3.Const("pp_%s%s" % (name, "#%d" % k if k else ""), sort)
    return z3.Const("%s!%d" % (name, next(_fresh_counter)), sort)


class stable_param_names:
    def __init__(self):
        self.names = {}

    def __enter__(self):
        global _param_names
        self.saved = _param_names
        _param_names = self.names

    def __exit__(self, *a):
        global _param_names
        _param_names = self.saved


def fresh_val(name="v"):
    return fresh(name, Z.Val)


def has_quantifier(f, _seen=None):
    seen = set() if _seen is None else _seen
    todo = [f]
    while todo:
        e = todo.pop()
        if e.get_id() in seen:
            continue
        seen.add(e.get_id())
        if z3.is_quantifier(e):
            return True
        todo.extend(e.children())
    return False


_TRUTHY_OBJ = z3.Function("object_is_truthy", Z.Val, z3.BoolSort())


class Obligation:
    def __init__(self, name, pc, goal, path, kind="post", meta=None):
        self.name, self.pc, self.goal, self.path, self.kind = name, list(pc), goal, path, kind
        self.meta = meta or {}
        self.status = None
        self.backend = None
        self.model = None
        self.seconds = 0.0
        self.detail = ""

    @property
    def full_name(self):
        return "%s@%s" % (self.name, self.path)


class ClassRegistry:
    """class ids and the subclass lattice.  Library exception classes are read natively (issubclass)."""

    def __init__(self, repo):
        self.repo = repo
        self.by_key = {}
        self.by_id = {}
        self.native = {}
        self._next = 1
        self._next_exc = 0

    def cid(self, cls):
        key = cls.key if isinstance(cls, ClassInfo) else ("ext:" + cls.dotted if isinstance(cls, ExternalRef) else "ext:" + cls)
        if key not in self.by_key:
            # exception classes get ids >= 1000, every other class an id < 1000: the class of an exception
            # object (a symbolic id >= 1000) can never coincide with a non-exception class
            is_exc = False
            if not isinstance(cls, str):
                try:
                    is_exc = self.is_exception_class(cls)
                except Exception:
                    is_exc = False
            if is_exc:
                n = 1000 + self._next_exc
                self._next_exc += 1
            else:
                n = self._next
                self._next += 1
            self.by_key[key] = n
            self.by_id[n] = cls if not isinstance(cls, str) else ExternalRef(cls)
        return self.by_key[key]

    def native_of(self, cls):
        if isinstance(cls, ExternalRef):
            return cls.native()
        return None

    def is_sub(self, a, b):
        """concrete subclass test between two registered classes (ClassInfo or ExternalRef)"""
        if a == b:
            return True
        if isinstance(a, ClassInfo):
            for k in self.repo.mro(a):
                if k == b:
                    return True
                if isinstance(k, ExternalRef) and isinstance(b, ExternalRef):
                    try:
                        if issubclass(k.native(), b.native()):
                            return True
                    except TypeError:
                        pass
            return False
        if isinstance(b, ClassInfo):
            return False
        try:
            return issubclass(a.native(), b.native())
        except TypeError:
            return False

    def is_exception_class(self, c):
        return self.is_sub(c, ExternalRef("BaseException"))


class Frame:
    def __init__(self, fi, locals_, closure_env, module):
        self.fi = fi
        self.locals = locals_
        self.closure_env = closure_env or []
        self.module = module
        self.loop_ordinal = 0
        self.cls_ctx = fi.cls if fi is not None else None


class Engine:
    """shared, per-run: the parsed repository, contracts, class registry, interned constants"""

    def __init__(self, repo=None):
        self.repo = repo or Repo()
        self.classes = ClassRegistry(self.repo)
        self.contracts = {}  # key -> Contract
        self.externals = {}  # dotted -> external contract (callable taking ctx, args, kwargs)
        self.interned = {}  # id(int<0) -> python-level object
        self._intern_ids = {}
        self.event_kinds = {}
        self.inlined = set()
        self.notes = []
        self.shared_types = {}
        self.external_result_types = {}  # dotted external constructor -> name of the shared abstract type of its result
        self.bounded = None  # refutation mode: sequences have at most this many items, spec quantifiers are expanded

    def intern(self, obj, key=None):
        key = key if key is not None else id(obj)
        if key not in self._intern_ids:
            n = -(len(self._intern_ids) + 1)
            self._intern_ids[key] = n
            self.interned[n] = obj
        return self._intern_ids[key]

    def event_kind(self, name):
        if name not in self.event_kinds:
            self.event_kinds[name] = len(self.event_kinds) + 1
        return self.event_kinds[name]


class Ctx:
    """state of one path"""

    def __init__(self, engine, prefix, path_label, top_contract=None, solver_timeout_ms=2000):
        self.E = engine
        self.repo = engine.repo
        self.prefix = list(prefix)
        self.decisions = []
        self.alternatives = []
        self.path_label = path_label
        self.pc = []
        self.solver = z3.Solver()
        self.solver.set("timeout", solver_timeout_ms)
        self.heap = {}
        self.heap0 = {}
        self.alloc0 = z3.Int("alloc0")
        self.nalloc = 0
        self.tr = z3.Const("tr0", EvArr)
        self.trlen = z3.Int("trlen0")
        self.tr0, self.trlen0 = self.tr, self.trlen
        self.events = []  # python list of Event terms appended on this path, None once havocked by a loop
        self.obligations = []
        self.frames = []
        self.top_contract = top_contract
        self.present = {}  # (id sexpr) -> set of attribute names present on a partially constructed object
        self.partial_objs = set()
        self.notes = []
        self.ghost = {}
        self.depth = 0
        self.assume(self.alloc0 > 0)
        self.assume(self.trlen >= 0)
        self.branch_log = []
        self.store_hook = None  # called after every store of the code under verification (published-state invariants)
        self.own_stores = []  # (field, "id", id term) | (field, "pred", lambda x) : heap locations written by the code under verification

    # ---- decisions / path condition ---------------------------------------------------------
    def choose(self, n, label=""):
        pos = len(self.decisions)
        if pos < len(self.prefix):
            d = self.prefix[pos]
        else:
            d = 0
            for k in range(1, n):
                self.alternatives.append(self.decisions + [k])
        self.decisions.append(d)
        self.branch_log.append((label, d))
        return d

    def assume(self, f):
        if isinstance(f, bool):
            f = z3.BoolVal(f)
        f = z3.simplify(f)
        if z3.is_true(f):
            return
        if z3.is_and(f):
            # conjuncts separately: the quantifier-free ones still reach the feasibility solver
            for ch in f.children():
                self.assume(ch)
            return
        self.pc.append(f)
        # the feasibility solver sees only the quantifier-free part of the path condition (an
        # over-approximation: an infeasible path explored anyway only yields obligations with an unsat premise)
        if not has_quantifier(f):
            self.solver.add(f)

    def feasible(self, extra=None):
        if extra is not None:
            self.solver.push()
            self.solver.add(extra)
        r = self.solver.check()
        if extra is not None:
            self.solver.pop()
        return r != z3.unsat

    def branch(self, cond, label="if"):
        """decide a z3 Bool condition: returns Python bool, forking when both ways are feasible"""
        if isinstance(cond, bool):
            return cond
        c = z3.simplify(cond)
        if z3.is_true(c):
            return True
        if z3.is_false(c):
            return False
        can_t = self.feasible(c)
        can_f = self.feasible(z3.Not(c))
        if can_t and not can_f:
            self.assume(c)
            return True
        if can_f and not can_t:
            self.assume(z3.Not(c))
            return False
        if not can_t and not can_f:
            raise PathEnd()
        d = self.choose(2, label)
        if d == 0:
            self.assume(c)
            return True
        self.assume(z3.Not(c))
        return False

    def oblige(self, name, goal, kind="post", meta=None):
        if isinstance(goal, bool):
            goal = z3.BoolVal(goal)
        ob = Obligation(name, self.pc, goal, self.path_label, kind, meta)
        if self.ghost.get("transplanted"):
            ob.meta.setdefault("transplanted", self.ghost["transplanted"])
        ob.meta.setdefault("decisions", list(self.decisions))
        ob.meta.setdefault("branch_log", [(l, d) for l, d in self.branch_log])
        self.obligations.append(ob)
        self.assume(goal)
        if not self.feasible():
            # the obligation is false on every model of this path: nothing further to explore
            raise PathEnd()

    # ---- heap ---------------------------------------------------------------------------------
    def field_array(self, name):
        if name not in self.heap:
            sort = SPECIAL_SORTS.get(name, ValArr)
            a = z3.Const("H_%s" % name, sort)
            self.heap[name] = a
            self.heap0[name] = a
        return self.heap[name]

    def snapshot(self):
        return dict(self.heap)

    def rd(self, heap, name):
        if name not in heap:
            self.field_array(name)
            if name not in heap:
                heap[name] = self.heap0[name]
        return heap[name]

    def ref_id(self, sv):
        return Z.Val.id(sv.t)

    def load_raw(self, idt, name):
        return z3.Select(self.field_array(name), idt)

    def store_raw(self, idt, name, valt):
        self.heap[name] = z3.Store(self.field_array(name), idt, valt)

    def wrote(self, fname, idt=None, pred=None):
        """record a heap write made by the executed code itself (not by the environment), for the frame check"""
        if idt is not None:
            s = z3.simplify(idt)
            # ids of objects allocated on this path are alloc0 + k: writing those is always allowed
            if z3.is_app(s) and s.decl().name() == "+" and any(ch.eq(self.alloc0) for ch in s.children()):
                return
            if s.eq(self.alloc0):
                return
            self.own_stores.append((fname, "id", s))
        else:
            self.own_stores.append((fname, "pred", pred))

    def alloc(self, cls=None, ty=None):
        """fresh object, distinct from every pre-existing and every earlier allocated object"""
        idt = self.alloc0 + self.nalloc
        self.nalloc += 1
        idt = z3.simplify(idt)
        if cls is not None:
            self.store_raw(idt, "$cls", z3.IntVal(self.E.classes.cid(cls)))
        return SV(Z.mk_ref(idt), ty)

    def typed(self, t, ty):
        """wrap a loaded term with its declared shape, assuming the shape's invariant"""
        ty = self.resolve_ty(ty)
        if isinstance(ty, TObj) and not getattr(ty, "exact_cls", True):
            # a reference whose class is known on this path (an object created here): dispatch on its exact class
            cidt = z3.simplify(z3.Select(self.field_array("$cls"), Z.Val.id(t)))
            if z3.is_int_value(cidt) and cidt.as_long() in self.E.classes.by_id:
                k = self.E.classes.by_id[cidt.as_long()]
                if isinstance(k, ClassInfo) and self.E.classes.is_sub(k, ty.cls):
                    exact = TObj(k.key)
                    exact.cls = k
                    return SV(t, exact)
        if ty is not None and not isinstance(ty, TAny):
            self.assume(ty.inv(t))
            self.assume_class(t, ty)
            if isinstance(ty, TRef) and not isinstance(ty, TFn):
                # a reference read from the heap denotes an object that exists already: never one allocated later
                self.assume(Z.Val.id(t) < self.alloc0 + self.nalloc)
            if isinstance(ty, TSeq):
                self.assume(z3.Select(self.field_array("$len"), Z.Val.id(t)) >= 0)
                if getattr(self.E, "bounded", None) is not None:
                    self.assume(z3.Select(self.field_array("$len"), Z.Val.id(t)) <= self.E.bounded)
            elif isinstance(ty, TTuple):
                self.assume(z3.Select(self.field_array("$len"), Z.Val.id(t)) == len(ty.elems))
            elif isinstance(ty, TMap):
                self.assume(z3.Select(self.field_array("$len"), Z.Val.id(t)) >= 0)
        return SV(t, ty)

    def assume_class(self, t, ty):
        """objects of different static shapes are different objects: the shape fixes the class id"""
        if isinstance(ty, TOpt):
            return
        if isinstance(ty, TObj) and getattr(ty, "exact_cls", True):
            self.assume(z3.Select(self.field_array("$cls"), Z.Val.id(t)) == self.E.classes.cid(self.resolve_ty(ty).cls))
        elif isinstance(ty, TAbs):
            self.assume(z3.Select(self.field_array("$cls"), Z.Val.id(t)) == self.E.classes.cid("abs:" + ty.name))
        elif isinstance(ty, TSeq):
            self.assume(z3.Select(self.field_array("$cls"), Z.Val.id(t)) == self.E.classes.cid("abs:$" + ty.kind))
        elif isinstance(ty, TMap):
            self.assume(z3.Select(self.field_array("$cls"), Z.Val.id(t)) == self.E.classes.cid("abs:$dict"))
        elif isinstance(ty, TTuple):
            self.assume(z3.Select(self.field_array("$cls"), Z.Val.id(t)) == self.E.classes.cid("abs:$tuple"))

    def touch(self, sv, depth=2):
        """eagerly assume the shape invariants of every declared field of an object (the pre-state is well-shaped)"""
        ty = self.resolve_ty(sv.ty)
        B = getattr(self.E, "bounded", None)
        if B is not None and depth > -3 and isinstance(ty, (TSeq, TTuple)):
            # refutation mode: sequences are short, so the shape of every item can be assumed eagerly
            items = z3.Select(self.field_array("$item"), self.ref_id(sv))
            n = len(ty.elems) if isinstance(ty, TTuple) else B
            for k in range(n):
                ety = ty.elems[k] if isinstance(ty, TTuple) else ty.elem
                it = z3.Select(items, z3.IntVal(k))
                ety = self.resolve_ty(ety)
                if ety is None or isinstance(ety, TAny):
                    continue
                guard = z3.BoolVal(True) if isinstance(ty, TTuple) else (z3.Select(self.field_array("$len"), self.ref_id(sv)) > k)
                self.assume(z3.Implies(guard, ety.inv(it)))
                if isinstance(ety, TRef) and not isinstance(ety, TFn):
                    self.assume(z3.Implies(guard, Z.Val.id(it) < self.alloc0))
                if isinstance(ety, (TSeq, TTuple, TObj, TAbs)):
                    child = SV(it, ety)
                    if isinstance(ety, TTuple):
                        self.assume(z3.Implies(guard, z3.Select(self.field_array("$len"), Z.Val.id(it)) == len(ety.elems)))
                    if isinstance(ety, TSeq):
                        self.assume(z3.Implies(guard, z3.And(z3.Select(self.field_array("$len"), Z.Val.id(it)) >= 0, z3.Select(self.field_array("$len"), Z.Val.id(it)) <= B)))
                    if isinstance(ety, (TObj, TAbs)):
                        if isinstance(ety, TObj) and getattr(ety, "exact_cls", True):
                            self.assume(z3.Implies(guard, z3.Select(self.field_array("$cls"), Z.Val.id(it)) == self.E.classes.cid(ety.cls)))
                        elif isinstance(ety, TAbs):
                            self.assume(z3.Implies(guard, z3.Select(self.field_array("$cls"), Z.Val.id(it)) == self.E.classes.cid("abs:" + ety.name)))
                        for fname, fty in ety.fields.items():
                            fty = self.resolve_ty(fty)
                            if fty is not None and not isinstance(fty, TAny):
                                self.assume(z3.Implies(guard, fty.inv(z3.Select(self.field_array(fname), Z.Val.id(it)))))
                    else:
                        self.touch(child, depth - 1)
            return
        if B is None and depth > -2 and isinstance(ty, (TSeq, TMap)):
            self.touch_contents(sv, ty)
            return
        if depth <= 0 or not isinstance(ty, (TObj, TAbs)):
            return
        for fname, fty in ty.fields.items():
            child = self.typed(self.load_raw(self.ref_id(sv), fname), fty)
            if isinstance(self.resolve_ty(fty), (TObj, TAbs)):
                self.assume(Z.Val.id(child.t) < self.alloc0)
                self.touch(child, depth - 1)
            elif isinstance(self.resolve_ty(fty), (TSeq, TTuple, TMap)):
                self.assume(Z.Val.id(child.t) < self.alloc0)
                self.touch(child, depth - 1)

    def content_inv(self, it, ety):
        """shape facts about one item of a container (its own invariant, that it is a pre-state object, and - for objects -
        the invariants of its declared fields)"""
        ety = self.resolve_ty(ety)
        if ety is None or isinstance(ety, TAny):
            return []
        out = [ety.inv(it)]
        if isinstance(ety, TRef) and not isinstance(ety, TFn):
            out.append(Z.Val.id(it) < self.alloc0)
        if isinstance(ety, TObj) and getattr(ety, "exact_cls", True):
            out.append(z3.Select(self.field_array("$cls"), Z.Val.id(it)) == self.E.classes.cid(ety.cls))
        elif isinstance(ety, TAbs):
            out.append(z3.Select(self.field_array("$cls"), Z.Val.id(it)) == self.E.classes.cid("abs:" + ety.name))
        elif isinstance(ety, TSeq):
            out.append(z3.Select(self.field_array("$len"), Z.Val.id(it)) >= 0)
            out.append(z3.Select(self.field_array("$cls"), Z.Val.id(it)) == self.E.classes.cid("abs:$" + ety.kind))
        elif isinstance(ety, TTuple):
            out.append(z3.Select(self.field_array("$len"), Z.Val.id(it)) == len(ety.elems))
            items = z3.Select(self.field_array("$item"), Z.Val.id(it))
            for k, sub in enumerate(ety.elems):
                out.extend(self.content_inv(z3.Select(items, z3.IntVal(k)), sub))
        if isinstance(ety, (TObj, TAbs)):
            for fname, fty in ety.fields.items():
                fty = self.resolve_ty(fty)
                if fty is not None and not isinstance(fty, TAny):
                    ft = z3.Select(self.field_array(fname), Z.Val.id(it))
                    out.append(fty.inv(ft))
                    if isinstance(fty, TRef) and not isinstance(fty, TFn):
                        out.append(Z.Val.id(ft) < self.alloc0)
        return out

    def touch_contents(self, sv, ty):
        """the pre-state is well-shaped all the way into containers: every item of a sequence / every value of a map has
        its declared shape (a quantified fact, assumed once at function entry)"""
        if isinstance(ty, TSeq):
            j = z3.Int("tcj")
            items = z3.Select(self.field_array("$item"), self.ref_id(sv))
            it = z3.Select(items, j)
            facts = self.content_inv(it, ty.elem)
            if facts:
                n = z3.Select(self.field_array("$len"), self.ref_id(sv))
                self.assume(z3.ForAll([j], z3.Implies(z3.And(0 <= j, j < n), z3.And(*facts)), patterns=[it]))
        elif isinstance(ty, TMap):
            k = z3.Const("tck", Z.Val)
            vals = z3.Select(self.field_array("$mval"), self.ref_id(sv))
            has = z3.Select(self.field_array("$mhas"), self.ref_id(sv))
            it = z3.Select(vals, k)
            facts = self.content_inv(it, ty.val)
            if facts:
                self.assume(z3.ForAll([k], z3.Implies(z3.Select(has, k), z3.And(*facts)), patterns=[it]))

    def resolve_ty(self, ty):
        if isinstance(ty, TObj) and (ty.cls is None or self.repo.get(ty.cls_key) is not ty.cls):
            # shapes are module-level objects of the sidecars: re-resolve when this engine read the repository anew
            ty.cls = self.repo.get(ty.cls_key)
            if not isinstance(ty.cls, ClassInfo):
                raise EngineError("shape names a class that does not exist: %s" % ty.cls_key)
        return ty

    # ---- trace --------------------------------------------------------------------------------
    def emit(self, kind, a=None, b=None, c=None, d=None):
        def tv(x):
            if x is None:
                return Z.NONE
            if isinstance(x, str):
                return Z.mk_str(x)
            if isinstance(x, SV):
                return x.t
            if hasattr(x, "t") and z3.is_expr(x.t):
                return x.t
            if type(x).__name__ in ("ListView", "DictView") and x.raw is not None:
                return self.to_val(x.raw).t        # a display seen through a spec view: the display's own (interned) identity
            return self.to_val(x).t

        ev = Event.ev(z3.IntVal(self.E.event_kind(kind)), tv(a), tv(b), tv(c), tv(d))
        self.tr = z3.Store(self.tr, self.trlen, ev)
        self.trlen = self.trlen + 1
        if self.events is not None:
            self.events.append((kind, ev))
        return ev

    # ---- conversions ----------------------------------------------------------------------------
    def to_val(self, x):
        """any executor value -> SV (interning python-level objects as constant refs)"""
        if isinstance(x, SV):
            return x
        if x is None:
            return NONE_SV
        if isinstance(x, bool):
            return SV(Z.mk_bool(x), TBool())
        if isinstance(x, int):
            return SV(Z.mk_int(x), TNum(only="int"))
        if isinstance(x, float):
            if x == float("inf"):
                return SV(Z.POS_INF, TNum(inf=True))
            if x == float("-inf"):
                return SV(Z.NEG_INF, TNum(inf=True))
            if x != x:
                return SV(Z.NAN, TNum(nan=True))
            return SV(Z.mk_flt(repr(x)), TNum(only="float"))
        if isinstance(x, str):
            return SV(Z.mk_str(x), TStr())
        if isinstance(x, VDict) and getattr(x, "sym", None) is not None:
            return x.sym
        if isinstance(x, VDict) and getattr(x, "sym", None) is not None:
            return x.sym
        if type(x).__name__ in ("Coro", "CtxMgr") or isinstance(x, (Closure, BoundMethod, ClassInfo, ExternalRef, ModuleInfo, Builtin, VTuple, VList, VDict, VSet, PartialFn, AbstractMethod, FunctionInfo, TypeOf, SeqMethod)):
            key = None
            if isinstance(x, PartialFn):
                # functools.partial objects are identified structurally: (function, positional arguments, keyword arguments)
                try:
                    key = ("partial", z3.simplify(self.to_val(x.fn).t).sexpr(), tuple(z3.simplify(self.to_val(a).t).sexpr() for a in x.args),
                           tuple(sorted((k, z3.simplify(self.to_val(v).t).sexpr()) for k, v in x.kwargs.items())))
                except Unsupported:
                    key = None
            if isinstance(x, BoundMethod) and isinstance(x.self_val, SV):
                # a bound method is identified by (function, receiver): two lookups of obj.m denote equal values
                key = ("bound", x.fn.key, z3.simplify(x.self_val.t).sexpr())
            if isinstance(x, ClassInfo):
                key = ("class", x.key)
            elif isinstance(x, ExternalRef):
                key = ("ext", x.dotted)
            elif isinstance(x, ModuleInfo):
                key = ("mod", x.name)
            elif isinstance(x, Builtin):
                key = ("builtin", x.name)
            n = self.E.intern(x, key)
            return SV(Z.mk_ref(n), ANY)
        raise Unsupported("cannot convert %r to a value" % (x,))

    def from_val(self, sv):
        """SV that is a constant interned ref -> the python-level object, else the SV itself"""
        if isinstance(sv, SV):
            s = Z.S(sv.t)
            if z3.is_app(s) and s.decl().kind() == z3.Z3_OP_SELECT:
                s = self._resolve_select(s)
            if z3.is_app(s) and s.decl().name() == "refv" and z3.is_int_value(s.arg(0)):
                n = s.arg(0).as_long()
                if n in self.E.interned:
                    return self.E.interned[n]
        return sv

    def _resolve_select(self, s):
        """Select over a chain of Stores whose indices the path condition separates: read through the stores that provably do not alias"""
        arr, idx = s.arg(0), s.arg(1)
        for _ in range(16):
            if not (z3.is_app(arr) and arr.decl().kind() == z3.Z3_OP_STORE):
                return s
            a, i, v = arr.arg(0), arr.arg(1), arr.arg(2)
            if z3.eq(i, idx) or not self.feasible(i != idx):
                return Z.S(v)
            if self.feasible(i == idx):
                return s
            arr = a
        return s

    def truth(self, v):
        """Python truthiness of an executor value as z3 Bool / python bool"""
        v = self.from_val(v) if isinstance(v, SV) else v
        if isinstance(v, SV):
            if isinstance(v.ty, TObj):
                cls = self.resolve_ty(v.ty).cls
                o1, m1 = self.repo.lookup_member(cls, "__bool__")
                o2, m2 = self.repo.lookup_member(cls, "__len__")
                if m1 is None and m2 is None:
                    return True
                raise Unsupported("truthiness of %s with __bool__/__len__" % cls.key)
            if isinstance(v.ty, TSeq):
                return z3.Select(self.field_array("$len"), self.ref_id(v)) > 0
            if isinstance(v.ty, TExc) or getattr(v.ty, "always_truthy", False):
                return True
            if isinstance(v.ty, (TAbs, TFn)):
                # an object known only through an interface (a user's pool, service, rule, factory ...): whether it is truthy is ITS business
                # (__bool__ / __len__) - an unknown fact about the object, so that `if x:` where `if x is not None:` is meant shows
                self.ghost["nondet"] = True
                return _TRUTHY_OBJ(v.t)
            return Z.truthy(v.t)
        if v is None:
            return False
        if isinstance(v, (bool, int, float, str)):
            return bool(v)
        if isinstance(v, (VTuple, VList, VSet)):
            return len(v.items) > 0
        if isinstance(v, VDict):
            if getattr(v, "sym", None) is not None:
                raise Unsupported("truthiness of a dict with symbolic keys")
            return len(v.items) > 0
        if isinstance(v, SymSet):
            k = z3.Const("ssk", Z.Val)
            return z3.Exists([k], v.pred(k))
        return True

    def narrow(self, sv):
        """flow-sensitive narrowing: if the path condition already decides which kind of value an Any/Optional is (after an
        isinstance / is-None test), give it that shape"""
        if not isinstance(sv, SV):
            return sv
        ty = sv.ty
        if isinstance(ty, TOpt):
            if not self.feasible(Z.is_none(sv.t)):
                return self.typed(sv.t, ty.inner)
            return sv
        if not isinstance(ty, TAny):
            return sv
        for test, new in ((Z.is_strv, TStr()), (Z.is_numv, TNum()), (Z.is_boolv, TBool()), (Z.is_none, TNone())):
            if not self.feasible(z3.Not(test(sv.t))):
                return SV(sv.t, new)
        for cls, f in self.ghost.get(("narrow", z3.simplify(sv.t).sexpr()), []):
            if isinstance(cls, ClassInfo) and not self.feasible(z3.Not(f)):
                # an isinstance test against an in-repo class succeeded on this path: the value has (at least) that class's shape
                shape = self.E.shared_types.get("cls:" + cls.key) or TObj(cls.key)
                return SV(sv.t, self.resolve_ty(shape))
        return sv

    def isa_formula(self, cidt, cls):
        """isa(cid, cls) for a symbolic class id, instantiating the lattice facts against every class already related to cid"""
        reg = self.E.classes
        key = cidt.sexpr()
        known = self.ghost.setdefault(("symcls", key), [])
        kid = reg.cid(cls)
        if cls not in known:
            base = ExternalRef("BaseException")
            for other in known + [base]:
                if other == cls:
                    continue
                oid = reg.cid(other)
                if reg.is_sub(cls, other):
                    self.assume(z3.Implies(isa(cidt, kid), isa(cidt, oid)))
                if reg.is_sub(other, cls):
                    self.assume(z3.Implies(isa(cidt, oid), isa(cidt, kid)))
            known.append(cls)
            # the unknown class may BE one of the named classes: then its subclass facts are the concrete ones
            for k1 in known + [base]:
                for k2 in known + [base]:
                    self.assume(z3.Implies(cidt == reg.cid(k1), isa(cidt, reg.cid(k2)) == reg.is_sub(k1, k2)))
        return isa(cidt, kid)

    def note(self, s):
        if s not in self.notes:
            self.notes.append(s)
