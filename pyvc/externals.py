"""Assumed library contracts (DESIGN.md 3.3): handlers for external callables used by the code under contract.
Each handler is part of the trusted base and is listed in the evidence of the properties that use it."""
import z3

from . import z as Z
from .engine import *
from .interp import Coro, CtxMgr
from . import builtins_ as B


def ext_partial(I, args, kwargs):
    return PartialFn(args[0], args[1:], kwargs)


def ext_wraps(I, args, kwargs):
    wrapped = args[0]

    class _Deco(B.NativeObj):
        def call(self, I2, a, k):
            fn = a[0]
            if isinstance(fn, Closure):
                fn.attrs["__wrapped__"] = wrapped
            return fn

    return _Deco()


def install(E):
    E.externals.update(
        {
            "functools.partial": ext_partial,
            "functools.wraps": ext_wraps,
        }
    )
    from . import ext_libs, setsum

    ext_libs.install(E)
    setsum.install(E)
