"""Assumed contracts of asyncio / trio / threading / logging / yaml / inspect / toposort (DESIGN.md 3.3)."""
import z3

from . import z as Z
from .engine import *
from .interp import Coro, CtxMgr
from . import builtins_ as B


ENV_FIELDS = ("supply", "demand", "utilisation", "allocation", "_must_shutdown", "_started")


def trio_sleep(I, args, kwargs):
    """trio.sleep(d): returns after exactly d of the run's clock (event `sleep(d)`, ghost clock += d) or raises trio.Cancelled"""
    d = args[0]

    def thunk():
        ctx = I.ctx
        sv = I.num_operand(d)
        ctx.emit("sleep", sv)
        # while the task sleeps the environment moves: the state of every pool may change (pools are shared)
        for f in ENV_FIELDS:
            ctx.heap[f] = fresh("H_%s" % f, ctx.field_array(f).sort())
        ctx.ghost["nondet"] = True
        envinv = ctx.ghost.get("env_invariant")
        if envinv is not None:
            # hypothesis about what the environment does while the task sleeps (stated by the contract under verification)
            ctx.assume(envinv(ctx))
        now = ctx.ghost.get("now", z3.RealVal(0))
        ctx.ghost["now"] = now + Z.rval(sv.t)
        if ctx.choose(2, "trio.sleep-outcome") == 1:
            raise PyRaise(I.make_exception(ExternalRef("trio.Cancelled"), []))
        return None

    return Coro(thunk, "trio.sleep")


def trio_current_time(I, args, kwargs):
    """trio.current_time() (assumed): the reading of the run's clock - the ghost clock the sleeps advance, offset by an unknown start"""
    ctx = I.ctx
    t0 = ctx.ghost.get("clock_origin")
    if t0 is None:
        t0 = ctx.ghost["clock_origin"] = fresh("clock_origin", z3.RealSort())
    now = ctx.ghost.get("now", z3.RealVal(0))
    return SV(Z.mk_flt(t0 + now), TNum(only="float"))


def trio_sleep_until(I, args, kwargs):
    """trio.sleep_until(deadline) (assumed): sleeps for max(0, deadline - now) of the run's clock - recorded as that `sleep` event - or raises
    trio.Cancelled"""
    d = args[0]

    def thunk():
        ctx = I.ctx
        t0 = ctx.ghost.get("clock_origin")
        if t0 is None:
            t0 = ctx.ghost["clock_origin"] = fresh("clock_origin", z3.RealSort())
        now = ctx.ghost.get("now", z3.RealVal(0))
        dl = Z.rval(I.num_operand(d).t)
        dur = z3.If(dl - (t0 + now) > 0, dl - (t0 + now), z3.RealVal(0))
        return trio_sleep(I, [SV(Z.mk_flt(dur), TNum(only="float"))], {}).thunk()

    return Coro(thunk, "trio.sleep_until")


def math_ceil_floor(which):
    def f(I, args, kwargs):
        """math.ceil / math.floor of a finite number: the integer above / below (over reals)"""
        x = I.num_operand(args[0])
        if not I.ctx.branch(Z.is_finite(x.t), "math.%s-finite" % which):
            raise PyRaise(I.make_exception(ExternalRef("OverflowError" if True else "ValueError"), ["cannot convert float infinity/NaN to integer"]))
        r = Z.rval(x.t)
        fl = z3.ToReal(z3.ToInt(r))
        val = fl if which == "floor" else z3.If(fl == r, fl, fl + 1)
        return SV(Z.intv_r(val), TNum(only="int"))
    return f


fmt_names = z3.Function("fmt_names", z3.StringSort(), z3.StringSort(), z3.BoolSort())
logger_of = z3.Function("logger_of", z3.StringSort(), z3.IntSort())


def names_within(msg_str, keys):
    """every %(name)s field of the template msg is one of keys"""
    k = z3.String("fk")
    return z3.ForAll([k], z3.Implies(fmt_names(msg_str, k), z3.Or(*[k == z3.StringVal(x) for x in keys]) if keys else z3.BoolVal(False)))


def str_mod(I, fmt, arg):
    """'template' % mapping (assumed): returns a str only if every named field is a key of the mapping; raises KeyError only for a
    name the mapping lacks; may raise TypeError/ValueError for an unfit / malformed conversion at any point of the template"""
    ctx = I.ctx
    arg2 = ctx.from_val(arg) if isinstance(arg, SV) else arg
    if not isinstance(arg2, VDict):
        return NotImplemented
    ctx.ghost["nondet"] = True
    sv = ctx.to_val(fmt)
    ok = names_within(Z.Val.s(sv.t), list(arg2.items.keys()))
    d = ctx.choose(4, "%-format")
    if d == 0:
        ctx.assume(ok)
        return B.opaque_str(I, "%-formatting with a mapping")
    if d == 1:
        ctx.assume(z3.Not(ok))
        raise PyRaise(I.make_exception(ExternalRef("KeyError"), []))
    # a conversion that does not fit its value (TypeError) or a malformed specifier (ValueError) is reported where formatting reaches
    # it - possibly BEFORE a later field name has been looked up, so it says nothing about the names
    raise PyRaise(I.make_exception(ExternalRef("TypeError" if d == 2 else "ValueError"), []))


def get_logger(I, args, kwargs):
    """logging.getLogger(name): the logger object is a function of the name"""
    ctx = I.ctx
    ctx.ghost["nondet"] = True
    name = ctx.to_val(args[0] if args else kwargs.get("name"))
    ty = I.E.shared_types["PyLogger"]
    t = Z.mk_ref(logger_of(Z.Val.s(name.t)))
    sv = SV(t, ty)
    ctx.assume(z3.And(logger_of(Z.Val.s(name.t)) > 0, logger_of(Z.Val.s(name.t)) < ctx.alloc0))
    ctx.assume_class(t, ty)
    ctx.assume(z3.Select(ctx.field_array("name"), Z.Val.id(t)) == name.t)
    return sv


def coro_origin(I, co):
    """(function term, receiver term) identifying which coroutine function was called on which object"""
    ctx = I.ctx
    co = ctx.from_val(co) if isinstance(co, SV) else co
    if isinstance(co, Coro) and getattr(co, "origin", None):
        fi, args = co.origin
        return Z.mk_str(fi.key), (ctx.to_val(args[0]).t if args else Z.NONE), (ctx.to_val(args[1]).t if len(args) > 1 else Z.NONE)
    if isinstance(co, Coro):
        return Z.mk_str(co.label), Z.NONE, Z.NONE
    if isinstance(co, SV):
        return co.t, Z.NONE, Z.NONE
    raise Unsupported("awaitable %r" % (co,))


def any_exception(I, label, bound="BaseException"):
    return I.sym_exception(ExternalRef(bound), label)


def _b(x):
    return z3.BoolVal(x) if isinstance(x, bool) else x


def asyncio_run(I, args, kwargs):
    """asyncio.run(coro): yields coro's outcome (result or the very exception), on a new loop in the calling thread"""
    ctx = I.ctx
    f, a, b = coro_origin(I, args[0])
    ctx.emit("asyncio.run", SV(f), SV(a))
    co = ctx.from_val(args[0]) if isinstance(args[0], SV) else args[0]
    # ghost: how the loop ended (read by the contract of MetaRunner.run)
    try:
        r = co.thunk()
    except PyRaise as pr:
        ctx.store_raw(z3.IntVal(0), "$ghost_loop_exc", pr.exc.t)
        raise
    ge = ctx.ghost.get("gather_raised_exc")
    if ge is not None:
        # (assumed, asyncio.tasks.Task.__step) a KeyboardInterrupt / SystemExit raised inside a TASK is carried out of the event loop at once
        # and leaves asyncio.run by itself - after asyncio.run's own cleanup, during which the main coroutine is resumed (cancelled) and may
        # finish as it likes; what the main coroutine does with the exception it sees then does not bring it back
        own = z3.Or(_b(I.isa_term(ge, ExternalRef("KeyboardInterrupt"))), _b(I.isa_term(ge, ExternalRef("SystemExit"))))
        if ctx.branch(own, "loop-carried-exception"):
            ctx.store_raw(z3.IntVal(0), "$ghost_loop_exc", ge.t)
            raise PyRaise(ge)
    ctx.store_raw(z3.IntVal(0), "$ghost_loop_exc", Z.NONE)
    return r


def asyncio_shield(I, args, kwargs):
    """asyncio.shield(aw): awaiting it yields aw's outcome; aw is not cancelled when the awaiting task is"""
    ctx = I.ctx
    co = ctx.from_val(args[0]) if isinstance(args[0], SV) else args[0]
    f, a, b = coro_origin(I, co)

    def thunk():
        ctx.emit("shield", SV(f), SV(a), SV(b))
        return co.thunk()

    c2 = Coro(thunk, "shield")
    return c2


def asyncio_gather(I, args, kwargs):
    """asyncio.gather(*aws[, return_exceptions]): coroutine arguments are run (here: in argument order); awaiting tasks
    yields their outcomes; without return_exceptions the first exception of any of them is raised, otherwise it returns
    only when all are done and raises nothing but cancellation"""
    ctx = I.ctx
    ret_exc = kwargs.get("return_exceptions", False)

    def thunk():
        ctx.emit("gather", SV(Z.mk_bool(bool(ret_exc))))
        ctx.ghost["nondet"] = True
        for a in args:
            a2 = ctx.from_val(a) if isinstance(a, SV) else a
            if isinstance(a2, Coro):
                if ret_exc:
                    try:
                        a2.thunk()
                    except PyRaise:
                        pass
                else:
                    a2.thunk()
        if not ret_exc:
            # any awaited task may have failed with anything (a runner task re-raises its payload failure)
            if ctx.choose(2, "gather-outcome") == 1:
                e = any_exception(I, "gathered")
                ctx.emit("gather-raised", e)
                ctx.ghost["gather_raised_exc"] = e
                raise PyRaise(e)
        else:
            if ctx.choose(2, "gather-cancelled") == 1:
                raise PyRaise(I.make_exception(ExternalRef("asyncio.CancelledError"), []))
        return SV(fresh_val("gathered"), ANY)

    return Coro(thunk, "gather")


class CFuture(B.NativeObj):
    """concurrent.futures.Future returned by run_coroutine_threadsafe: result() yields the coroutine's outcome itself"""

    def __init__(self, co, loop):
        self.co, self.loop = co, loop

    def getattr(self, I, name):
        if name == "result":
            return self
        raise Unsupported("attribute %s of a concurrent future" % name)

    def call(self, I, args, kwargs):
        ctx = I.ctx
        timeout = args[0] if args else kwargs.get("timeout")
        if timeout is not None and not (isinstance(timeout, SV) and z3.is_true(z3.simplify(Z.is_none(timeout.t)))):
            # result(timeout=t) (assumed): may give up after t seconds with TimeoutError WHILE THE COROUTINE HAS NOT FINISHED (nothing of it has
            # happened as far as the caller can rely on); an unbounded result() has no such outcome
            if ctx.choose(2, "future.result-timeout") == 1:
                ctx.emit("result-timed-out", self.loop)
                raise PyRaise(I.make_exception(ExternalRef("TimeoutError"), []))
        if set(kwargs) - {"timeout"} or len(args) > 1:
            raise Unsupported("concurrent future: result() with unknown arguments")
        ctx.emit("on-loop-thread", self.loop)
        saved = ctx.ghost.get("here")
        ctx.ghost["here"] = ("loop", z3.simplify(self.loop.t).sexpr())
        try:
            return self.co.thunk()
        except PyRaise as pr:
            # asyncio copies the outcome into the concurrent future through futures._convert_future_exc: an exception whose class
            # is EXACTLY concurrent.futures.TimeoutError (= builtin TimeoutError since 3.11) / CancelledError / InvalidStateError is
            # re-created (same class, same args, NEW object); every other exception object is handed over as it is
            cid = I.exc_class_term(pr.exc)
            exact = [ExternalRef(n) for n in ("TimeoutError", "concurrent.futures.CancelledError", "concurrent.futures.InvalidStateError")]
            is_converted = z3.Or(*[cid == z3.IntVal(I.E.classes.cid(k)) for k in exact])
            if ctx.choose(2, "concurrent-future-recreates-exception") == 1:
                ctx.assume(is_converted)
                if not ctx.feasible():
                    raise PathEnd()
                fresh_exc = I.sym_exception(ExternalRef("BaseException"), "recreated")
                ctx.assume(I.exc_class_term(fresh_exc) == cid)
                ctx.assume(Z.Val.id(fresh_exc.t) != Z.Val.id(pr.exc.t))
                raise PyRaise(fresh_exc)
            ctx.assume(z3.Not(is_converted))
            if not ctx.feasible():
                raise PathEnd()
            raise
        finally:
            ctx.ghost["here"] = saved


def run_coroutine_threadsafe(I, args, kwargs):
    """asyncio.run_coroutine_threadsafe(coro, loop): coro runs on loop's thread; .result() returns the coroutine's
    result object itself or raises its exception object itself (requires: the caller is not the loop thread)"""
    ctx = I.ctx
    co = ctx.from_val(args[0]) if isinstance(args[0], SV) else args[0]
    if not isinstance(co, Coro):
        raise Unsupported("run_coroutine_threadsafe of %r" % (co,))
    f, a, b = coro_origin(I, co)
    ctx.emit("run_coroutine_threadsafe", args[1], SV(f), SV(a))
    return CFuture(co, args[1])


def trio_from_thread_run(I, args, kwargs):
    """trio.from_thread.run(f, *a, trio_token=t): requires the caller not to be t's thread (else RuntimeError) and raises
    RunFinishedError when t's run is over; otherwise runs (awaits) f(*a) in t's thread and yields its outcome by identity"""
    ctx = I.ctx
    token = kwargs.get("trio_token")
    d = ctx.choose(4, "from_thread.run")
    if d == 3:
        ctx.emit("from_thread.run-cancelled", token)
        raise PyRaise(I.make_exception(ExternalRef("trio.Cancelled"), []))
    if d == 1:
        ctx.emit("from_thread.run-finished", token)
        raise PyRaise(I.make_exception(ExternalRef("trio.RunFinishedError"), []))
    if d == 2:
        ctx.emit("from_thread.run-same-thread", token)
        raise PyRaise(I.make_exception(ExternalRef("RuntimeError"), []))
    ctx.emit("in-trio-thread", token)
    saved = ctx.ghost.get("here")
    ctx.ghost["here"] = ("trio", z3.simplify(ctx.to_val(token).t).sexpr())
    try:
        r = I.call(args[0], list(args[1:]), {})
        r2 = ctx.from_val(r) if isinstance(r, SV) else r
        if isinstance(r2, Coro):
            r = r2.thunk()
        return r
    finally:
        ctx.ghost["here"] = saved


class ThreadObj(B.NativeObj):
    """threading.Thread(target=f, args=a, daemon=d): start() runs f(*a) exactly once on a fresh thread (assumed)"""

    def __init__(self, target, args, daemon):
        self.target, self.args, self.daemon = target, args, daemon

    def getattr(self, I, name):
        if name == "start":
            return ThreadStart(self)
        if name == "join":
            return ThreadJoin(self)
        raise Unsupported("attribute %s of a Thread" % name)


class ThreadStart(B.NativeObj):
    def __init__(self, th):
        self.th = th

    def call(self, I, args, kwargs):
        th = self.th
        a0 = th.args.items[0] if th.args is not None and th.args.items else None
        I.ctx.emit("thread.start", th.target, a0, th.daemon)
        return None


class ThreadJoin(B.NativeObj):
    def __init__(self, th):
        self.th = th

    def call(self, I, args, kwargs):
        I.ctx.emit("thread.join", self.th.target)
        return None


def threading_thread(I, args, kwargs):
    return ThreadObj(kwargs.get("target"), kwargs.get("args"), kwargs.get("daemon", False))


def fresh_abstract(I, type_name, **fields):
    """a new object of an abstract library type (threading.Event(), asyncio.Event(), ...)"""
    ctx = I.ctx
    ty = I.E.shared_types[type_name]
    o = ctx.alloc(None, ty)
    ctx.store_raw(ctx.ref_id(o), "$cls", z3.IntVal(I.E.classes.cid("abs:" + ty.name)))
    for f, v in fields.items():
        ctx.store_raw(ctx.ref_id(o), f, ctx.to_val(v).t)
    return o


def threading_event(I, args, kwargs):
    return fresh_abstract(I, "threading.Event", isset=False)


def threading_lock(I, args, kwargs):
    """threading.Lock(): a new lock, not held (its acquire/release contracts are the assumed ones of the sidecar's Lock abstraction)"""
    if "threading.Lock" not in I.E.shared_types:
        raise Unsupported("external callable threading.Lock has no assumed contract")
    return fresh_abstract(I, "threading.Lock", held=False)


def math_isclose(I, args, kwargs):
    """math.isclose(a, b, *, rel_tol=1e-09, abs_tol=0.0) for finite numbers (its documented definition, over reals):
    abs(a-b) <= max(rel_tol * max(abs(a), abs(b)), abs_tol)"""
    a, b = I.num_operand(args[0]), I.num_operand(args[1])
    rel = I.num_operand(kwargs.get("rel_tol", 1e-09))
    ab = I.num_operand(kwargs.get("abs_tol", 0.0))
    for v in (a, b, rel, ab):
        if not I.ctx.branch(Z.is_finite(v.t), "isclose-finite") :
            raise Unsupported("math.isclose with a non-finite argument")
    x, y, r, t = Z.rval(a.t), Z.rval(b.t), Z.rval(rel.t), Z.rval(ab.t)
    absx, absy, d = z3.If(x >= 0, x, -x), z3.If(y >= 0, y, -y), z3.If(x - y >= 0, x - y, y - x)
    m = z3.If(absx >= absy, absx, absy)
    bound = z3.If(r * m >= t, r * m, t)
    return SV(Z.mk_bool(d <= bound), TBool())


def threading_semaphore(I, args, kwargs):
    """threading.Semaphore(n) / BoundedSemaphore(n) / Lock(): a blocking primitive - acquire() may block the calling thread"""
    return fresh_abstract(I, "threading.Semaphore")


def asyncio_event(I, args, kwargs):
    return fresh_abstract(I, "asyncio.Event", isset=False)


def asyncio_get_event_loop(I, args, kwargs):
    """asyncio.get_event_loop() inside a running coroutine: the loop that runs it (one object per run)"""
    ctx = I.ctx
    ty = I.E.shared_types["asyncio.Loop"]
    t = z3.Const("the_running_loop", Z.Val)
    sv = ctx.typed(t, ty)
    ctx.assume(Z.Val.id(t) < ctx.alloc0)
    return sv


def trio_current_token(I, args, kwargs):
    """trio.lowlevel.current_trio_token(): the token of the trio run the caller is in (one object per run)"""
    ctx = I.ctx
    t = z3.Const("the_trio_token", Z.Val)
    ctx.assume(z3.And(Z.is_refv(t), Z.Val.id(t) > 0, Z.Val.id(t) < ctx.alloc0))
    return SV(t, TRef())


def trio_open_memory_channel(I, args, kwargs):
    """trio.open_memory_channel(inf): a fresh (send, receive) pair; the send side is open"""
    ctx = I.ctx
    size = ctx.to_val(args[0] if args else kwargs.get("max_buffer_size"))
    # the assumed contract of send / send_nowait (never blocks, never raises WouldBlock) is the UNBOUNDED channel's
    ctx.oblige("trio.open_memory_channel/requires[the-channel-is-unbounded-max_buffer_size-is-inf]", size.t == Z.POS_INF, kind="pre")
    send = fresh_abstract(I, "trio.SendChannel", closed=False, clone_of=None)
    recv = fresh_abstract(I, "trio.ReceiveChannel")
    ctx.store_raw(ctx.ref_id(recv), "peer", send.t)
    ctx.emit("open_memory_channel", send, recv)
    return VTuple([send, recv])


def trio_open_nursery(I, args, kwargs):
    """async with trio.open_nursery() as n: the block is left only after every child task has finished (assumed)"""
    ctx = I.ctx

    def enter():
        n = fresh_abstract(I, "trio.Nursery")
        ctx.emit("nursery.enter", n)
        ctx.ghost.setdefault("nurseries", []).append(n)
        return n

    def exit_(exc):
        n = ctx.ghost["nurseries"].pop()
        ctx.emit("nursery.exit", n)
        return False

    return CtxMgr(enter, exit_)


def trio_run(I, args, kwargs):
    """trio.run(f): runs f() on the calling thread in a new trio run and yields its outcome (child failures wrapped in
    ExceptionGroup); returns only after every task of the run has finished"""
    ctx = I.ctx
    f = args[0]
    f2 = ctx.from_val(f) if isinstance(f, SV) else f
    key = f2.fn.key if isinstance(f2, BoundMethod) else str(f2)
    ctx.emit("trio.run", key, f2.self_val if isinstance(f2, BoundMethod) else None)
    r = I.call(f, [], {})
    r2 = ctx.from_val(r) if isinstance(r, SV) else r
    if isinstance(r2, Coro):
        r = r2.thunk()
    return r


def asyncio_sleep(I, args, kwargs):
    d = args[0]

    def thunk():
        ctx = I.ctx
        ctx.emit("asyncio.sleep", ctx.to_val(d))
        for f in ENV_FIELDS + ("task_done",):
            ctx.heap[f] = fresh("H_%s" % f, ctx.field_array(f).sort())
        ctx.ghost["nondet"] = True
        if ctx.choose(2, "asyncio.sleep-outcome") == 1:
            raise PyRaise(I.make_exception(ExternalRef("asyncio.CancelledError"), []))
        return None

    return Coro(thunk, "asyncio.sleep")


def asyncio_current_task(I, args, kwargs):
    t = I.ctx.ghost.get("current_task")
    if t is None:
        t = I.ctx.ghost["current_task"] = SV(fresh_val("current_task"), ANY)
    return t


_UNWRAPPED = z3.Function("inspect_unwrap", Z.Val, Z.Val)


def inspect_unwrap(I, args, kwargs):
    """inspect.unwrap(f) (assumed): f itself when it has no `__wrapped__`, else the end of its `__wrapped__` chain - ANOTHER object,
    a function of f; only for objects whose attributes are open (an arbitrary Python object)"""
    ctx = I.ctx
    f = ctx.from_val(args[0]) if isinstance(args[0], SV) else args[0]
    if kwargs or len(args) != 1 or not (isinstance(f, SV) and getattr(ctx.resolve_ty(f.ty), "open_attrs", False)):
        raise Unsupported("inspect.unwrap of %r" % (f,))
    ctx.ghost["nondet"] = True
    if ctx.choose(2, "has(__wrapped__)") == 0:
        return f
    t = _UNWRAPPED(f.t)
    ctx.assume(z3.And(Z.is_refv(t), Z.Val.id(t) > 0, Z.Val.id(t) < ctx.alloc0, t != f.t))
    ctx.assume_class(t, f.ty)
    return SV(t, f.ty)


def statistics_mean(I, args, kwargs):
    """statistics.fmean(xs) / statistics.mean(xs) (assumed, over reals): sum(xs) / len(xs); StatisticsError when xs is empty.
    Only for a generator / sequence whose sum the engine can form (a pure element expression over a heap sequence)"""
    from . import loops as L
    import ast as _ast

    ctx = I.ctx
    it = args[0]
    if kwargs or len(args) != 1:
        raise Unsupported("statistics.mean with weights / several arguments")
    if isinstance(it, L.GenExpT()):
        gen, fr, seq = L._single_gen(I, it)
        if gen.ifs:
            raise Unsupported("statistics.mean over a filtered generator")
        conc = None
    else:
        conc = I.try_concrete_iter(it)
        seq = ctx.from_val(it) if isinstance(it, SV) else it
    if conc is not None:
        if not conc:
            raise PyRaise(I.make_exception(ExternalRef("statistics.StatisticsError"), ["mean requires at least one data point"]))
        total = 0
        for x in conc:
            total = I.binop(_ast.Add(), total, x)
        return I.binop(_ast.Div(), total, len(conc))
    if not isinstance(it, L.GenExpT()):
        raise Unsupported("statistics.mean over %r" % (it,))
    n = I.B.seq_len(I, seq)
    if ctx.branch(n == 0, "mean-of-nothing"):
        raise PyRaise(I.make_exception(ExternalRef("statistics.StatisticsError"), ["mean requires at least one data point"]))
    total = L.symbolic_sum(I, it, 0)
    return I.binop(_ast.Div(), total, SV(Z.mk_int(n), TNum(only="int")))


def os_path_splitext(I, args, kwargs):
    """os.path.splitext(p) (assumed): (root, ext) with root + ext == p; ext is empty or starts with '.'"""
    ctx = I.ctx
    pth = Z.Val.s(ctx.to_val(args[0]).t)
    root, ext = fresh("root", z3.StringSort()), fresh("ext", z3.StringSort())
    dot, slash = z3.StringVal("."), z3.StringVal("/")
    # (that ext holds no further '.' and no '/' is true as well, but not needed by any clause and costly for the string solvers)
    ctx.assume(z3.And(pth == z3.Concat(root, ext), z3.Or(z3.Length(ext) == 0, z3.PrefixOf(dot, ext))))
    return VTuple([SV(Z.mk_str(root), TStr()), SV(Z.mk_str(ext), TStr())])


def itertools_chain(I, args, kwargs):
    """itertools.chain over iterables of known length: their elements one after the other, as a one-shot iterator"""
    out = []
    for a in args:
        c = I.try_concrete_iter(a)
        if c is None:
            raise Unsupported("itertools.chain over an iterable of unknown length")
        out.extend(c)
    return I.B.ConcreteIter(out, oneshot=True)


def install(E):
    # blocking primitives stored in attributes a contract's shape does not describe: acquiring one may block the calling thread
    E.external_result_types.update({"threading.Semaphore": "threading.Semaphore", "threading.BoundedSemaphore": "threading.Semaphore", "threading.Event": "threading.Event",
                                    "threading.RLock": "threading.Semaphore", "threading.Lock": "threading.Semaphore", "threading.Condition": "threading.Semaphore"})
    E.externals.update({"trio.lowlevel.current_trio_token": trio_current_token, "trio.open_memory_channel": trio_open_memory_channel,
                        "trio.open_nursery": trio_open_nursery, "trio.run": trio_run, "asyncio.sleep": asyncio_sleep,
                        "threading.Event": threading_event, "asyncio.Event": asyncio_event, "asyncio.get_event_loop": asyncio_get_event_loop,
                        "threading.Thread": threading_thread, "asyncio.run_coroutine_threadsafe": run_coroutine_threadsafe, "trio.from_thread.run": trio_from_thread_run,
                        "asyncio.current_task": asyncio_current_task, "trio.sleep": trio_sleep, "str.__mod__": str_mod, "logging.getLogger": get_logger,
                        "threading.Semaphore": threading_semaphore, "threading.BoundedSemaphore": threading_semaphore, "threading.RLock": threading_semaphore,
                        "math.isclose": math_isclose, "threading.Lock": threading_lock, "itertools.chain": itertools_chain, "inspect.unwrap": inspect_unwrap, "os.path.splitext": os_path_splitext, "trio.current_time": trio_current_time, "trio.sleep_until": trio_sleep_until,
                        "math.ceil": math_ceil_floor("ceil"), "math.floor": math_ceil_floor("floor"), "statistics.fmean": statistics_mean, "statistics.mean": statistics_mean,
                        "asyncio.run": asyncio_run, "asyncio.shield": asyncio_shield, "asyncio.gather": asyncio_gather})
