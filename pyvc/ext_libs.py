"""Assumed contracts of asyncio / trio / threading / logging / yaml / inspect / toposort (DESIGN.md 3.3)."""
import z3

from . import z as Z
from .engine import *
from .interp import Coro, CtxMgr
from . import builtins_ as B


def trio_sleep(I, args, kwargs):
    """trio.sleep(d): returns after exactly d of the run's clock (event `sleep(d)`, ghost clock += d) or raises trio.Cancelled"""
    d = args[0]

    def thunk():
        ctx = I.ctx
        sv = I.num_operand(d)
        ctx.emit("sleep", sv)
        now = ctx.ghost.get("now", z3.RealVal(0))
        ctx.ghost["now"] = now + Z.rval(sv.t)
        if ctx.choose(2, "trio.sleep-outcome") == 1:
            raise PyRaise(I.make_exception(ExternalRef("trio.Cancelled"), []))
        return None

    return Coro(thunk, "trio.sleep")


def install(E):
    E.externals.update({"trio.sleep": trio_sleep})
