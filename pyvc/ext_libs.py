"""Assumed contracts of asyncio / trio / threading / logging / yaml / inspect / toposort (DESIGN.md 3.3)."""
import z3

from . import z as Z
from .engine import *
from .interp import Coro, CtxMgr
from . import builtins_ as B


def trio_sleep(I, args, kwargs):
    """trio.sleep(d): returns after exactly d of the run's clock (event `sleep(d)`, ghost clock += d) or raises trio.Cancelled"""
    d = args[0]

    def thunk():
        ctx = I.ctx
        sv = I.num_operand(d)
        ctx.emit("sleep", sv)
        now = ctx.ghost.get("now", z3.RealVal(0))
        ctx.ghost["now"] = now + Z.rval(sv.t)
        if ctx.choose(2, "trio.sleep-outcome") == 1:
            raise PyRaise(I.make_exception(ExternalRef("trio.Cancelled"), []))
        return None

    return Coro(thunk, "trio.sleep")


fmt_names = z3.Function("fmt_names", z3.StringSort(), z3.StringSort(), z3.BoolSort())
logger_of = z3.Function("logger_of", z3.StringSort(), z3.IntSort())


def names_within(msg_str, keys):
    """every %(name)s field of the template msg is one of keys"""
    k = z3.String("fk")
    return z3.ForAll([k], z3.Implies(fmt_names(msg_str, k), z3.Or(*[k == z3.StringVal(x) for x in keys]) if keys else z3.BoolVal(False)))


def str_mod(I, fmt, arg):
    """'template' % mapping (assumed): raises KeyError iff the template names a key the mapping lacks; otherwise
    returns a str or raises TypeError/ValueError for a malformed conversion (which propagate)"""
    ctx = I.ctx
    arg2 = ctx.from_val(arg) if isinstance(arg, SV) else arg
    if not isinstance(arg2, VDict):
        return NotImplemented
    ctx.ghost["nondet"] = True
    sv = ctx.to_val(fmt)
    ok = names_within(Z.Val.s(sv.t), list(arg2.items.keys()))
    d = ctx.choose(4, "%-format")
    if d == 0:
        ctx.assume(ok)
        return B.opaque_str(I, "%-formatting with a mapping")
    if d == 1:
        ctx.assume(z3.Not(ok))
        raise PyRaise(I.make_exception(ExternalRef("KeyError"), []))
    ctx.assume(ok)
    raise PyRaise(I.make_exception(ExternalRef("TypeError" if d == 2 else "ValueError"), []))


def get_logger(I, args, kwargs):
    """logging.getLogger(name): the logger object is a function of the name"""
    ctx = I.ctx
    ctx.ghost["nondet"] = True
    name = ctx.to_val(args[0] if args else kwargs.get("name"))
    ty = I.E.shared_types["PyLogger"]
    t = Z.mk_ref(logger_of(Z.Val.s(name.t)))
    sv = SV(t, ty)
    ctx.assume(z3.And(logger_of(Z.Val.s(name.t)) > 0, logger_of(Z.Val.s(name.t)) < ctx.alloc0))
    ctx.assume_class(t, ty)
    ctx.assume(z3.Select(ctx.field_array("name"), Z.Val.id(t)) == name.t)
    return sv


def install(E):
    E.externals.update({"trio.sleep": trio_sleep, "str.__mod__": str_mod, "logging.getLogger": get_logger})
