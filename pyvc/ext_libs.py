"""Assumed contracts of asyncio / trio / threading / logging / yaml / inspect / toposort (filled per property)."""


def install(E):
    pass
