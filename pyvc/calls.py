"""Calls: under contract (assert requires / havoc frame / assume ensures), inlined, abstract, external."""
import ast
import z3

from . import z as Z
from .engine import *
from .interp import Coro, CtxMgr, GenExp
from .contracts import Spec, Contract, N, ObjView, SeqView, AnyView, _term

MAX_INLINE_DEPTH = 12


def call_(I, fn, args, kwargs, site=None):
    ctx = I.ctx
    if isinstance(fn, SV):
        fn = ctx.from_val(fn)
    if isinstance(fn, Closure):
        a = list(args)
        if fn.self_val is not None:
            a = [fn.self_val] + a
        return invoke(I, fn.fi, a, kwargs, fn.env, getattr(fn, "cls_ctx", None), fn)
    if isinstance(fn, BoundMethod):
        return invoke(I, fn.fn, [fn.self_val] + list(args), kwargs, [], fn.owner or fn.fn.cls, None)
    if isinstance(fn, ClassInfo):
        return instantiate(I, fn, args, kwargs)
    if isinstance(fn, PartialFn):
        kw = dict(fn.kwargs)
        kw.update(kwargs)
        return call_(I, fn.fn, list(fn.args) + list(args), kw, site)
    if isinstance(fn, AbstractMethod):
        lab = "%s.%s" % (fn.self_val.ty.name, fn.name)
        if fn.contract.is_async:
            return Coro(lambda: apply_contract(I, fn.contract, [fn.self_val] + list(args), kwargs, callee_label=lab), lab)
        return apply_contract(I, fn.contract, [fn.self_val] + list(args), kwargs, callee_label=lab)
    if isinstance(fn, SV) and isinstance(fn.ty, TFn):
        con = fn.ty.contract
        if con.is_async:
            return Coro(lambda: apply_contract(I, con, [fn] + list(args), kwargs, callee_label=con.key), con.key)
        return apply_contract(I, con, [fn] + list(args), kwargs, callee_label=con.key)
    if isinstance(fn, ExternalRef):
        return I.B.call_external(I, fn, args, kwargs)
    if isinstance(fn, Builtin):
        return I.B.call_builtin(I, fn, args, kwargs)
    if isinstance(fn, SeqMethod):
        return I.B.call_method(I, fn.obj, fn.name, args, kwargs)
    if isinstance(fn, TypeOf):
        return I.B.call_typeof(I, fn, args, kwargs)
    if isinstance(fn, I.B.NativeObj):
        return fn.call(I, args, kwargs)
    if isinstance(fn, SV) and isinstance(I.ctx.resolve_ty(fn.ty), TAny):
        # an untyped reference whose class the heap settles (an object built on this very path and read back from an attribute)
        ctx = I.ctx
        cidt = z3.simplify(z3.Select(ctx.field_array("$cls"), Z.Val.id(fn.t)))
        if z3.is_app(cidt) and cidt.decl().kind() == z3.Z3_OP_SELECT:
            cidt = z3.simplify(ctx._resolve_select(cidt))
        if z3.is_int_value(cidt):
            k = I.E.classes.by_id.get(cidt.as_long())
            if isinstance(k, ClassInfo):
                ty = TObj(k.key)
                ty.cls = k
                fn = SV(fn.t, ty)
    if isinstance(fn, SV) and isinstance(I.ctx.resolve_ty(fn.ty), TObj):
        # an instance of a repository class is called: its class's __call__
        ty = I.ctx.resolve_ty(fn.ty)
        owner, mem = I.repo.lookup_member(ty.cls, "__call__")
        if isinstance(mem, FunctionInfo):
            return invoke(I, mem, [fn] + list(args), kwargs, [], owner or mem.cls, None)
    raise Unsupported("call of %r" % (fn,))


def bind_args(I, fi, args, kwargs, module_frame):
    """Python's argument binding for a def/lambda; defaults evaluated in the defining module"""
    a = fi.node.args
    names = [x.arg for x in a.posonlyargs + a.args]
    bound = {}
    args = list(args)
    if len(args) > len(names) and a.vararg is None:
        raise PyRaise(I.make_exception(ExternalRef("TypeError"), ["too many positional arguments"]))
    for n, v in zip(names, args):
        bound[n] = v
    rest = args[len(names) :]
    if a.vararg is not None:
        if len(rest) == 1 and isinstance(rest[0], StarArg):
            bound[a.vararg.arg] = rest[0].sv      # f(*seq): the parameter is (a tuple with the items of) that sequence
        elif any(isinstance(x, StarArg) for x in rest):
            raise Unsupported("mixing *sequence-of-unknown-length with other positional arguments")
        else:
            bound[a.vararg.arg] = VTuple(rest)
    kw = dict(kwargs)
    for n in names[len(args) :]:
        if n in kw:
            bound[n] = kw.pop(n)
    for n in names[: len(args)]:
        if n in kw:
            raise PyRaise(I.make_exception(ExternalRef("TypeError"), ["multiple values for argument %s" % n]))
    ndef = len(a.defaults)
    for i, n in enumerate(names):
        if n not in bound:
            di = i - (len(names) - ndef)
            if di >= 0:
                bound[n] = I.eval(module_frame, a.defaults[di])
            else:
                raise PyRaise(I.make_exception(ExternalRef("TypeError"), ["missing argument %s" % n]))
    for x, d in zip(a.kwonlyargs, a.kw_defaults):
        if x.arg in kw:
            bound[x.arg] = kw.pop(x.arg)
        elif d is not None:
            bound[x.arg] = I.eval(module_frame, d)
        else:
            raise PyRaise(I.make_exception(ExternalRef("TypeError"), ["missing keyword-only argument %s" % x.arg]))
    if a.kwarg is not None:
        bound[a.kwarg.arg] = VDict(kw)
    elif kw:
        raise PyRaise(I.make_exception(ExternalRef("TypeError"), ["unexpected keyword argument %s" % sorted(kw)[0]]))
    return bound


def invoke(I, fi, args, kwargs, closure_env, cls_ctx, closure):
    """call of an in-repo function: against its contract when it has one, else by executing its real body (inlined)"""
    ctx = I.ctx
    dec = ctx.ghost.get(("decorated", fi.key))
    if dec is not None and dec is not closure and not getattr(closure, "is_raw", False):
        # the function as its (in-repo) decorators left it at class-definition time - set up by verify.run_decorated for this path
        return I.call(dec, args, kwargs)
    con = I.E.contracts.get(fi.key)
    if con is not None and con.transparent:
        con = None
    if con is not None:
        if fi.is_async:
            co = Coro(lambda: apply_contract(I, con, args, kwargs, fi=fi), fi.key)
            co.origin = (fi, list(args))
            return co
        return apply_contract(I, con, args, kwargs, fi=fi)

    def run():
        mframe = Frame(None, {}, closure_env, fi.module)
        bound = bind_args(I, fi, args, kwargs, mframe)
        I.E.inlined.add(fi.key)
        return run_body(I, fi, bound, closure_env, cls_ctx)

    if fi.is_async:
        co = Coro(run, fi.key)
        co.origin = (fi, list(args))
        return co
    return run()


def run_body(I, fi, bound, closure_env=None, cls_ctx=None):
    """execute the real body of fi with the given bound arguments; returns the returned value (None if it falls off the end)"""
    ctx = I.ctx
    if ctx.depth >= MAX_INLINE_DEPTH:
        raise Unsupported("inlining depth exceeded at %s" % fi.key)
    fr = Frame(fi, bound, closure_env or [], fi.module)
    fr.cls_ctx = cls_ctx if cls_ctx is not None else fi.cls
    ctx.depth += 1
    try:
        if isinstance(fi.node, ast.Lambda):
            return I.eval(fr, fi.node.body)
        try:
            I.exec_block(fr, fi.node.body)
        except ReturnSig as r:
            return r.value
        return None
    finally:
        ctx.depth -= 1


def instantiate(I, cls, args, kwargs):
    """Class(*args, **kwargs): allocate, run __init__ along the MRO (contract if present)"""
    ctx = I.ctx
    reg = I.E.classes
    if reg.is_exception_class(cls):
        e = ctx.alloc(cls, TObj(cls.key))
        e.ty.cls = cls
        e.ty.is_exc = True
        ctx.partial_objs.add(z3.simplify(ctx.ref_id(e)).sexpr())
        ctx.store_raw(ctx.ref_id(e), "$nargs", Z.mk_int(len(args)))
        owner, init = I.repo.lookup_member(cls, "__init__")
        if isinstance(init, FunctionInfo):
            invoke(I, init, [e] + list(args), kwargs, [], owner, None)
        else:
            for i, a in enumerate(args[:2]):
                ctx.store_raw(ctx.ref_id(e), "$arg%d" % i, ctx.to_val(a).t)
        return e
    if reg.is_sub(cls, ExternalRef("dict")):
        owner, init = I.repo.lookup_member(cls, "__init__")
        if not isinstance(init, FunctionInfo):
            # subclass of dict without its own __init__: a dict carrying its class (e.g. logger._WarnMap)
            d = VDict(kwargs)
            if args:
                src = ctx.from_val(args[0]) if isinstance(args[0], SV) else args[0]
                if isinstance(src, VDict):
                    d.items = dict(src.items, **kwargs)
                else:
                    raise Unsupported("dict subclass from non-concrete mapping")
            d.cls = cls
            return d
    if any(isinstance(k, ExternalRef) and k.dotted.split(".")[-1] == "NamedTuple" for k in I.repo.mro(cls)):
        # typing.NamedTuple: positional/keyword fields in annotation order, defaults from the class body
        ty = TObj(cls.key)
        ty.cls = cls
        obj = ctx.alloc(cls, ty)
        key = z3.simplify(ctx.ref_id(obj)).sexpr()
        ctx.partial_objs.add(key)
        names = [n for n, _ in cls.annotations]
        if len(args) > len(names):
            raise PyRaise(I.make_exception(ExternalRef("TypeError"), ["too many arguments"]))
        vals = dict(zip(names, args))
        for k, v in kwargs.items():
            if k in vals or k not in names:
                raise PyRaise(I.make_exception(ExternalRef("TypeError"), ["bad keyword %s" % k]))
            vals[k] = v
        for n, dflt in cls.annotations:
            if n not in vals:
                if dflt is None:
                    raise PyRaise(I.make_exception(ExternalRef("TypeError"), ["missing %s" % n]))
                vals[n] = I.eval(Frame(None, {}, [], cls.module), dflt)
            ctx.store_raw(ctx.ref_id(obj), n, ctx.to_val(vals[n]).t)
            ctx.present.setdefault(key, set()).add(n)
        return obj
    newc = I.E.contracts.get(cls.key + ".__new__")
    if newc is not None:
        return apply_contract(I, newc, [cls] + list(args), kwargs)
    ty = TObj(cls.key)
    ty.cls = cls
    obj = ctx.alloc(cls, ty)
    ctx.partial_objs.add(z3.simplify(ctx.ref_id(obj)).sexpr())
    if any(d.startswith("service(") for d in cls.decorators):
        ctx.note("class decorator @service on %s: instance creation also registers a ServiceUnit (modelled in the C03/C04 contracts only)" % cls.key)
        ctx.emit("service_unit", obj)
    owner, init = I.repo.lookup_member(cls, "__init__")
    if isinstance(init, FunctionInfo):
        invoke(I, init, [obj] + list(args), kwargs, [], owner, None)
    elif args or kwargs:
        raise PyRaise(I.make_exception(ExternalRef("TypeError"), ["takes no arguments"]))
    return obj


# ======================================================================================== contracts
def bind_contract_params(I, con, args, kwargs, fi):
    """bind call arguments to the contract's parameter names (from the real signature when there is one)"""
    if fi is not None:
        mframe = Frame(None, {}, [], fi.module)
        return bind_args(I, fi, args, kwargs, mframe)
    names = list(con.params)
    bound = {}
    star = None
    for k, n in enumerate(names):
        if n.startswith("*"):
            star = n
            break
    dstar = None
    for n in names:
        if n.startswith("**"):
            dstar = n
    star = star if (star is not None and not star.startswith("**")) else None
    pos = [n for n in names if not n.startswith("*")]
    if star is None and len(args) > len(pos):
        raise Unsupported("too many arguments for abstract contract %s" % con.key)
    for n, v in zip(pos, args):
        bound[n] = v
    if star is not None:
        bound[star[1:]] = VTuple(list(args[len(pos) :]))
    extra_kw = {}
    for k, v in kwargs.items():
        if k in bound:
            raise Unsupported("duplicate argument for abstract contract")
        if k in pos or dstar is None:
            bound[k] = v
        else:
            extra_kw[k] = v
    if dstar is not None:
        bound[dstar[2:]] = VDict(extra_kw)
    for n in pos:
        if n not in bound:
            bound[n] = None
    return bound


def views_of(spec, bound, heap):
    return {k: spec.view(v, heap) for k, v in bound.items()}


def eval_clause(fn, spec, views, **extra):
    if fn is None:
        return {}
    import inspect

    sig = inspect.signature(fn)
    if not any(p.kind == p.VAR_KEYWORD for p in sig.parameters.values()):
        extra = {k: v for k, v in extra.items() if k in sig.parameters}
        views = {k: v for k, v in views.items() if k in sig.parameters}
    try:
        r = fn(spec, **views, **extra)
    except (AttributeError, TypeError, KeyError, IndexError) as ex:
        # the clause is written for values of a certain shape (a dict display, an object with these fields ...); the code now hands over
        # something else: the contract does not cover this code - undecided, neither a crash nor a violation
        import traceback

        where = traceback.extract_tb(ex.__traceback__)[-1]
        raise Unsupported("a clause of the contract cannot be evaluated on the values this code produces (%s: %s at %s:%d)" % (type(ex).__name__, ex, where.filename.split("/")[-1], where.lineno))
    if r is None:
        return {}
    if isinstance(r, dict):
        return {k: (z3.BoolVal(v) if isinstance(v, bool) else v) for k, v in r.items()}
    if isinstance(r, (list, tuple)):
        return {"%d" % i: (z3.BoolVal(v) if isinstance(v, bool) else v) for i, v in enumerate(r)}
    return {"0": z3.BoolVal(r) if isinstance(r, bool) else r}


def _sidecar(_hook, /, *a, **k):
    """run a sidecar hook (emits / writes / ghost records) of a callee contract; if it does not fit the arguments this code passes
    (a keyword the assumed contract does not know, a value of another shape), the contract does not cover the call: undecided, not a crash"""
    try:
        return _hook(*a, **k)
    except (TypeError, AttributeError, KeyError, IndexError) as ex:
        import traceback

        where = traceback.extract_tb(ex.__traceback__)[-1]
        raise Unsupported("a callee contract does not fit this call (%s: %s at %s:%d)" % (type(ex).__name__, ex, where.filename.split("/")[-1], where.lineno))


def apply_writes(I, con, spec, views):
    """havoc the callee's frame in the caller's heap"""
    ctx = I.ctx
    if con.writes is None:
        return
    for w in con.writes(spec, **views):
        if w[0] == "all":
            _, fname, pred = w
            ctx.wrote(fname, pred=pred)
            old = ctx.field_array(fname)
            new = fresh("H_%s" % fname, old.sort())
            x = z3.Int("wx")
            if getattr(ctx.E, "bounded", None) is not None:
                # refutation mode: the havocked array as a lambda term instead of a quantified frame axiom
                ctx.heap[fname] = z3.Lambda([x], z3.If(pred(x), z3.Select(new, x), z3.Select(old, x)))
            else:
                ctx.assume(z3.ForAll([x], z3.Implies(z3.Not(pred(x)), z3.Select(new, x) == z3.Select(old, x))))
                ctx.heap[fname] = new
        else:
            objv, fname = w
            idt = objv.id if hasattr(objv, "id") else Z.Val.id(_term(objv))
            ctx.wrote(fname, idt)
            sort = ctx.field_array(fname).sort().range()
            ctx.heap[fname] = z3.Store(ctx.field_array(fname), idt, fresh("w_%s" % fname, sort))


def result_value(I, con, spec):
    ctx = I.ctx
    rty = con.result
    if rty is None or isinstance(rty, TNone):
        return None
    t = fresh_val("res")
    sv = SV(t, ctx.resolve_ty(rty))
    ctx.assume(rty.inv(t))
    if con.fresh_result:
        # a new object: id beyond everything allocated so far
        idt = ctx.alloc0 + ctx.nalloc
        ctx.nalloc += 1
        ctx.assume(Z.Val.id(t) == idt)
    elif isinstance(rty, TRef) and not isinstance(rty, TFn):
        ctx.assume(Z.Val.id(t) < ctx.alloc0 + ctx.nalloc)
    return sv


def exc_class_of(I, name):
    if ":" in name:
        c = I.repo.get(name)
        if c is None:
            raise EngineError("contract names unknown class %s" % name)
        return c
    return ExternalRef(name)


def apply_contract(I, con, args, kwargs, fi=None, callee_label=None):
    ctx = I.ctx
    label = callee_label or con.key
    if con.result is not None or con.raises or con.writes is not None:
        ctx.ghost["nondet"] = True  # the callee's outcome is chosen by its contract, not computed
    bound = bind_contract_params(I, con, args, kwargs, fi)
    # shapes of parameters are part of the precondition
    typed_bound = {}
    for k, v in bound.items():
        pty = con.params.get(k) or con.params.get("*" + k) or con.params.get("**" + k)
        if pty is not None and callable(pty) and not isinstance(pty, T):
            # the contract builds this parameter itself when its body is verified (a display of known shape): callers pass theirs as it is
            typed_bound[k] = ctx.from_val(v) if isinstance(v, SV) else v
            continue
        if isinstance(pty, TSeq) and isinstance(v, (VTuple, VList)):
            # a display of known length passed where the contract speaks of a sequence: the same items as a heap sequence
            v = I.B.materialise_seq(I, v, pty)
        if pty is not None and isinstance(v, SV) or (pty is not None and isinstance(pty, T) and not isinstance(v, (VTuple, VDict, VList, Closure, ClassInfo))):
            sv = ctx.to_val(v)
            pty = ctx.resolve_ty(pty)
            ctx.oblige("%s/param-shape[%s]" % (short(label), k), pty.inv(sv.t, goal=True), kind="pre")
            typed_bound[k] = SV(sv.t, pty)
        else:
            typed_bound[k] = v
    old_heap = ctx.snapshot()   # taken after argument displays have been materialised as heap sequences
    spec = Spec(ctx, old_heap, old_heap)
    _attach_trace(spec, ctx, ctx.trlen)
    views = views_of(spec, typed_bound, old_heap)
    for lab, f in eval_clause(con.requires, spec, views).items():
        ctx.oblige("%s/requires[%s]" % (short(label), lab), f, kind="pre")
    if getattr(con, "ghost_call", None) is not None:
        _sidecar(con.ghost_call, spec, ctx, **views)
    if con.announce:
        # the caller's marker of the call comes BEFORE the callee's own events: the callee's clauses count their events from after it
        # (they were proved on the body, where there is no such marker)
        vals = [v for k, v in typed_bound.items()]
        ctx.emit("call", con.key, vals[0] if vals else None, vals[1] if len(vals) > 1 else None, vals[2] if len(vals) > 2 and isinstance(vals[2], SV) else None)
    tr_old_len = ctx.trlen
    if con.emits is not None:
        _sidecar(con.emits, spec, ctx, **views)
    if con.delegate is not None:
        return con.delegate(I, **typed_bound)
    _sidecar(apply_writes, I, con, spec, views)
    if con.has_events and con.emits is None and con.emits_after is None:
        # the callee may append events: havoc the trace, keeping the prefix
        ntr, nlen = fresh("tr", EvArr), fresh("trlen", z3.IntSort())
        k = z3.Int("tk")
        ctx.assume(nlen >= ctx.trlen)
        ctx.assume(z3.ForAll([k], z3.Implies(z3.And(0 <= k, k < ctx.trlen), z3.Select(ntr, k) == z3.Select(ctx.tr, k))))
        ctx.tr, ctx.trlen, ctx.events = ntr, nlen, None
    new_heap = ctx.snapshot()
    post = Spec(ctx, old_heap, new_heap)
    # outcomes
    outs = ["return"] + list(con.raises)
    if getattr(con, "never_returns", False):
        outs = list(con.raises)
    k = ctx.choose(len(outs), "outcome(%s)" % short(label)) if len(outs) > 1 else 0
    which = outs[k]
    if which == "return":
        res = result_value(I, con, post)
        post.result = res
        _attach_trace(post, ctx, tr_old_len)
        pviews = views_of(post, typed_bound, new_heap)
        rv = post.view(res, new_heap) if res is not None else None
        for lab, f in eval_clause(con.ensures, post, pviews, result=rv).items():
            if (f is False) or (z3.is_expr(f) and z3.is_false(f)):
                # a postcondition that is literally `false` at a call site is a sidecar error (a clause written for the body's own verification
                # that has no meaning in a caller), not a fact about the callee: assuming it would silently cut the caller's path
                raise EngineError("postcondition %s of %s is the constant false at a call site" % (lab, con.key))
            ctx.assume(f)
        if not ctx.feasible():
            raise PathEnd()
        if con.emits_after is not None:
            _sidecar(con.emits_after, post, ctx, "return", res, **pviews)
        return res
    cls = exc_class_of(I, which)
    exc = I.make_exception(cls, []) if con.exact_raises else I.sym_exception(cls, short(which))
    _attach_trace(post, ctx, tr_old_len)
    pviews = views_of(post, typed_bound, new_heap)
    ev = post.view(exc, ctx.snapshot())
    post.new_heap = ctx.snapshot()
    for lab, f in eval_clause(con.raises[which], post, views_of(post, typed_bound, post.new_heap), exc=ObjView(post, exc.t, exc.ty, post.new_heap)).items():
        ctx.assume(f)
    if not ctx.feasible():
        raise PathEnd()
    if con.emits_after is not None:
        _sidecar(con.emits_after, post, ctx, "raise", exc, **views_of(post, typed_bound, post.new_heap))
    raise PyRaise(exc)


def _attach_trace(spec, ctx, tr_old_len):
    spec.tr = ctx.tr
    spec.trlen = ctx.trlen
    spec.tr_old_len = tr_old_len


def short(label):
    return label.replace("cobald.", "")
