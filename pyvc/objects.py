"""Attribute lookup and store, resolved through the real class bodies (MRO from the AST)."""
import ast
import z3

from . import z as Z
from .engine import *
from .interp import Coro, CtxMgr, GenExp


def _attr_error(I, obj, name):
    return PyRaise(I.make_exception(ExternalRef("AttributeError"), ["object has no attribute %s" % name]))


def obj_key(ctx, sv):
    return z3.simplify(ctx.ref_id(sv)).sexpr()


def declared_fields(I, ty):
    """instance fields an object of shape ty is known to have"""
    cls = ty.cls
    names = set(ty.fields)
    initf = I.repo.init_fields(cls)
    extra = set(getattr(ty, "extra_fields", ()))
    bad = names - initf - extra
    if bad:
        # (on the unchanged tree this is a sidecar error and shows up as a permanently undecided check; on a changed tree it means the code no
        # longer has an attribute the contract speaks about: not covered)
        raise Unsupported("the contract's shape of %s declares attributes that no __init__ assigns: %s - the contract does not cover this code" % (cls.key, sorted(bad)))
    return names | initf


def getattr_(I, obj, name):
    ctx = I.ctx
    if isinstance(obj, SV):
        obj = ctx.from_val(obj)
    if isinstance(obj, SV) and isinstance(obj.ty, TAny):
        obj = ctx.narrow(obj)
    if isinstance(obj, SV) and isinstance(obj.ty, TOpt):
        # Optional[X]: None has no attributes; otherwise the value has shape X
        if ctx.branch(Z.is_none(obj.t), "is-None"):
            raise _attr_error(I, obj, name)
        obj = ctx.typed(obj.t, obj.ty.inner)
        if isinstance(obj.ty, TRef):
            ctx.assume(Z.Val.id(obj.t) < ctx.alloc0 + ctx.nalloc)
    if isinstance(obj, SV):
        ty = ctx.resolve_ty(obj.ty)
        if isinstance(ty, TObj):
            return getattr_obj(I, obj, ty, name)
        if isinstance(ty, TAbs):
            if name in ty.fields:
                return ctx.typed(ctx.load_raw(ctx.ref_id(obj), name), ty.fields[name])
            if name in ty.methods:
                return AbstractMethod(obj, name, ty.methods[name])
            if name in getattr(ty, "optional", {}):
                has = Z.Val.b(ctx.load_raw(ctx.ref_id(obj), "has:" + name))
                if not ctx.branch(has, "hasattr(%s)" % name):
                    raise _attr_error(I, obj, name)
                return ctx.typed(ctx.load_raw(ctx.ref_id(obj), name), ty.optional[name])
            if name == "__class__":
                return I.B.AbsClass(obj)
            if getattr(ty, "open_attrs", False):
                # an arbitrary Python object: reading an attribute either fails (AttributeError) or yields attr_of(object, name)
                ctx.ghost["nondet"] = True
                if ctx.choose(2, "getattr(%s)" % name) == 1:
                    raise _attr_error(I, obj, name)
                t = Z.attr_of(obj.t, z3.StringVal(name))
                ctx.assume(z3.And(Z.is_refv(t), Z.Val.id(t) > 0, Z.Val.id(t) < ctx.alloc0))
                sv = SV(t, ty)
                ctx.assume_class(t, ty)
                return sv
            if getattr(ty, "undeclared_may_be_missing", False):
                # an object known ONLY through the declared interface (e.g. "some template": a Partial or a PartialBind): any other attribute
                # exists for some of the objects it stands for and not for others - the AttributeError outcome is explored, the other one is
                # outside the interface (undecided)
                ctx.ghost["nondet"] = True
                if ctx.choose(2, "getattr-outside-interface(%s)" % name) == 1:
                    raise _attr_error(I, obj, name)
            raise Unsupported("abstract %s has no declared member %s" % (ty.name, name))
        if isinstance(ty, (TSeq, TMap)) or type(ty).__name__ == "TSet":
            return SeqMethod(obj, name)
        if isinstance(ty, TStr):
            return SeqMethod(obj, name)
        if isinstance(ty, TExc):
            ctx.note("attribute %s of a symbolic exception read as an unconstrained value" % name)
            if name == "args":
                a0 = SV(ctx.load_raw(ctx.ref_id(obj), "$arg0"), ANY)
                return I.B.ExcArgs(obj)
            return SV(ctx.load_raw(ctx.ref_id(obj), name), ANY)
        raise Unsupported("attribute %s of value with shape %s" % (name, ty.describe()))
    if isinstance(obj, ClassInfo):
        return getattr_class(I, obj, name)
    if isinstance(obj, ModuleInfo):
        r = I.repo.resolve_global(obj, name)
        if r is None:
            raise _attr_error(I, obj, name)
        return I.materialise(r)
    if isinstance(obj, ExternalRef):
        h = I.E.externals.get("value:%s.%s" % (obj.dotted, name))
        if h is not None:
            return h(I)
        return ExternalRef(obj.dotted + "." + name)
    if isinstance(obj, Closure):
        if name in obj.attrs:
            return obj.attrs[name]
        if name == "__doc__":
            return ast.get_docstring(obj.fi.node) if not isinstance(obj.fi.node, ast.Lambda) else None
        if name in ("__name__", "__qualname__"):
            return obj.fi.name if name == "__name__" else obj.fi.qualname
        if name == "__wrapped__" and "__wrapped__" in obj.attrs:
            return obj.attrs["__wrapped__"]
        raise _attr_error(I, obj, name)
    if isinstance(obj, BoundMethod):
        if name == "__doc__":
            return ast.get_docstring(obj.fn.node)
        if name == "__self__":
            return obj.self_val
        raise Unsupported("attribute %s of bound method" % name)
    if isinstance(obj, SuperProxy):
        return getattr_super(I, obj, name)
    if isinstance(obj, (VTuple, VList, VDict, VSet, str)):
        return SeqMethod(obj, name)
    if isinstance(obj, (Coro,)):
        raise Unsupported("attribute %s of coroutine" % name)
    if isinstance(obj, Builtin):
        if obj.name == "object" and name == "__new__":
            return Builtin("object.__new__")
        if obj.name == "float" or obj.name == "int" or obj.name == "dict" or obj.name == "str":
            return Builtin(obj.name + "." + name)
        raise Unsupported("attribute %s of builtin %s" % (name, obj.name))
    if isinstance(obj, I.B.NativeObj):
        return obj.getattr(I, name)
    if isinstance(obj, TypeOf) and name in ("__name__", "__qualname__"):
        return I.B.opaque_str(I, "type(x).__name__")
    raise Unsupported("attribute %s of %r" % (name, obj))


def class_overrides(ctx, cls):
    return ctx.ghost.get(("classattr", cls.key), {})


def getattr_obj(I, obj, ty, name):
    ctx = I.ctx
    cls = ty.cls
    if name == "__class__":
        return cls
    ov = class_overrides(ctx, cls)
    owner, mem = I.repo.lookup_member(cls, name)
    if isinstance(mem, PropertyInfo):
        if mem.getter is None:
            raise _attr_error(I, obj, name)
        return I.call(BoundMethod(obj, mem.getter, owner), [], {})
    key = obj_key(ctx, obj)
    if key in ctx.partial_objs:
        present = ctx.present.get(key, set())
        has_field = name in present
    else:
        has_field = name in declared_fields(I, ty)
    if has_field and key in ctx.partial_objs and name not in ty.fields:
        pv = ctx.ghost.get(("field-value", key, name))
        if pv is not None:
            return pv
        shape = ctx.ghost.get(("field-shape", key), {}).get(name)
        return SV(ctx.load_raw(ctx.ref_id(obj), name), shape)
    if has_field:
        if key not in ctx.partial_objs and ty.fields and name not in ty.fields and not getattr(ty, "open_shape", False):
            # an attribute the contract's shape does not describe: its value is ARBITRARY (over-approximation: no invariant is assumed)
            ctx.note("attribute %s of %s is not described by the contract's shape: read as an arbitrary value" % (name, ty.cls.key))
            # ... unless __init__ visibly assigns it a fresh library object of a type with an assumed contract (a lock, a semaphore, an event)
            lib = None
            for init, expr in I.repo.init_value_expr(ty.cls, name):
                if isinstance(expr, ast.Call):
                    try:
                        fn = I.repo.resolve_global(init.module, ast.unparse(expr.func).split(".")[0])
                        dotted = None
                        if isinstance(fn, ExternalRef):
                            dotted = ".".join([fn.dotted] + ast.unparse(expr.func).split(".")[1:])
                        lib = I.E.external_result_types.get(dotted)
                    except Exception:  # noqa
                        lib = None
            if lib is not None and lib in I.E.shared_types:
                lty = I.E.shared_types[lib]
                sv = ctx.typed(ctx.load_raw(ctx.ref_id(obj), name), lty)
                ctx.assume(z3.And(Z.is_refv(sv.t), Z.Val.id(sv.t) > 0, Z.Val.id(sv.t) < ctx.alloc0))
                ctx.assume_class(sv.t, lty)
                return sv
            return SV(ctx.load_raw(ctx.ref_id(obj), name), TAny())
        return ctx.typed(ctx.load_raw(ctx.ref_id(obj), name), ty.fields.get(name))
    if name in ov:
        v = ov[name]
        if isinstance(v, Closure):
            return BoundMethod(obj, v.fi, None) if False else I.B.bind_closure(obj, v)
        return v
    if isinstance(mem, FunctionInfo):
        if "staticmethod" in mem.decorators:
            return Closure(mem, [])
        if "classmethod" in mem.decorators:
            return BoundMethod(cls, mem, owner)
        return BoundMethod(obj, mem, owner)
    if isinstance(mem, tuple) and mem[0] == "attr":
        shared = _class_level_state(I, owner, name, mem[1])
        if shared is not None:
            return shared
        fr = Frame(None, {}, [], owner.module)
        return I.eval(fr, mem[1])
    if isinstance(mem, tuple) and mem[0] == "external":
        return I.B.external_member(I, obj, owner, name)
    raise _attr_error(I, obj, name)


def _class_level_state(I, owner, name, expr):
    """a class attribute initialised with a mutable container ({} / [] / set() / dict() ...) is state shared by all instances and all
    earlier calls: on entry its content is ARBITRARY (any history), not the initial literal"""
    ctx = I.ctx
    kind = None
    if isinstance(expr, ast.Dict) or (isinstance(expr, ast.Call) and ast.unparse(expr.func) in ("dict", "collections.OrderedDict", "OrderedDict", "defaultdict", "collections.defaultdict")):
        kind = "dict"
    elif isinstance(expr, ast.List) or (isinstance(expr, ast.Call) and ast.unparse(expr.func) == "list"):
        kind = "list"
    if kind is None:
        return None
    key = ("class-state", owner.key, name)
    if key not in ctx.ghost:
        ty = TMap(val=TAny(), key=TAny()) if kind == "dict" else TSeq(TAny(), "list")
        t = z3.Const("classattr_%s_%s" % (owner.name, name), Z.Val)
        sv = ctx.typed(t, ty)
        ctx.assume(z3.And(Z.is_refv(t), Z.Val.id(t) > 0, Z.Val.id(t) < ctx.alloc0))
        ctx.assume_class(t, ty)
        ctx.touch(sv)
        ctx.note("class attribute %s.%s is mutable state shared across calls: its content on entry is arbitrary" % (owner.key, name))
        ctx.ghost[key] = sv
    return ctx.ghost[key]


def getattr_class(I, cls, name):
    ctx = I.ctx
    ov = class_overrides(ctx, cls)
    if name in ov:
        return ov[name]
    h = I.E.externals.get("classattr:%s.%s" % (cls.key, name))
    if h is not None:
        return h(I)          # class-level state with a model supplied by a sidecar
    if name in ("__name__", "__qualname__"):
        return cls.name
    if name == "__mro__":
        return VTuple(list(I.repo.mro(cls)))
    owner, mem = I.repo.lookup_member(cls, name)
    if isinstance(mem, FunctionInfo):
        if "classmethod" in mem.decorators:
            return BoundMethod(cls, mem, owner)
        c = Closure(mem, [])
        c.cls_ctx = owner
        return c
    if isinstance(mem, PropertyInfo):
        return mem
    if isinstance(mem, tuple) and mem[0] == "attr":
        fr = Frame(None, {}, [], owner.module)
        return I.eval(fr, mem[1])
    if name == "__new__":
        return Builtin("object.__new__")
    if isinstance(mem, tuple) and mem[0] == "external":
        return ExternalRef(owner.dotted + "." + name)
    raise _attr_error(I, cls, name)


def getattr_super(I, sp, name):
    obj = sp.self_val
    if isinstance(obj, ClassInfo):
        raise Unsupported("super() in classmethod")
    ty = I.ctx.resolve_ty(obj.ty)
    mro = I.repo.mro(ty.cls)
    idx = mro.index(sp.after_cls)
    for k in mro[idx + 1 :]:
        if isinstance(k, ClassInfo):
            mem = k.members.get(name)
            if isinstance(mem, FunctionInfo):
                return BoundMethod(obj, mem, k)
            if mem is not None:
                raise Unsupported("super().%s is not a method" % name)
        else:
            nat = k.native()
            if name in ("__init__", "__getitem__") or hasattr(nat, name):
                return I.B.ExternalBound(obj, k, name)
    raise _attr_error(I, obj, name)


def materialise_for(I, v, fty):
    """a display of known size stored where the shape speaks of a heap container: the same content as a heap object"""
    ctx = I.ctx
    fty = ctx.resolve_ty(fty) if fty is not None else None
    if isinstance(v, VDict) and getattr(v, "sym", None) is None and isinstance(fty, TMap):
        m = ctx.alloc(None, fty)
        idt = ctx.ref_id(m)
        ctx.store_raw(idt, "$cls", z3.IntVal(ctx.E.classes.cid("abs:$dict")))
        ctx.heap["$mhas"] = z3.Store(ctx.field_array("$mhas"), idt, z3.K(Z.Val, z3.BoolVal(False)))
        ctx.heap["$len"] = z3.Store(ctx.field_array("$len"), idt, z3.IntVal(0))
        ctx.assume_class(m.t, fty)
        for k, x in v.items.items():
            I.B.map_set(I, m, k, x)
        v.sym = m
        return m
    if isinstance(v, (VList, VTuple)) and isinstance(fty, TSeq):
        return I.B.materialise_seq(I, v, fty)
    if isinstance(v, VDict) and getattr(v, "sym", None) is None and isinstance(fty, TSeq) and fty.kind == "dict-items":
        # a dict of known size where the shape speaks of its (key, value) items in insertion order
        return I.B.materialise_seq(I, VList([VTuple([unkey(k), x]) for k, x in v.items.items()]), fty)
    if isinstance(v, VSet) and type(fty).__name__ == "TSet":
        from . import setsum

        return setsum.new_set(I, v.items, fty.elem)
    return v


def setattr_(I, obj, name, v):
    ctx = I.ctx
    if isinstance(obj, SV):
        obj = ctx.from_val(obj)
    if isinstance(obj, SV):
        ty = ctx.resolve_ty(obj.ty)
        if isinstance(ty, TObj):
            owner, mem = I.repo.lookup_member(ty.cls, name)
            if isinstance(mem, PropertyInfo):
                if mem.setter is None:
                    raise _attr_error(I, obj, name)
                I.call(BoundMethod(obj, mem.setter, owner), [v], {})
                return
            fty = ty.fields.get(name)
            if fty is None and not ty.fields and isinstance(v, (VDict, VList, VTuple, VSet)) and getattr(v, "sym", None) is None:
                # an object built in this body (no shape of its own): a container display takes the representation the sidecars' shape of
                # this class declares for the attribute, so that a postcondition can speak about it
                dty = ctx.resolve_ty(TObj.declared_field(ty.cls.key, name))
                if (isinstance(dty, TSeq) and (isinstance(v, (VList, VTuple)) or dty.kind == "dict-items")) or (isinstance(dty, TMap) and isinstance(v, VDict)) or (type(dty).__name__ == "TSet" and isinstance(v, VSet)):
                    v = materialise_for(I, v, dty)
            v = materialise_for(I, v, fty)
            sv = ctx.to_val(v)
            if fty is not None and not isinstance(fty, TAny):
                ctx.oblige("fieldtype[%s.%s]" % (ty.cls.name, name), ctx.resolve_ty(fty).inv(sv.t, goal=True), kind="type")
            ctx.store_raw(ctx.ref_id(obj), name, sv.t)
            key = obj_key(ctx, obj)
            if ty.fields and name not in ty.fields and key not in ctx.partial_objs:
                # an attribute outside the vocabulary of the contract's shape: no clause can mention it, so it is not framed either
                ctx.note("store to attribute %s of %s, which the contract's shape does not describe (not framed)" % (name, ty.cls.key))
            else:
                ctx.wrote(name, ctx.ref_id(obj))
            if ctx.store_hook is not None and key not in ctx.partial_objs:
                ctx.store_hook("field-store:" + name)
            if key in ctx.partial_objs:
                ctx.present.setdefault(key, set()).add(name)
                # remember the shape of what was stored into an object built on this path
                ctx.ghost.setdefault(("field-shape", key), {})[name] = sv.ty if isinstance(v, SV) else None
                if not isinstance(v, SV):
                    ctx.ghost[("field-value", key, name)] = v
            else:
                if name not in declared_fields(I, ty) and name not in getattr(ty, "extra_fields", ()):
                    ctx.note("store creates new attribute %s on %s" % (name, ty.cls.key))
            return
        if isinstance(ty, TAbs):
            if name in ty.fields:
                sv = ctx.to_val(v)
                fty = ty.fields[name]
                if fty is not None and not isinstance(fty, TAny):
                    ctx.oblige("fieldtype[%s.%s]" % (ty.name, name), fty.inv(sv.t, goal=True), kind="type")
                ctx.store_raw(ctx.ref_id(obj), name, sv.t)
                ctx.wrote(name, ctx.ref_id(obj))
                if ty.events:
                    ctx.emit("store", obj, name, sv)
                return
            if name in getattr(ty, "optional", {}):
                sv = ctx.to_val(v)
                fty = ty.optional[name]
                if fty is not None and not isinstance(fty, TAny):
                    ctx.oblige("fieldtype[%s.%s]" % (ty.name, name), ctx.resolve_ty(fty).inv(sv.t, goal=True), kind="type")
                ctx.store_raw(ctx.ref_id(obj), name, sv.t)
                ctx.store_raw(ctx.ref_id(obj), "has:" + name, Z.mk_bool(True))
                ctx.wrote(name, ctx.ref_id(obj))
                ctx.wrote("has:" + name, ctx.ref_id(obj))
                if ty.events:
                    ctx.emit("store", obj, name, sv)
                return
            raise Unsupported("store to undeclared member %s of abstract %s" % (name, ty.name))
        if isinstance(ty, TExc):
            ctx.store_raw(ctx.ref_id(obj), name, ctx.to_val(v).t)
            ctx.wrote(name, ctx.ref_id(obj))
            return
        raise Unsupported("attribute store on value of shape %s" % ty.describe())
    if isinstance(obj, Closure):
        obj.attrs[name] = v
        return
    if isinstance(obj, ClassInfo):
        ctx.ghost.setdefault(("classattr", obj.key), {})[name] = v
        return
    if isinstance(obj, BoundMethod) and name == "__doc__":
        return
    if isinstance(obj, I.B.NativeObj):
        return obj.setattr(I, name, v)
    raise Unsupported("attribute store on %r" % (obj,))
