"""Property-level driver: run every contract of a property (16 worker processes), handle known findings,
replay refutations against the real code, write evidence, decide the exit code."""
import hashlib
import importlib
import json
import multiprocessing as mp
import os
import random
import re
import sys
import time
import traceback

VERIF = os.path.dirname(os.path.dirname(os.path.abspath(__file__)))

# property id -> sidecar modules holding its contracts
PROPERTY_MODULES = {}


def register(pid, *modules):
    PROPERTY_MODULES[pid] = list(modules)


def load_engine(modules):
    from .engine import Engine
    from .contracts import REGISTRY
    from . import externals

    E = Engine()
    externals.install(E)
    for m in modules:
        importlib.import_module(m)
    for g in REGISTRY.values():
        E.contracts.update(g)
    import contracts.common as CC

    CC.install_shared(E)
    return E


def _ob_record(ob):
    rec = {
        "name": ob.name,
        "path": ob.path,
        "kind": ob.kind,
        "status": ob.status,
        "backend": ob.backend,
        "seconds": round(ob.seconds, 4),
        "detail": ob.detail,
        "decisions": ob.meta.get("decisions"),
        "raised": ob.meta.get("raised"),
        "cvc5": ob.meta.get("cvc5"),
    }
    return rec


def work(job):
    """verify one contract in a worker process; everything returned is JSON-able"""
    modules, key, tier, seed, pid = job
    t0 = time.time()
    out = {"key": key, "obligations": [], "error": None}
    try:
        import z3
        from . import verify as V
        from . import replay as R
        from .engine import Ctx

        E = load_engine(modules)
        con = E.contracts[key]
        thorough = tier == "thorough"
        res, obs = V.verify_contract(E, con, thorough=thorough)
        fi = E.repo.get(con.body_key or key)
        out.update(
            paths=res.paths,
            paths_by_outcome=res.paths_by_outcome,
            vacuous_paths=list(getattr(res, "vacuous_paths", [])),
            unsupported=res.unsupported,
            engine_errors=res.engine_errors,
            missing=res.missing,
            requires_sat=res.requires_sat,
            notes=res.notes,
            inlined=res.inlined,
            sha=res.sha,
            span=res.span,
            file=res.file,
            skip_body=con.skip_body,
            hyp=list(con.hyp),
            doc=(con.doc or "").strip(),
        )
        sample_smt = None
        undecided_searched = {}
        for ob in obs:
            rec = _ob_record(ob)
            rec["label"] = _label_of(ob.name)
            if ob.status == "refuted" and ob.meta.get("transplanted"):
                # the contract's loop specification was tried on a loop that now lives in a helper and does not carry the proof there
                ob.status = rec["status"] = "undecided"
                rec["detail"] = (rec.get("detail") or "") + " | not covered: %s, and the obligation is not provable from it" % ob.meta["transplanted"]
            if ob.status == "refuted":
                rec["solver_output"] = _model_text(ob)
                rec["replay"] = _replay(E, con, fi, ob, seed) if ob.kind != "static" else {"confirmed": False, "why": "static wiring obligation: no input involved"}
                # known-finding region: is the obligation discharged outside the region?
                reg = con.known.get(rec["label"]) or con.known.get(_clause_kind(ob.name))
                if reg is not None and isinstance(reg[1], tuple) and reg[1][0] == "decision":
                    # a finding tied to one outcome of an assumed library contract: it covers only the paths that took that outcome
                    if any(l == reg[1][1] and d == reg[1][2] for l, d in ob.meta.get("branch_log", [])):
                        rec["known_id"], rec["outside_region"] = reg[0], "discharged"
                elif reg is not None:
                    rec["known_id"], rec["outside_region"] = _check_outside_region(E, con, fi, ob, reg)
            if ob.status == "undecided" and not undecided_searched.get(con.key):
                undecided_searched[con.key] = True
                try:
                    ns = R.native_search(E, con, fi, seed=seed, budget_s=10.0)
                except Exception as ex:  # noqa
                    ns = {"found": False, "why": "%s: %s" % (type(ex).__name__, ex)}
                if ns.get("found"):
                    rec["status"] = "refuted"
                    rec["detail"] += " | undecided by the solvers; native search found an input on which the real function breaks its contract"
                    rec["solver_output"] = rec["detail"]
                    rec["replay"] = {"confirmed": True, "input": ns["input"], "observed": ns["observed"], "violated_clauses": ns["violated_clauses"],
                                     "note": "native search over inputs generated from the contract's shapes (%d tried)" % ns["tried"]}
            if sample_smt is None and ob.status == "discharged" and ob.kind == "post":
                s = z3.Solver()
                s.add(*ob.pc)
                s.add(z3.Not(ob.goal))
                txt = s.to_smt2()
                sample_smt = {"obligation": ob.full_name, "smt2_sha256": hashlib.sha256(txt.encode()).hexdigest(), "smt2_head": txt[:1500]}
            out["obligations"].append(rec)
        out["sample"] = sample_smt
        # differential check of the encoding against CPython
        if isinstance(fi, R.FunctionInfo) and not con.skip_body and getattr(con, "differential", True) is not False:
            try:
                out["differential"] = V.differential(E, con, fi, max_paths=(200 if thorough else 24))
            except Exception as ex:  # noqa
                out["differential"] = {"error": "%s: %s" % (type(ex).__name__, ex), "trace": traceback.format_exc()[-1500:]}
    except Exception as ex:  # noqa
        out["error"] = "%s: %s\n%s" % (type(ex).__name__, ex, traceback.format_exc()[-3000:])
    out["seconds"] = round(time.time() - t0, 3)
    return out


def _label_of(name):
    if "[" in name and name.endswith("]"):
        return name[name.rindex("[") + 1 : -1]
    return name.rsplit("/", 1)[-1]


def _clause_kind(name):
    tail = name.rsplit("/", 1)[-1]
    return tail.split("[")[0]


def _model_text(ob):
    if ob.model is None:
        return ob.detail or "decided on the AST"
    m = ob.model
    items = []
    for d in m.decls():
        n = d.name()
        if n.startswith("p_") or n.startswith("H_") or n.startswith("res!") or n.startswith("cls_"):
            items.append("%s = %s" % (n, str(m[d]).replace("\n", " ")))
    return "sat; model: " + "; ".join(sorted(items))[:4000]


def _replay(E, con, fi, ob, seed):
    """replay the counterexample on the real function: concretise the model's state as the function's input, run the
    real code, evaluate the contract's clauses on what it did; then further models; then a native search"""
    import z3
    from . import replay as R
    from . import verify as V
    from .engine import Ctx

    kind = _clause_kind(ob.name)
    label = _label_of(ob.name)
    own = ob.name.split("/")[0] == V.short(con.key)
    attempts = []
    if con.replay is not None:
        try:
            return con.replay(E, con, fi, ob, seed)
        except Exception as ex:  # noqa
            attempts.append({"custom_replay_error": "%s: %s" % (type(ex).__name__, ex)})
    want = None
    if own and kind == "ensures":
        want = [label]
    s = z3.Solver()
    s.set("timeout", 5000)
    s.add(*ob.pc)
    s.add(z3.Not(ob.goal))
    models = []
    if ob.model is not None:
        models.append(ob.model)
    ctx0 = Ctx(E, [], "replay")
    bound = V.symbolic_params(ctx0, con, fi)
    heap0 = dict(ctx0.heap0)
    for attempt in range(6):
        if models:
            m = models.pop(0)
        else:
            if s.check() != z3.sat:
                break
            m = s.model()
        # the state of the model: pre-state arrays where the model speaks about them
        heap = dict(heap0)
        for d in m.decls():
            n = d.name()
            if n.startswith("H_") and "!" not in n:
                heap.setdefault(n[2:], z3.Const(n, d.range()) if d.arity() == 0 else None)
        try:
            info = R.run_and_check(E, con, fi, bound, m, heap, want=want, relevant_kids=R.isa_kids(list(ob.pc) + [ob.goal]))
        except R.NotConcretisable as nc:
            attempts.append({"not_concretisable": str(nc)})
            break
        except Exception as ex:  # noqa
            attempts.append({"replay_error": "%s: %s" % (type(ex).__name__, ex), "trace": traceback.format_exc()[-800:]})
            break
        attempts.append(info)
        if info.get("violated"):
            return {"confirmed": True, "input": info["inputs"], "observed": info["observed"], "violated_clauses": info["violated"],
                    "note": None if (own and kind in ("ensures", "raises", "result-shape")) else "obligation %s is internal to the proof (%s); the real function, run on the model's state, breaks the listed clauses of its contract" % (ob.name, kind),
                    "attempts": len(attempts)}
        blockers = []
        for name, sv in bound.items():
            if hasattr(sv, "t"):
                blockers.append(sv.t != m.eval(sv.t, model_completion=True))
        if not blockers:
            break
        s.add(z3.Or(*blockers))
    # last resort: native search for a failing input of this function (no solver involved)
    try:
        ns = R.native_search(E, con, fi, seed=seed, budget_s=6.0)
    except Exception as ex:  # noqa
        ns = {"found": False, "why": "%s: %s" % (type(ex).__name__, ex)}
    if ns.get("found"):
        return {"confirmed": True, "input": ns["input"], "observed": ns["observed"], "violated_clauses": ns["violated_clauses"],
                "note": "found by native search over inputs generated from the contract's shapes (%d tried); the solver's own model could not be replayed" % ns["tried"], "attempts": len(attempts)}
    return {"confirmed": False, "attempts": attempts[-3:], "native_search": ns}


def _check_outside_region(E, con, fi, ob, reg):
    """re-prove a refuted obligation restricted to the complement of a known finding's region"""
    import z3
    from . import verify as V
    from .engine import Ctx
    from .contracts import Spec
    from .calls import views_of, _attach_trace

    known_id, region_fn = reg
    ctx = Ctx(E, [], "region")
    bound = V.symbolic_params(ctx, con, fi)
    spec = Spec(ctx, ctx.snapshot(), None)
    _attach_trace(spec, ctx, ctx.trlen)
    region = region_fn(spec, **views_of(spec, bound, spec.old_heap))
    s = z3.Solver()
    s.set("timeout", V.Z3_TIMEOUT_MS)
    s.add(*ob.pc)
    s.add(z3.Not(region))
    s.add(z3.Not(ob.goal))
    r = s.check()
    return known_id, ("discharged" if r == z3.unsat else "refuted" if r == z3.sat else "undecided")


# ------------------------------------------------------------------------------------------ property level
def load_known_findings():
    p = os.path.join(VERIF, "known_findings.json")
    if not os.path.exists(p):
        return {"findings": [], "fixed": []}
    with open(p) as fh:
        return json.load(fh)


def run_witness(code):
    """run a known finding's witness natively (overlay interpreter, fresh process); True iff the defect still shows"""
    import subprocess

    from .repo import REPO_SRC

    env = dict(os.environ)
    if REPO_SRC != "/repo/src":
        env["PYTHONPATH"] = REPO_SRC + (os.pathsep + env["PYTHONPATH"] if env.get("PYTHONPATH") else "")      # (scratch trees: same tree as the VCs)
    p = subprocess.run([sys.executable, "-c", code], capture_output=True, text=True, timeout=120, env=env)
    return p.returncode == 0 and p.stdout.strip().endswith("DEFECT-PRESENT"), (p.stdout + p.stderr)[-500:]


def _lean_lemmas(rel, extra, started=None):
    """check the Lean file holding the set-sum lemma statements (the axioms the SMT side assumes) against Mathlib; one
    obligation per theorem, discharged by lean4 iff the whole file is accepted and no `sorry` / `axiom` occurs in it"""
    import re as _re
    import subprocess

    path = os.path.join(VERIF, rel)
    text = open(path).read()
    theorems = _re.findall(r"^theorem\s+(\w+)", text, _re.M)
    t0 = time.time()
    try:
        if started is not None:
            t0, proc = started
            stdout, _ = proc.communicate(timeout=900)
            ok, out = proc.returncode == 0 and "error" not in (stdout or ""), (stdout or "")[-1500:]
        else:
            p = subprocess.run(["lean", path], capture_output=True, text=True, timeout=900)
            ok, out = p.returncode == 0 and "error" not in (p.stdout + p.stderr), (p.stdout + p.stderr)[-1500:]
    except Exception as ex:  # noqa
        ok, out = False, "%s: %s" % (type(ex).__name__, ex)
    code = _re.sub(r"/-.*?-/", " ", text, flags=_re.S)
    code = _re.sub(r"--[^\n]*", " ", code)
    cheats = _re.findall(r"\b(sorry|axiom|admit|native_decide)\b", code)          # scanned in the code, not in the comments
    secs = time.time() - t0
    from . import setsum

    used = sorted(set(setsum.axioms()) | set(setsum.LEMMA_NAMES))
    unproved = [u for u in used if u not in theorems]
    if unproved:
        extra.setdefault("engine", []).append("lean: the SMT side uses set-sum facts without a theorem of that name in %s: %s" % (rel, unproved))
    obs = []
    for name in theorems:
        obs.append({"name": "lean:SetSum.%s" % name, "full_name": "lean:SetSum.%s" % name, "path": "-", "kind": "lemma", "label": name, "seconds": round(secs / max(1, len(theorems)), 3),
                    "status": "discharged" if ok and not cheats else "undecided", "backend": "lean4+mathlib", "detail": "theorem checked by lean against Mathlib" if ok else out[-300:]})
    if not theorems:
        extra.setdefault("engine", []).append("lean: no theorem found in %s" % rel)
    if cheats:
        extra.setdefault("engine", []).append("lean: %s contains %s" % (rel, sorted(set(cheats))))
    return {"key": "lean:" + rel, "obligations": obs, "paths": 0, "paths_by_outcome": {}, "requires_sat": "sat", "notes": ["axioms used by the SMT side: %s" % ", ".join(used)], "inlined": [], "hyp": [],
            "file": path, "span": None, "sha": hashlib.sha256(text.encode()).hexdigest(), "seconds": round(secs, 3)}


def run_property(pid, tier="quick", seed=0, jobs=None, extra=None):
    t0 = time.time()
    modules = PROPERTY_MODULES[pid]
    from .props import PROPS as _P

    lean_proc = None
    if _P[pid].get("lean"):
        import subprocess

        # the Lean check of the lemma statements runs alongside the SMT workers
        lean_proc = (time.time(), subprocess.Popen(["lean", os.path.join(VERIF, _P[pid]["lean"])], stdout=subprocess.PIPE, stderr=subprocess.STDOUT, text=True))
    E = load_engine(modules)
    keys = [k for k, c in E.contracts.items() if pid in c.props]
    jobs_list = [(modules, k, tier, seed, pid) for k in keys]
    nproc = jobs or min(16, max(1, len(jobs_list)))
    if nproc > 1 and len(jobs_list) > 1:
        with mp.get_context("fork").Pool(nproc) as pool:
            results = pool.map(work, jobs_list, chunksize=1)
    else:
        results = [work(j) for j in jobs_list]
    extra = dict(extra or {})
    from .props import PROPS

    if PROPS[pid].get("lemmas"):
        from . import lemmas

        recs = lemmas.prove_all()
        results.append({"key": "lemmas:fold", "obligations": [dict(r, path="-", kind="lemma", detail=r["statement"], label=r["name"]) for r in recs],
                        "paths": 0, "paths_by_outcome": {}, "requires_sat": "sat", "notes": [], "inlined": [], "hyp": [], "file": "/verif/pyvc/lemmas.py", "span": None, "sha": None, "seconds": sum(r["seconds"] for r in recs)})

    if PROPS[pid].get("lean"):
        results.append(_lean_lemmas(PROPS[pid]["lean"], extra, lean_proc))

    bmod = PROPS[pid].get("bounded")
    if bmod:
        # bounded stand-ins: labelled bounded, reported separately, never counted as proved obligations
        try:
            reports = importlib.import_module(bmod).run(E, tier)
        except Exception as ex:  # noqa
            # the stand-in runs the REAL code natively and is known to finish on the unchanged tree (every run): if it cannot finish, the code no
            # longer offers what it drives - not covered (undecided), and no reason to hide what the contracts found
            extra.setdefault("undecided", []).append("bounded stand-in %s could not run on this code: %s: %s" % (bmod, type(ex).__name__, ex))
            reports = []
        extra.setdefault("bounded", []).extend(reports)
        for rep in reports:
            kf = rep.get("known_finding")
            if kf and kf.get("hits"):
                # a recorded finding observed by a bounded probe: it must be listed in known_findings.json for THIS property
                listed = {f["id"]: f for f in load_known_findings().get("findings", []) if f["property"] == pid}
                if kf["id"] in listed:
                    ok, outtxt = run_witness(listed[kf["id"]]["witness"])
                    if ok:
                        extra.setdefault("known_lines", []).append("KNOWN-FINDING: property=%s %s [%s; observed by the bounded probe on %d document(s), witness re-run natively]" % (pid, listed[kf["id"]]["text"], kf["id"], kf["hits"]))
                    else:
                        extra.setdefault("engine", []).append("known finding %s: still observed by the probe but the recorded witness no longer fails natively (%s)" % (kf["id"], outtxt[-200:]))
                else:
                    rep["n_failures"] = rep.get("n_failures", 0) + kf["hits"]
                    rep.setdefault("failures", []).append({"what": "unlisted finding %s" % kf["id"], "example": kf.get("example")})
            if rep.get("n_failures"):
                os.makedirs(os.path.join(VERIF, "replays", pid), exist_ok=True)
                rp = os.path.join(VERIF, "replays", pid, "bounded_" + re.sub(r"[^A-Za-z0-9_]+", "_", rep["function"].split(":")[-1].split(" (")[0]).strip("_") + ".json")
                with open(rp, "w") as fh:
                    json.dump({"property": pid, "obligation": "bounded:" + rep["function"], "bounded": rep, "replayed_on_real_code": True}, fh, indent=1, default=str)
                extra.setdefault("violations", []).append("VIOLATION property=%s replay=%s" % (pid, rp))
    return finish(pid, tier, seed, E, results, t0, extra)


def finish(pid, tier, seed, E, results, t0, extra=None):
    from . import evidence

    return evidence.finish(pid, tier, seed, E, results, t0, extra)
