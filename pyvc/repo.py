"""Mechanical extraction of the real source: every run re-reads /repo/src/cobald with ``ast``.

Dropped by the extraction (and nothing else): comments, docstrings, type annotations,
``if TYPE_CHECKING`` blocks, ``if __name__ == "__main__"`` blocks.
"""
import ast
import hashlib
import importlib
import os

REPO_SRC = os.environ.get("VERIF_REPO_SRC", "/repo/src")
if REPO_SRC != "/repo/src":
    # development aid (scratch copies): the native replays must import the SAME tree the verification conditions were generated from
    import sys

    if REPO_SRC not in sys.path:
        sys.path.insert(0, REPO_SRC)


class FunctionInfo:
    def __init__(self, module, qualname, node, cls=None, closure_of=None):
        self.module = module
        self.qualname = qualname
        self.node = node
        self.cls = cls
        self.name = node.name if hasattr(node, "name") else "<lambda>"
        self.is_async = isinstance(node, ast.AsyncFunctionDef)
        self.decorators = [ast.unparse(d) for d in getattr(node, "decorator_list", [])]

    @property
    def key(self):
        return "%s:%s" % (self.module.name, self.qualname)

    def source_segment(self):
        return ast.get_source_segment(self.module.source, self.node) or ""

    def sha(self):
        return hashlib.sha256(self.source_segment().encode()).hexdigest()[:16]

    def span(self):
        return (self.node.lineno, self.node.end_lineno)

    def __repr__(self):
        return "<fn %s>" % self.key


class PropertyInfo:
    def __init__(self, name):
        self.name = name
        self.getter = None
        self.setter = None

    def __repr__(self):
        return "<property %s>" % self.name


class ClassInfo:
    def __init__(self, module, name, node):
        self.module = module
        self.name = name
        self.node = node
        self.base_exprs = [b for b in node.bases]
        self.members = {}  # name -> FunctionInfo | PropertyInfo | ('attr', ast expr)
        self.decorators = [ast.unparse(d) for d in node.decorator_list]
        self._mro = None
        self.cid = None  # class id, assigned by the registry

    @property
    def key(self):
        return "%s:%s" % (self.module.name, self.name)

    def __repr__(self):
        return "<class %s>" % self.key


class ExternalRef:
    """A name that resolves outside the repository (library module, class, function)."""

    def __init__(self, dotted):
        self.dotted = dotted

    def native(self):
        parts = self.dotted.split(".")
        for k in range(len(parts), 0, -1):
            try:
                obj = importlib.import_module(".".join(parts[:k]))
            except ImportError:
                continue
            for p in parts[k:]:
                obj = getattr(obj, p)
            return obj
        import builtins

        obj = builtins
        for p in parts:
            obj = getattr(obj, p)
        return obj

    def __eq__(self, other):
        return isinstance(other, ExternalRef) and other.dotted == self.dotted

    def __hash__(self):
        return hash(self.dotted)

    def __repr__(self):
        return "<ext %s>" % self.dotted


class ModuleInfo:
    def __init__(self, name, path, source):
        self.name = name
        self.path = path
        self.source = source
        self.tree = ast.parse(source, filename=path)
        self.is_package = os.path.basename(path) == "__init__.py"
        self.bindings = {}  # name -> FunctionInfo | ClassInfo | ('import', modname, attr|None) | ('expr', node)

    def __repr__(self):
        return "<module %s>" % self.name


def _strip_docstring(body):
    if body and isinstance(body[0], ast.Expr) and isinstance(getattr(body[0], "value", None), ast.Constant) and isinstance(body[0].value.value, str):
        return body[1:] or [ast.Pass()]
    return body


class Repo:
    def __init__(self, src=None):
        self.src = src or REPO_SRC
        self.modules = {}
        self._load()

    def _load(self):
        root = os.path.join(self.src, "cobald")
        for dirpath, _dirs, files in os.walk(root):
            for f in files:
                if not f.endswith(".py"):
                    continue
                path = os.path.join(dirpath, f)
                rel = os.path.relpath(path, self.src)[:-3].replace(os.sep, ".")
                if rel.endswith(".__init__"):
                    rel = rel[: -len(".__init__")]
                with open(path) as fh:
                    source = fh.read()
                self.modules[rel] = ModuleInfo(rel, path, source)
        for m in self.modules.values():
            self._index_module(m)

    # -- indexing -----------------------------------------------------------------------------
    def _index_module(self, m):
        for stmt in m.tree.body:
            self._index_stmt(m, stmt)

    def _index_stmt(self, m, stmt):
        if isinstance(stmt, (ast.FunctionDef, ast.AsyncFunctionDef)):
            m.bindings[stmt.name] = FunctionInfo(m, stmt.name, stmt)
        elif isinstance(stmt, ast.ClassDef):
            m.bindings[stmt.name] = self._index_class(m, stmt)
        elif isinstance(stmt, ast.Import):
            for a in stmt.names:
                if a.asname:
                    m.bindings[a.asname] = ("import", a.name, None)
                else:
                    m.bindings[a.name.split(".")[0]] = ("import", a.name.split(".")[0], None)
        elif isinstance(stmt, ast.ImportFrom):
            base = self._resolve_relative(m, stmt.module, stmt.level)
            for a in stmt.names:
                m.bindings[a.asname or a.name] = ("import", base, a.name)
        elif isinstance(stmt, ast.Assign):
            for t in stmt.targets:
                if isinstance(t, ast.Name):
                    m.bindings[t.id] = ("expr", stmt.value)
        elif isinstance(stmt, ast.AnnAssign) and isinstance(stmt.target, ast.Name) and stmt.value is not None:
            m.bindings[stmt.target.id] = ("expr", stmt.value)
        elif isinstance(stmt, ast.If):
            test = ast.unparse(stmt.test)
            if test == "TYPE_CHECKING":
                for s in stmt.orelse:
                    self._index_stmt(m, s)
            elif test.startswith("__name__"):
                pass
            else:
                for s in stmt.body + stmt.orelse:
                    self._index_stmt(m, s)

    def _resolve_relative(self, m, module, level):
        if level == 0:
            return module
        parts = m.name.split(".")
        if not m.is_package:
            parts = parts[:-1]
        parts = parts[: len(parts) - (level - 1)]
        if module:
            parts.append(module)
        return ".".join(parts)

    def _index_class(self, m, node):
        c = ClassInfo(m, node.name, node)
        c.annotations = [(st.target.id, st.value) for st in node.body if isinstance(st, ast.AnnAssign) and isinstance(st.target, ast.Name)]
        for stmt in node.body:
            if isinstance(stmt, (ast.FunctionDef, ast.AsyncFunctionDef)):
                decs = [ast.unparse(d) for d in stmt.decorator_list]
                if any(d == "overload" for d in decs):
                    continue
                fi = FunctionInfo(m, "%s.%s" % (node.name, stmt.name), stmt, cls=c)
                if "property" in decs:
                    p = PropertyInfo(stmt.name)
                    p.getter = fi
                    fi.qualname += ".getter"
                    c.members[stmt.name] = p
                elif any(d.endswith(".setter") for d in decs):
                    pname = [d for d in decs if d.endswith(".setter")][0][: -len(".setter")]
                    p = c.members.get(pname)
                    if not isinstance(p, PropertyInfo):
                        # setter extending an inherited property is not used in cobald
                        p = PropertyInfo(pname)
                        c.members[pname] = p
                    fi.qualname += ".setter"
                    p.setter = fi
                else:
                    c.members[stmt.name] = fi
            elif isinstance(stmt, ast.Assign):
                for t in stmt.targets:
                    if isinstance(t, ast.Name):
                        c.members[t.id] = ("attr", stmt.value)
            elif isinstance(stmt, ast.AnnAssign) and isinstance(stmt.target, ast.Name) and stmt.value is not None:
                c.members[stmt.target.id] = ("attr", stmt.value)
        return c

    # -- lookup -----------------------------------------------------------------------------
    def resolve_global(self, m, name, _depth=0):
        """Resolve a module-level name to FunctionInfo | ClassInfo | ExternalRef | ('expr', module, node) | ModuleInfo | None"""
        if _depth > 20:
            raise RuntimeError("import cycle resolving %s in %s" % (name, m.name))
        b = m.bindings.get(name)
        if b is None:
            return None
        if isinstance(b, (FunctionInfo, ClassInfo)):
            return b
        if b[0] == "expr":
            return ("expr", m, b[1])
        if b[0] == "import":
            modname, attr = b[1], b[2]
            if attr is None:
                if modname in self.modules:
                    return self.modules[modname]
                return ExternalRef(modname)
            full = "%s.%s" % (modname, attr)
            if full in self.modules:
                return self.modules[full]
            if modname in self.modules:
                r = self.resolve_global(self.modules[modname], attr, _depth + 1)
                if r is None:
                    raise KeyError("%s has no binding %s" % (modname, attr))
                return r
            return ExternalRef(full)
        raise AssertionError(b)

    def get(self, key):
        """'cobald.x.y:Class.method' / ':Class.prop.getter' / ':func' / ':outer.<locals>.inner' (first-level only)"""
        modname, qual = key.split(":", 1)
        m = self.modules.get(modname)
        if m is None:
            return None
        parts = qual.split(".")
        b = m.bindings.get(parts[0])
        if isinstance(b, FunctionInfo):
            if len(parts) == 1:
                return b
            # nested function: search defs in body
            return self._nested(b, parts[1:])
        if isinstance(b, ClassInfo):
            if len(parts) == 1:
                return b
            mem = b.members.get(parts[1])
            if isinstance(mem, PropertyInfo):
                if len(parts) == 2:
                    return mem
                return mem.getter if parts[2] == "getter" else mem.setter
            if isinstance(mem, FunctionInfo):
                if len(parts) == 2:
                    return mem
                return self._nested(mem, parts[2:])
            return mem
        return None

    def _nested(self, fi, parts):
        cur = fi
        for p in parts:
            found = None
            for node in ast.walk(cur.node):
                if isinstance(node, (ast.FunctionDef, ast.AsyncFunctionDef)) and node.name == p and node is not cur.node:
                    found = FunctionInfo(cur.module, cur.qualname + "." + p, node, cls=None)
                    break
            if found is None:
                return None
            cur = found
        return cur

    def mro(self, c):
        """C3 linearisation over in-repo classes; external bases are kept as ExternalRef entries at the end"""
        if c._mro is not None:
            return c._mro
        bases = []
        for be in c.base_exprs:
            if isinstance(be, ast.Subscript):  # Generic[T]
                be = be.value
            if isinstance(be, ast.Name):
                r = self.resolve_global(c.module, be.id)
                if r is None:
                    r = ExternalRef(be.id)
            elif isinstance(be, ast.Attribute):
                r = ExternalRef(ast.unparse(be))
            else:
                raise NotImplementedError("base expression %s" % ast.unparse(be))
            bases.append(r)
        seqs = []
        for b in bases:
            if isinstance(b, ClassInfo):
                seqs.append(list(self.mro(b)))
            else:
                seqs.append([b])
        seqs.append(list(bases))
        res = [c]
        while True:
            seqs = [s for s in seqs if s]
            if not seqs:
                break
            for s in seqs:
                cand = s[0]
                if not any(cand in t[1:] for t in seqs):
                    break
            else:
                raise TypeError("inconsistent MRO for %s" % c.key)
            res.append(cand)
            for s in seqs:
                if s[0] == cand:
                    del s[0]
        c._mro = res
        return res

    def lookup_member(self, c, name):
        """first definition of ``name`` along the MRO of in-repo classes; (owner, member) or (None, None).
        External bases are reported as (ExternalRef, name) when their native class has the attribute."""
        for k in self.mro(c):
            if isinstance(k, ClassInfo):
                if name in k.members:
                    return k, k.members[name]
            else:
                try:
                    nat = k.native()
                except Exception:
                    continue
                if hasattr(nat, name) and nat is not object and name not in ("__init__", "__new__") or (
                    nat is not object and name in getattr(nat, "__dict__", {})
                ):
                    return k, ("external", name)
        return None, None

    def init_fields(self, c):
        """instance attributes syntactically assigned as ``self.X = ...`` in the __init__ methods along the MRO"""
        fields = set()
        for k in self.mro(c):
            if not isinstance(k, ClassInfo):
                continue
            init = k.members.get("__init__")
            if isinstance(init, FunctionInfo):
                selfname = init.node.args.args[0].arg
                for node in ast.walk(init.node):
                    if isinstance(node, ast.Attribute) and isinstance(node.ctx, ast.Store) and isinstance(node.value, ast.Name) and node.value.id == selfname:
                        fields.add(node.attr)
            if any(isinstance(b, ExternalRef) and b.dotted.split(".")[-1] == "NamedTuple" for b in self.mro(k)):
                fields.update(n for n, _ in getattr(k, "annotations", []))       # typing.NamedTuple: the annotated names are the fields
        return fields

    def init_value_expr(self, c, name):
        """the expression(s) assigned to ``self.<name>`` in the __init__ methods along the MRO (for attributes a contract's shape does not describe)"""
        out = []
        for k in self.mro(c):
            if not isinstance(k, ClassInfo):
                continue
            init = k.members.get("__init__")
            if isinstance(init, FunctionInfo):
                selfname = init.node.args.args[0].arg
                for node in ast.walk(init.node):
                    if isinstance(node, ast.Assign):
                        for t in node.targets:
                            if isinstance(t, ast.Attribute) and isinstance(t.value, ast.Name) and t.value.id == selfname and t.attr == name:
                                out.append((init, node.value))
        return out

    def is_subclass(self, c, other):
        return other in self.mro(c)
