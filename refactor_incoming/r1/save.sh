#!/bin/sh
# usage: save.sh <k>   -- run tests on the current worktree edit, save the patch, check it applies to a clean tree, then clean
k=$1
out=/tmp/refac_out_r1/$k
mkdir -p $out
cd /tmp/seedwt_r1 || exit 1
/venv/bin/python -m pyflakes $(git diff --name-only) 2>/dev/null
PYTHONPATH=/tmp/seedwt_r1/src /venv/bin/python -m pytest -q -p no:cacheprovider --timeout=900 cobald_tests 2>&1 | tail -1 | tee $out/tests.txt
git diff > $out/patch.diff
git checkout -- .
git apply --check $out/patch.diff && echo "applies cleanly" 
git status --short
