/-
Lemma statements about sums over finite sets that the C15 contracts ASSUME as axioms of the uninterpreted
set-sum function `ssum(membership, field)` in the SMT encoding (pyvc/setsum.py).  Each is proved here against
Mathlib, for every finite set, every real-valued function and every element - so the SMT side only ever
instantiates facts that are theorems.  Python sets are modelled as finite sets of object identities (ℕ),
Python float arithmetic as real arithmetic (stated idealisation).
-/
import Mathlib.Algebra.BigOperators.Group.Finset.Basic
import Mathlib.Algebra.Order.BigOperators.Group.Finset
import Mathlib.Data.Real.Basic
import Mathlib.Tactic.Ring
import Mathlib.Tactic.Linarith
import Mathlib.Data.Finset.Card

open Finset

namespace SetSum

/-- A1 insert: adding a new member adds its value. -/
theorem ssum_insert (S : Finset ℕ) (f : ℕ → ℝ) (c : ℕ) (h : c ∉ S) :
    ∑ x ∈ insert c S, f x = ∑ x ∈ S, f x + f c := by
  rw [Finset.sum_insert h]; ring

/-- A1' insert of an existing member changes nothing. -/
theorem ssum_insert_mem (S : Finset ℕ) (f : ℕ → ℝ) (c : ℕ) (h : c ∈ S) :
    ∑ x ∈ insert c S, f x = ∑ x ∈ S, f x := by
  rw [Finset.insert_eq_of_mem h]

/-- A2 erase: removing a member subtracts its value. -/
theorem ssum_erase (S : Finset ℕ) (f : ℕ → ℝ) (c : ℕ) (h : c ∈ S) :
    ∑ x ∈ S.erase c, f x = ∑ x ∈ S, f x - f c := by
  rw [← Finset.add_sum_erase S f h]; ring

/-- A2' erase of a non-member changes nothing. -/
theorem ssum_erase_not_mem (S : Finset ℕ) (f : ℕ → ℝ) (c : ℕ) (h : c ∉ S) :
    ∑ x ∈ S.erase c, f x = ∑ x ∈ S, f x := by
  rw [Finset.erase_eq_of_notMem h]

/-- A3 update of one object's field. -/
theorem ssum_update (S : Finset ℕ) (f : ℕ → ℝ) (c : ℕ) (v : ℝ) :
    ∑ x ∈ S, Function.update f c v x = ∑ x ∈ S, f x + (if c ∈ S then v - f c else 0) := by
  by_cases h : c ∈ S
  · have h1 := Finset.add_sum_erase S (Function.update f c v) h
    have h2 := Finset.add_sum_erase S f h
    have h3 : ∑ x ∈ S.erase c, Function.update f c v x = ∑ x ∈ S.erase c, f x := by
      apply Finset.sum_congr rfl
      intro x hx
      have : x ≠ c := Finset.ne_of_mem_erase hx
      simp [Function.update, this]
    rw [if_pos h]
    simp only [Function.update_self] at h1
    linarith
  · rw [if_neg h, add_zero]
    apply Finset.sum_congr rfl
    intro x hx
    have : x ≠ c := fun e => h (e ▸ hx)
    simp [Function.update, this]

/-- A4 the empty set. -/
theorem ssum_empty (f : ℕ → ℝ) : ∑ x ∈ (∅ : Finset ℕ), f x = 0 := Finset.sum_empty

/-- A5 frame: only the members' values matter. -/
theorem ssum_congr (S : Finset ℕ) (f g : ℕ → ℝ) (h : ∀ x ∈ S, f x = g x) :
    ∑ x ∈ S, f x = ∑ x ∈ S, g x := Finset.sum_congr rfl h

/-- A6 disjoint union. -/
theorem ssum_union (S T : Finset ℕ) (f : ℕ → ℝ) (h : Disjoint S T) :
    ∑ x ∈ S ∪ T, f x = ∑ x ∈ S, f x + ∑ x ∈ T, f x := Finset.sum_union h

/-- A7 non-negativity. -/
theorem ssum_nonneg (S : Finset ℕ) (f : ℕ → ℝ) (h : ∀ x ∈ S, 0 ≤ f x) : 0 ≤ ∑ x ∈ S, f x :=
  Finset.sum_nonneg h

/-- A7'' all members zero. -/
theorem ssum_zero (S : Finset ℕ) (f : ℕ → ℝ) (h : ∀ x ∈ S, f x = 0) : ∑ x ∈ S, f x = 0 :=
  Finset.sum_eq_zero h

/-- A7' a member's value is bounded by the sum of non-negative values. -/
theorem ssum_member_le (S : Finset ℕ) (f : ℕ → ℝ) (c : ℕ) (hc : c ∈ S) (h : ∀ x ∈ S, 0 ≤ f x) :
    f c ≤ ∑ x ∈ S, f x := Finset.single_le_sum h hc

/-- A8 filtering: the sum over the members satisfying p, plus the sum over the others, is the whole sum. -/
theorem ssum_filter_split (S : Finset ℕ) (f : ℕ → ℝ) (p : ℕ → Prop) [DecidablePred p] :
    ∑ x ∈ S.filter p, f x + ∑ x ∈ S.filter (fun x => ¬ p x), f x = ∑ x ∈ S, f x :=
  Finset.sum_filter_add_sum_filter_not S p f

/-- A9 enumeration independence: summing along ANY duplicate-free enumeration of the set gives the set sum
    (this is what `sum(child.x for child in some_iteration_order)` computes, in real arithmetic). -/
theorem sum_enumeration (L : List ℕ) (f : ℕ → ℝ) (h : L.Nodup) :
    (L.map f).sum = ∑ x ∈ L.toFinset, f x := (List.sum_toFinset f h).symm

/-- A10 cardinality is the sum of ones (len of an enumeration). -/
theorem card_eq_sum_ones (S : Finset ℕ) : (S.card : ℝ) = ∑ _x ∈ S, (1 : ℝ) := by
  simp

/-- card_insert: the SMT axiom `scard(Store(m,c,true)) = scard(m) + (if m[c] then 0 else 1)`. -/
theorem card_insert (S : Finset ℕ) (c : ℕ) :
    (insert c S).card = S.card + (if c ∈ S then 0 else 1) := by
  by_cases h : c ∈ S
  · simp [h]
  · simp [h]

/-- card_erase: the SMT axiom `scard(Store(m,c,false)) = scard(m) - (if m[c] then 1 else 0)` (over ℤ). -/
theorem card_erase (S : Finset ℕ) (c : ℕ) :
    ((S.erase c).card : ℤ) = (S.card : ℤ) - (if c ∈ S then 1 else 0) := by
  by_cases h : c ∈ S
  · rw [Finset.card_erase_of_mem h, if_pos h]
    have : 1 ≤ S.card := Finset.card_pos.mpr ⟨c, h⟩
    omega
  · rw [Finset.erase_eq_of_notMem h, if_neg h]; simp

/-- card_empty. -/
theorem card_empty : (∅ : Finset ℕ).card = 0 := Finset.card_empty

/-- card_nonneg (cardinalities are natural numbers). -/
theorem card_nonneg (S : Finset ℕ) : (0 : ℤ) ≤ (S.card : ℤ) := Int.natCast_nonneg _

/-- card_zero: a finite set has no members iff its cardinality is 0. -/
theorem card_zero (S : Finset ℕ) : S.card = 0 ↔ ∀ x, x ∉ S := by
  rw [Finset.card_eq_zero, Finset.eq_empty_iff_forall_notMem]

/-- card_union of disjoint sets. -/
theorem card_union (S T : Finset ℕ) (h : Disjoint S T) : (S ∪ T).card = S.card + T.card :=
  Finset.card_union_of_disjoint h

/-- ssum_filter_le: over non-negative values a subset sums to no more than the whole. -/
theorem ssum_filter_le (S T : Finset ℕ) (f : ℕ → ℝ) (hsub : S ⊆ T) (h : ∀ x ∈ T, 0 ≤ f x) :
    ∑ x ∈ S, f x ≤ ∑ x ∈ T, f x :=
  Finset.sum_le_sum_of_subset_of_nonneg hsub (fun x hx _ => h x hx)

/-- enumeration_length: an enumeration (duplicate free list of exactly the members) has as many items as the set has members. -/
theorem enumeration_length (L : List ℕ) (h : L.Nodup) : L.length = L.toFinset.card :=
  (List.toFinset_card_of_nodup h).symm

end SetSum
